"""C01 - results always reflect the object's current state (cache coherence)."""
import os

import numpy as np

from props import families
from vlib import cachetap, enc

MAXLEN = 400


def flat(val):
    """[ndim, *shape, *values] with values scaled by 10^6; None if not numeric."""
    if hasattr(val, "toarray"):
        val = val.toarray()
    if isinstance(val, dict):
        out = []
        for k in sorted(val):
            f = flat(val[k])
            if f is None:
                return None
            out += f
        return out
    if isinstance(val, (tuple, list)) and any(isinstance(v, (np.ndarray, tuple, list)) for v in val):
        out = []
        for v in val:
            f = flat(v)
            if f is None:
                return None
            out += f
        return out
    if val is None or isinstance(val, str):
        return None
    a = np.asarray(val)
    if a.dtype == object or a.dtype.kind in "USO":
        return None
    if a.dtype.kind == "c":
        a = np.stack([a.real, a.imag], axis=-1)
    if a.dtype.kind == "b":
        a = a.astype(int)
    head = [a.ndim] + list(a.shape)
    vals = a.ravel()
    if len(vals) > MAXLEN:
        idx = np.linspace(0, len(vals) - 1, MAXLEN).astype(int)
        vals = vals[idx]
    return [int(h) for h in head] + [enc.num(v) for v in vals]


def observe(fam, obj, a):
    o, x = {}, {}
    todo = [(nm, getattr(obj, nm)) for nm in fam.names(obj)] + list(fam.calls(obj, a))
    from props import netcommon
    todo += netcommon.arg_calls(obj, already={t[0] for t in todo})
    for label, thunk in sorted(todo, key=lambda t: t[0]):
        try:
            f = flat(thunk())
            if f is not None:
                o[label] = f
        except Exception as ex:
            x[label] = type(ex).__name__
    return o, x


def run_case(c):
    if not cachetap.STATE["installed"]:
        cachetap.install()
    families.HELD.clear()
    fam = families.FAMILIES[c["family"]]
    a = dict(families.INIT[c["family"]])
    obj = fam.build(a)
    events = [{"op": "construct", "abs": dict(a)}]
    cachetap.drain()

    def obs_event():
        if not families.observable(a):
            return {"op": "observe", "abs": dict(a), "obs": {}, "x": {}, "twin": {}, "tx": {}, "hits": 0,
                    "misses": 0, "stale": []}
        o, x = observe(fam, obj, a)
        lk = cachetap.drain()
        twin = fam.build(a)
        to, tx = observe(fam, twin, a)
        tlk = cachetap.drain()
        return {"op": "observe", "abs": dict(a), "obs": o, "x": x, "twin": to, "tx": tx,
                "hits": lk["hits"] + tlk["hits"], "misses": lk["misses"] + tlk["misses"],
                "stale": lk["stale"] + ["twin:" + t for t in tlk["stale"]]}

    events.append(obs_event())
    for m, v in c["hist"]:
        exc = ""
        try:
            fam.mutate(obj, m, v)
        except Exception as ex:
            exc = type(ex).__name__
        a = families.apply_abs(a, m, v)
        events.append({"op": "mutate", "m": m, "v": v, "exc": exc})
        events.append(obs_event())
    rec = {"case": c["case"], "family": c["family"], "hist": c["hist"], "events": events}
    return rec


def run_lookup_case(c):
    """Replays a history with the lookup hook in logging mode (no shadow re-evaluation, which
    would itself touch the caches): the recorded key material is validated by Val_Cache."""
    import pyunicorn.core.cache as cache
    cachetap.install(log=True, shadow=False)
    fam = families.FAMILIES[c["family"]]
    a = dict(families.INIT[c["family"]])
    obj = fam.build(a)
    observe(fam, obj, a)
    for m, v in c["hist"]:
        try:
            fam.mutate(obj, m, v)
        except Exception:
            pass
        a = families.apply_abs(a, m, v)
        observe(fam, obj, a)
        observe(fam, obj, a)          # a second pass: every query is now a hit on the current key
    log = cachetap.drain()["log"]
    cachetap.STATE["installed"] = False
    return {"case": c["case"], "family": c["family"], "hist": c["hist"],
            "maxsize": int(cache.Cached.lru_params["maxsize"]), "events": log}


def _nontrivial(rec):
    return len(rec["hist"]) >= 1


QUICK = {"network": 2, "dirnetwork": 2, "geonetwork": 2, "interacting": 1, "resnetwork": 2, "rp": 2, "rn": 2,
         "crp": 2, "jrp": 2, "jrn": 2, "climate": 2, "climatedata": 2, "visibility": 2, "surrogates": 2,
         "tsonis": 2, "hilbert": 2, "isrn": 2, "ccn": 2, "escn": 2,
         "spearman": 2, "partialcorr": 2, "mutualinfo": 2, "havlin": 2, "ctsonis": 2}
ABA_PER_FAMILY = 12
THOROUGH = {k: 3 for k in QUICK}
THOROUGH["interacting"] = 2


def gen_histories(ctx, fam, depth):
    from vlib.core import Machinery
    r = ctx.tlc("ObjectSM", "Gen_C01_%s_%d" % (fam, min(depth, 3) if depth > 1 else 2), workers=1)
    if r.error or r.rc != 0:
        raise Machinery("GEN ObjectSM/%s failed\n%s" % (fam, r.out[-2000:]))
    hs = [t[2] for t in r.tuples if t and t[0] == "H" and t[1] == fam]
    hs = [h for h in hs if len(h) == depth]
    ctx.stages.append({"stage": "GEN ObjectSM/%s depth %d" % (fam, depth), "states": r.distinct,
                       "behaviours": len(hs)})
    return hs


def aba_histories(ctx, fam, limit):
    """"There and back" histories of length 3 (a, b, a) from TLC's depth-3 exploration: the object returns to a
    setting it has had before - where a setter that remembers its last argument, a memo keyed by the argument
    or a key that cycles would go wrong.  One per ordered pair of mutator names, seeded order."""
    import random
    h3 = [h for h in gen_histories(ctx, fam, 3) if h[0] == h[2] and h[0][0] != h[1][0]]
    random.Random(ctx.seed + len(fam)).shuffle(h3)
    def effective(h):
        """the middle step really changes the abstract state (not: set_winter_only(False) when it is off)"""
        a1 = families.apply_abs(dict(families.INIT[fam]), h[0][0], h[0][1])
        a2 = families.apply_abs(a1, h[1][0], h[1][1])
        if h[1][0] in ("set_winter_only", "set_max_delay", "set_directed"):
            return {k: v for k, v in a2.items() if k != "MODE"} != {k: v for k, v in a1.items() if k != "MODE"}
        return a2 != a1
    h3 = [h for h in h3 if effective(h)]
    # the pairs in which the middle step recomputes the object's data come first
    h3.sort(key=lambda h: 0 if h[1][0] in ("set_winter_only", "set_max_delay", "set_directed") else 1)
    seen3, aba = set(), []
    for h in h3:
        key = (h[0][0], h[1][0])
        if key not in seen3:
            seen3.add(key)
            aba.append(h)
    return aba[:limit]


def main(ctx):
    plan = QUICK if ctx.tier == "quick" else THOROUGH
    cases = []
    for fam, depth in plan.items():
        hs = gen_histories(ctx, fam, depth)
        if ctx.tier == "quick" and len(hs) > 90:
            # quick: every ordered pair of distinct mutator NAMES once + a seeded sample
            import random
            rng = random.Random(ctx.seed)
            seen, keep, rest = set(), [], []
            for h in hs:
                key = tuple(m[0] for m in h)
                if key not in seen:
                    seen.add(key)
                    keep.append(h)
                else:
                    rest.append(h)
            rng.shuffle(rest)
            hs = keep + rest[:max(0, 90 - len(keep))]
        if ctx.tier == "quick":
            hs = hs + aba_histories(ctx, fam, ABA_PER_FAMILY)
        for k, h in enumerate(hs):
            cases.append({"case": "%s_%d" % (fam, k), "family": fam, "hist": [list(m) for m in h]})
    ctx.exhaustive = ctx.tier == "thorough"
    ctx.extra["rule"] = (
        "GEN (TLC, ObjectSM): every mutator history of the cfg depth over each family's mutator alphabet "
        "(two concrete values per primary-input component); each history is replayed on the real class, after "
        "every step ALL public argument-free methods discovered on the object plus argument patterns (link "
        "attribute keys, typical weights, node groups) and summary attributes are observed on the object and on "
        "a fresh twin built from the current abstract state; TLC replays the trace through ObjectSM and decides "
        "TwinBinding and Functional at every step.  non-trivial = at least one mutator step")
    ctx.extra["families"] = plan
    recs = ctx.run_cases("props.c01.run_case", cases)
    ctx.extra["queries_per_family"] = {}
    for r in recs:
        ctx.extra["queries_per_family"].setdefault(r["family"], len(r["events"][1]["obs"]))
    evs = [e for r in recs for e in r.get("events", []) if e.get("op") == "observe"]
    ctx.extra["cache_lookups"] = {"hits_shadow_evaluated": sum(e["hits"] for e in evs),
                                  "misses": sum(e["misses"] for e in evs)}
    if evs and ctx.extra["cache_lookups"]["hits_shadow_evaluated"] == 0:
        from vlib.core import Machinery
        raise Machinery("the cache lookup hook reported no hit at all: NoStaleHit would be vacuous")
    ctx.validate("Val_C01", "Val_C01", recs, nontrivial=_nontrivial, xmx="4g")
    mechanism(ctx, cases)
    if ctx.tier == "thorough" or os.environ.get("VERIF_SUITE_TAP"):
        suite_under_hook(ctx)


def suite_under_hook(ctx):
    """The repository's own tests (all but the tests of the caching mix-in itself, whose toy classes are impure
    on purpose) run on the overlay with the lookup hook in shadow mode; one record per test; Val_Suite decides
    NoStaleHit.  A run without a single hit is a machinery failure."""
    import glob
    import json
    import os
    import subprocess
    from vlib import overlay as ov
    from vlib.core import Machinery
    out = os.path.join(ctx.work, "suite_tap")
    env = ctx.env() if hasattr(ctx, "env") else dict(os.environ)
    env["VERIF_TAP_OUT"] = out
    env["PYUNICORN_VERIF"] = "1"
    env["PYTHONPATH"] = os.path.join(ctx.ensure_overlay(), "src") + os.pathsep + os.path.dirname(os.path.dirname(os.path.abspath(__file__)))
    tests = os.path.join(ov.REPO, "tests")
    cmd = ["/venv/bin/python", "-m", "pytest", "-q", "-p", "vlib.pytest_tap", "-p", "no:cacheprovider", "-n", "8",
           "--timeout=900", tests, "--ignore=" + os.path.join(tests, "test_climate", "test_map_plot.py"),
           "--ignore=" + os.path.join(tests, "test_core", "test_cache.py"), "--rootdir=" + ov.REPO]
    p = subprocess.run(cmd, cwd=ov.REPO, env=env, stdout=subprocess.PIPE, stderr=subprocess.STDOUT, text=True)
    merged = {}
    for f in glob.glob(out + ".*.json"):          # (xdist: the controller re-emits every report with empty counts)
        for r in json.load(open(f)):
            m = merged.setdefault(r["test"], {"test": r["test"], "hits": 0, "misses": 0, "stale": []})
            m["hits"] += r["hits"]
            m["misses"] += r["misses"]
            m["stale"] += r["stale"]
    recs = [merged[k] for k in sorted(merged)]
    tail = p.stdout.strip().splitlines()[-1] if p.stdout.strip() else ""
    if not recs:
        raise Machinery("suite under the lookup hook produced no records:\n" + p.stdout[-1500:])
    hits = sum(r["hits"] for r in recs)
    if hits == 0:
        raise Machinery("suite under the lookup hook: no cache hit at all (hook not active?)")
    ctx.stages.append({"stage": "RUN repository test suite under the lookup hook (shadow mode)", "tests": len(recs),
                       "cache_hits_shadow_evaluated": hits, "misses": sum(r["misses"] for r in recs),
                       "pytest": tail[:160]})
    for k, r in enumerate(recs):
        r["case"] = "t%d" % k
    ctx.validate("Val_Suite", "Val_Suite", recs, stage="Val_Suite", nontrivial=lambda r: r["hits"] > 0)


def mechanism(ctx, cases):
    """CacheProtocol: the design model under TLC (with its two negative controls), and the real
    lookup sequences of a sample of histories validated against its Lookup action."""
    from vlib.core import Machinery
    for cfg, expect in (("MC_Cache_good" if ctx.tier == "quick" else "MC_Cache_good_deep", False),
                        ("MC_Cache_missingbump", True), ("MC_Cache_reset", True)):
        r = ctx.tlc("MC_Cache", cfg, workers=8, xmx="6g")
        if r.error:
            raise Machinery("MC_Cache/%s failed\n%s" % (cfg, r.error[-1500:]))
        if bool(r.violated) != expect:
            raise Machinery("MC_Cache/%s: %s" % (cfg, "negative control passed (the model cannot see a missing "
                            "bump / a counter reset)" if expect else "NoStaleHit fails under the discipline: %r"
                            % (r.violated,)))
        ctx.stages.append({"stage": "MC CacheProtocol/" + cfg, "states": r.distinct,
                           "expected_violation": expect, "violated": [v[1] for v in r.violated]})
    per = 3 if ctx.tier == "quick" else 12
    sample, seen = [], {}
    for c in cases:
        if seen.get(c["family"], 0) < per:
            seen[c["family"]] = seen.get(c["family"], 0) + 1
            sample.append(dict(c, case="lk_" + c["case"]))
    recs = ctx.run_cases("props.c01.run_lookup_case", sample)
    ctx.extra["mechanism_lookups_validated"] = sum(len(r.get("events", [])) for r in recs)
    ctx.validate("Val_Cache", "Val_Cache", recs, stage="Val_Cache",
                 nontrivial=lambda r: any(e["hit"] for e in r.get("events", [])), xmx="4g")


def replay(ctx, rep):
    rec = rep["record"]
    case = {"case": rec["case"], "family": rec["family"], "hist": rec["hist"]}
    if rec["case"].startswith("lk_"):
        recs = ctx.run_cases("props.c01.run_lookup_case", [case], jobs=1)
        ctx.validate("Val_Cache", "Val_Cache", recs, stage="Val_Cache")
        return
    recs = ctx.run_cases("props.c01.run_case", [case], jobs=1)
    ctx.validate("Val_C01", "Val_C01", recs, nontrivial=_nontrivial)
