"""C02 - node-splitting invariance of all n.s.i. measures."""
import os

import numpy as np

from vlib import enc

EXCLUDED = {
    "nsi_degree_histogram": "frequency histogram over node counts (not invariant by construction)",
    "nsi_degree_cumulative_histogram": "frequency histogram over node counts",
    "nsi_spreading": "marked EXPERIMENTAL",
    "nsi_laplacian": "matrix operator, column j scales with w_j (not a measure)",
}
TOL = 60


def nsi_calls(net, src, tgt):
    """(label, thunk) for every n.s.i. method of the object, incl. argument patterns."""
    calls = []
    for name in sorted(dir(net)):
        if not name.startswith("nsi_") or name in EXCLUDED:
            continue
        f = getattr(net, name)
        if not callable(f):
            continue
        if name in ("nsi_interregional_betweenness",):
            if tgt:
                calls.append((name, lambda f=f: f(sources=src, targets=tgt)))
            continue
        calls.append((name, f))
        if name in ("nsi_degree", "nsi_indegree", "nsi_outdegree", "nsi_bildegree",
                    "nsi_local_clustering", "nsi_local_cyclemotif_clustering",
                    "nsi_local_midmotif_clustering", "nsi_local_inmotif_clustering",
                    "nsi_local_outmotif_clustering"):
            calls.append((name + "(typical_weight=2)", lambda f=f: f(typical_weight=2.0)))
        # link-weighted variants (n.s.i. strengths and weighted motif clusterings): attribute "k" of the case
        if name in ("nsi_degree", "nsi_indegree", "nsi_outdegree", "nsi_bildegree",
                    "nsi_local_cyclemotif_clustering", "nsi_local_midmotif_clustering",
                    "nsi_local_inmotif_clustering", "nsi_local_outmotif_clustering") \
                and "k" in net.graph.es.attributes():
            calls.append((name + "(key)", lambda f=f: f(key="k")))
            calls.append((name + "(key,typical_weight=2)", lambda f=f: f(key="k", typical_weight=2.0)))
        if name == "nsi_betweenness" and tgt:
            calls.append((name + "(sources,targets)", lambda f=f: f(sources=src, targets=tgt)))
        if name == "nsi_newman_betweenness":
            calls.append((name + "(add_local_ends)", lambda f=f: f(add_local_ends=True)))
        if name == "nsi_arenas_betweenness":
            calls.append((name + "(exclude_neighbors=False)", lambda f=f: f(exclude_neighbors=False)))
            calls.append((name + "(stopping_mode=twinness)", lambda f=f: f(stopping_mode="twinness")))
    return calls


def _group_obs(net, src, tgt, o):
    """n.s.i. cross / internal measures of InteractingNetworks for the node groups (S, T): vectors are
    indexed by the position in the FIRST list of the call (recorded in o["gl"])."""
    from pyunicorn.core import InteractingNetworks
    from props import c11
    if not src or not tgt or net.directed:
        return
    inet = InteractingNetworks(adjacency=net.adjacency, directed=net.directed, node_weights=net.node_weights,
                               silence_level=3)
    calls = []
    for name in [n for n in c11.PAIR if n.startswith("nsi_")]:
        calls.append(("I.%s(S,T)" % name, "S", lambda name=name: getattr(inet, name)(list(src), list(tgt))))
        calls.append(("I.%s(T,S)" % name, "T", lambda name=name: getattr(inet, name)(list(tgt), list(src))))
    for name in [n for n in c11.SINGLE if n.startswith("nsi_")]:
        calls.append(("I.%s(S)" % name, "S", lambda name=name: getattr(inet, name)(list(src))))
        calls.append(("I.%s(T)" % name, "T", lambda name=name: getattr(inet, name)(list(tgt))))
    for label, which, thunk in calls:
        try:
            a = np.asarray(thunk())
            if a.ndim == 0:
                o["s"][label] = enc.num(a[()])
            elif a.ndim == 1 and a.shape[0] == inet.N and label.split("(")[0].endswith("betweenness"):
                o["v"][label] = enc.arr(a)
            elif a.ndim == 1:
                o["g"][label] = enc.arr(a)
                o["gl"][label] = which
        except Exception as ex:
            o["x"][label] = type(ex).__name__
    # ... and the single-network n.s.i. measures of the SAME object after it has answered the group measures
    # (the invariance is a statement about the network, whatever it was asked before)
    n = inet.N
    for name in AFTER_GROUP:
        label = "I.%s@after_group" % name
        try:
            a = np.asarray(getattr(inet, name)())
            if a.ndim == 0:
                o["s"][label] = enc.num(a[()])
            elif a.ndim == 1 and a.shape[0] == n:
                o["v"][label] = enc.arr(a)
            elif a.ndim == 2 and a.shape == (n, n):
                o["m"][label] = enc.arr(a)
        except Exception as ex:
            o["x"][label] = type(ex).__name__


# defined on every undirected network (no withdrawal by name needed)
AFTER_GROUP = ("nsi_degree", "nsi_closeness", "nsi_harmonic_closeness", "nsi_exponential_closeness",
               "nsi_average_path_length", "nsi_global_efficiency", "nsi_local_clustering", "nsi_transitivity",
               "nsi_global_clustering", "nsi_average_neighbors_degree", "nsi_max_neighbors_degree", "nsi_twinness")


def observe(net, src, tgt):
    o = {"s": {}, "v": {}, "m": {}, "x": {}, "g": {}, "gl": {}}
    _group_obs(net, src, tgt, o)
    n = net.N
    for label, thunk in nsi_calls(net, src, tgt):
        try:
            val = thunk()
            if hasattr(val, "toarray"):
                val = val.toarray()
            a = np.asarray(val)
            if a.ndim == 0:
                o["s"][label] = enc.num(a[()])
            elif a.ndim == 1 and a.shape[0] == n:
                o["v"][label] = enc.arr(a)
            elif a.ndim == 2 and a.shape == (n, n):
                o["m"][label] = enc.arr(a)
            else:
                o["x"][label] = "shape%s" % (a.shape,)
        except Exception as ex:
            o["x"][label] = type(ex).__name__
    return o


def run_case(c):
    from pyunicorn.core import Network
    den = float(c["wden"])
    src = [s - 1 for s in c["src"]]
    tgt = [t - 1 for t in c["tgt"]]
    import zlib
    warm = zlib.crc32(c["case"].encode()) % 3 == 0
    if warm:
        # every third case: the object has answered every n.s.i. query for OTHER weights before it is given
        # the weights of the case (the invariance is a statement about the network as it is now)
        w_other = (np.arange(len(c["w"])) % 3 + 1.0)
        net0 = Network(adjacency=np.array(c["A"]), directed=bool(c["directed"]), node_weights=w_other,
                       silence_level=3)
        observe(net0, src, tgt)
        net0.node_weights = np.array(c["w"], dtype=float) / den
    else:
        net0 = Network(adjacency=np.array(c["A"]), directed=bool(c["directed"]),
                       node_weights=np.array(c["w"], dtype=float) / den, silence_level=3)
    # a link attribute fixed by the node numbers (asymmetric on directed networks); splitted_copy hands it on
    n0 = net0.N
    ii, jj = np.indices((n0, n0))
    K = 1.0 + ((ii * jj + ii + jj) % 3) if not c["directed"] else 1.0 + ((ii + 2 * jj + ii * jj) % 3)
    net0.set_link_attribute("k", K * np.asarray(net0.adjacency))
    rec = dict(c)
    rec["warm"] = int(warm)
    rec["obs0"] = observe(net0, src, tgt)

    def split(net, v, pn, pd, src, tgt):
        new = net.splitted_copy(node=v - 1, proportion=pn / pd)
        twin = new.N - 1
        if (v - 1) in src:
            src = src + [twin]
        if (v - 1) in tgt:
            tgt = tgt + [twin]
        state = {"A": enc.ints(new.adjacency), "w": [int(round(x * den)) for x in new.node_weights],
                 "wexact": int(np.allclose(new.node_weights * den, np.round(new.node_weights * den))),
                 # distance of the reported weights from the exact split, in units of 10^-9 of the weight scale
                 "werr": int(min(10**9, round(1e9 * float(np.max(np.abs(
                     np.asarray(new.node_weights, dtype=float) * den - np.round(new.node_weights * den)))))))}
        return new, state, src, tgt

    def pos(lst, v):
        return lst.index(v - 1) + 1 if (v - 1) in lst else 0
    rec["pos1"] = [pos(src, c["v"]), pos(tgt, c["v"])]
    net1, rec["split1"], src1, tgt1 = split(net0, c["v"], c["pn"], c["pd"], src, tgt)
    rec["pos2"] = [pos(src1, c["v2"]), pos(tgt1, c["v2"])]
    rec["obs1"] = observe(net1, src1, tgt1)
    net2, rec["split2"], src2, tgt2 = split(net1, c["v2"], c["p2n"], c["p2d"], src1, tgt1)
    rec["obs2"] = observe(net2, src2, tgt2)
    return rec


BIG_MEASURES = ("nsi_average_path_length", "nsi_global_efficiency", "nsi_closeness", "nsi_harmonic_closeness",
                "nsi_exponential_closeness", "nsi_degree", "nsi_local_clustering")


def run_bigsplit(c):
    """A sparse connected network of n nodes (ring plus seeded chords, dyadic weights), node v split in halves:
    the path-based n.s.i. measures before and after."""
    from pyunicorn.core import Network
    n, v = c["n"], c["v"]
    rng = np.random.RandomState(c["gseed"])
    A = np.zeros((n, n), dtype=np.int8)
    idx = np.arange(n)
    A[idx, (idx + 1) % n] = 1
    for a, b in rng.randint(0, n, size=(n // 2, 2)):
        if a != b:
            A[a, b] = 1
    A = np.maximum(A, A.T)
    w = rng.choice([0.5, 1.0, 1.5, 2.0], size=n)
    rec = dict(c)
    rec["exc"] = ""

    def obs(net):
        o = {"s": {}, "v": {}}
        for nm in BIG_MEASURES:
            a = np.asarray(getattr(net, nm)())
            if a.ndim == 0:
                o["s"][nm] = enc.num(a[()])
            else:
                o["v"][nm] = enc.arr(a)
        return o
    try:
        net = Network(adjacency=A, node_weights=w, silence_level=3)
        rec["before"] = obs(net)
        rec["after"] = obs(net.splitted_copy(node=v - 1, proportion=0.5))
    except Exception as ex:
        rec["exc"] = type(ex).__name__
        rec["before"] = rec["after"] = {"s": {}, "v": {}}
    return rec


def _nontrivial(rec):
    return rec["n"] >= 2 and sum(rec["A"][rec["v"] - 1]) > 0


def main(ctx):
    r = ctx.tlc("MC_Nsi", "MC_Nsi_" + ctx.tier, workers=1, xmx="6g", timeout=3000)
    if r.error or r.violated or r.rc != 0:
        from vlib.core import Machinery
        raise Machinery("MC_Nsi: design-level check failed\n" + r.out[-3000:])
    cnt = [t for t in r.tuples if t and t[0] == "MC_Nsi"]
    ctx.stages.append({"stage": "DESIGN MC_Nsi: the n.s.i. DEFINITIONS are invariant under Split",
                       "evaluated_splits": cnt[0][1] if cnt else None, "wall_s": round(r.wall, 1)})
    cfg = "Gen_C02_" + ctx.tier
    cases = ctx.gen_cached("Gen_C02", cfg)
    ctx.exhaustive = True
    ctx.extra["rule"] = (
        "GEN (TLC, Gen_C02): every undirected graph up to NU nodes, directed up to ND nodes, structured families, "
        "weights over {1,2,3}; every node (quick) x p in {1/4,1/2,3/4}, followed by a second split of the twin, of v "
        "or of another node; every nsi_* method discovered on the object (argument patterns: typical_weight, "
        "sources/targets, add_local_ends, exclude_neighbors, twinness) observed before and after.  "
        "non-trivial = the split node has a neighbour")
    ctx.extra["excluded_methods"] = EXCLUDED
    ctx.extra["scope"] = open(os.path.join(os.path.dirname(__file__), "..", "spec", cfg + ".cfg")).read().split()
    recs = ctx.run_cases("props.c02.run_case", cases)
    ctx.validate("Val_C02", "Val_C02", recs, nontrivial=_nontrivial)
    # large networks (matrices beyond 2^20 entries): the path-based measures under one split
    big = [{"case": "B%d_%d" % (n, v), "blk": "bigsplit", "n": n, "v": v, "gseed": ctx.seed + n}
           for n, v in (((1030, 1), (1030, 700)) if ctx.tier == "quick" else ((1030, 1), (1030, 700), (1500, 1200), (200, 7)))]
    brecs = ctx.run_cases("props.c02.run_bigsplit", big)
    ctx.validate("Val_C02big", "Val_C02big", brecs, stage="Val_C02big", nontrivial=lambda r: True)


def replay(ctx, rep):
    rec = rep["record"]
    if rec.get("blk") == "bigsplit":
        case = {k: rec[k] for k in ("case", "blk", "n", "v", "gseed")}
        brecs = ctx.run_cases("props.c02.run_bigsplit", [case], jobs=1)
        ctx.validate("Val_C02big", "Val_C02big", brecs, stage="Val_C02big", nontrivial=lambda r: True)
        return
    case = {k: v for k, v in rec.items() if k not in ("obs0", "obs1", "obs2", "split1", "split2", "warm", "pos1", "pos2")}
    recs = ctx.run_cases("props.c02.run_case", [case], jobs=1)
    ctx.validate("Val_C02", "Val_C02", recs, nontrivial=_nontrivial)
