"""C03 - network measures equal their published definitions."""
import os
import random

import numpy as np

from vlib import enc

from props import netcommon


def run_case(c):
    rec = dict(c)
    net = netcommon.build(c)
    rec["m"], rec["x"] = netcommon.observe(net, c, netcommon.PLAIN + netcommon.NSI)
    # the same queries on two further fresh objects, in the listed and in the opposite order (flat encoding):
    # a measure is a function of the network, not of what was asked before
    from props import c01
    rec["f1"], _ = netcommon.observe(netcommon.build(c), c, netcommon.PLAIN + netcommon.NSI, encode=c01.flat)
    rec["f2"], _ = netcommon.observe(netcommon.build(c), c, netcommon.PLAIN + netcommon.NSI, encode=c01.flat,
                                     reverse=True)
    return rec


def random_cases(seed, count, nmin, nmax):
    rng = random.Random(seed)
    out = []
    for k in range(count):
        n = rng.randint(nmin, nmax)
        p = rng.choice([0.15, 0.3, 0.5, 0.7, 0.9])
        A = [[0] * n for _ in range(n)]
        for i in range(n):
            for j in range(i + 1, n):
                if rng.random() < p:
                    A[i][j] = A[j][i] = 1
        w = [rng.randint(1, 3) for _ in range(n)]
        half = (n + 1) // 2
        out.append({"case": "x%d" % k, "blk": "rnd", "n": n, "directed": 0, "A": A, "w": w,
                    "unitw": 0, "src": list(range(1, half + 1)), "tgt": list(range(half + 1, n + 1))})
    return out


def _nontrivial(rec):
    return rec["n"] >= 3 and sum(map(sum, rec["A"])) > 0


WINDMILLS = [(4, 1), (4, 2), (3, 2), (2, 4), (12, 11), (16, 16)]


def run_wind_case(c):
    """Windmill graph Wd(c, m): hub 0 joined to m disjoint c-cliques (hub degree c m)."""
    from pyunicorn.core import Network
    cc, m = c["c"], c["m"]
    n = cc * m + 1
    A = np.zeros((n, n), dtype=int)
    A[0, 1:] = A[1:, 0] = 1
    for b in range(m):
        lo = 1 + b * cc
        A[lo:lo + cc, lo:lo + cc] = 1
    np.fill_diagonal(A, 0)
    rec = dict(c)
    o = {"exc": ""}
    try:
        net = Network(adjacency=A, silence_level=3)
        o["degree"] = enc.arr(net.degree())
        o["local_clustering"] = enc.arr(net.local_clustering())
        o["cliq3"] = enc.arr(net.local_cliquishness(3))
        o["cliq4"] = enc.arr(net.local_cliquishness(4))
        o["cliq5"] = enc.arr(net.local_cliquishness(5))
        o["maxnbdeg"] = enc.arr(net.max_neighbors_degree())
        o["transitivity"] = enc.num(net.transitivity())
        o["global_clustering"] = enc.num(net.global_clustering())
        o["hot4"] = enc.num(net.higher_order_transitivity(4))
        o["n_links"] = int(net.n_links)
    except Exception as ex:
        o["exc"] = type(ex).__name__
    rec["obs"] = o
    return rec


def main(ctx):
    cfg = "Gen_C03_" + ctx.tier
    cases = ctx.gen_cached("Gen_C03", cfg)
    nr, nmax = (40, 8) if ctx.tier == "quick" else (400, 10)
    cases = cases + random_cases(ctx.seed, nr, 6, nmax)
    ctx.exhaustive = True
    ctx.extra["rule"] = (
        "GEN (TLC, Gen_C03): every labelled undirected graph up to NU nodes, every directed graph up to ND "
        "nodes, structured families up to NF nodes, each with unit weights and one weight vector over {1,2,3}; "
        "plus seeded random graphs of 6..%d nodes.  TLC evaluates every definition of Defs_Network on the "
        "recorded adjacency and compares with the recorded measure.  non-trivial = >=3 nodes and >=1 link" % nmax)
    ctx.extra["scope"] = open(os.path.join(os.path.dirname(__file__), "..", "spec", cfg + ".cfg")).read().split()
    recs = ctx.run_cases("props.c03.run_case", cases)
    ctx.validate("Val_C03", "Val_C03", recs, nontrivial=_nontrivial)
    # large degrees (beyond 8 bits) on windmill graphs with closed-form local measures
    wcases = [{"case": "w%d_%d" % cm, "c": cm[0], "m": cm[1]} for cm in WINDMILLS]
    wrecs = ctx.run_cases("props.c03.run_wind_case", wcases, jobs=2)
    ctx.validate("Val_C03w", "Val_C03w", wrecs, stage="Val_C03w", nontrivial=lambda r: r["c"] * r["m"] > 127)
    # large trees (chains, stars): path-based and random-walk measures against closed forms
    trecs = ctx.run_cases("props.c03.run_tree_case", tree_cases(ctx.tier), jobs=2)
    ctx.validate("Val_C03t", "Val_C03t", trecs, stage="Val_C03t", nontrivial=lambda r: r["N"] > 127)


def run_tree_case(c):
    """Chains and stars of up to 300 nodes: path-based and random-walk measures against closed forms."""
    from pyunicorn.core import Network
    N = c["N"]
    a, b = np.indices((N, N))
    A = (np.abs(a - b) == 1) if c["kind"] == "chain" else (((a == 0) | (b == 0)) & (a != b))
    rec = dict(c)
    o = {"exc": ""}
    try:
        net = Network(A.astype(int), silence_level=3)
        o["betweenness"] = enc.arr(net.betweenness(), 100)
        o["closeness"] = enc.arr(net.closeness())
        o["newman"] = enc.arr(net.newman_betweenness())
    except Exception as ex:
        o["exc"] = type(ex).__name__
    rec["obs"] = o
    return rec


def tree_cases(tier):
    sizes = {"chain": (5, 150), "star": (4, 257)} if tier == "quick" else {
        "chain": (3, 4, 5, 6, 129, 150, 300), "star": (3, 4, 5, 6, 129, 257, 300)}
    return [{"case": "t_%s%d" % (k, N), "blk": "tree", "kind": k, "N": N} for k in sizes for N in sizes[k]]


def replay(ctx, rep):
    rec = rep["record"]
    if rec.get("blk") == "tree":
        trecs = ctx.run_cases("props.c03.run_tree_case", [{k: v for k, v in rec.items() if k != "obs"}], jobs=1)
        ctx.validate("Val_C03t", "Val_C03t", trecs, stage="Val_C03t", nontrivial=lambda r: True)
        return
    if rec["case"].startswith("w") and "c" in rec:
        wrecs = ctx.run_cases("props.c03.run_wind_case", [{k: rec[k] for k in ("case", "c", "m")}], jobs=1)
        ctx.validate("Val_C03w", "Val_C03w", wrecs, stage="Val_C03w")
        return
    case = {k: v for k, v in rec.items() if k not in ("m", "x", "f1", "f2")}
    recs = ctx.run_cases("props.c03.run_case", [case], jobs=1)
    ctx.validate("Val_C03", "Val_C03", recs, nontrivial=_nontrivial)
