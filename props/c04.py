"""C04 - measures do not depend on node numbering."""
import os

import numpy as np

from props import netcommon
from vlib import enc


def _calls(net, src, tgt):
    calls = []
    if tgt:
        calls += [
            ("interregional_betweenness(S,T)", lambda: net.interregional_betweenness(sources=src, targets=tgt)),
            ("nsi_interregional_betweenness(S,T)", lambda: net.nsi_interregional_betweenness(sources=src, targets=tgt)),
            ("nsi_betweenness(S,T)", lambda: net.nsi_betweenness(sources=src, targets=tgt)),
        ]
    for o in (4, 5):
        calls.append(("local_cliquishness(%d)" % o, lambda o=o: net.local_cliquishness(o)))
    calls.append(("higher_order_transitivity(4)", lambda: net.higher_order_transitivity(4)))
    calls.append(("nsi_degree(typical_weight=2)", lambda: net.nsi_degree(typical_weight=2.0)))
    calls.append(("nsi_newman_betweenness(add_local_ends)", lambda: net.nsi_newman_betweenness(add_local_ends=True)))
    calls.append(("nsi_arenas_betweenness(exclude_neighbors=False)", lambda: net.nsi_arenas_betweenness(exclude_neighbors=False)))
    return calls


def _inter_calls(net, L1, L2):
    """Cross / internal measures of InteractingNetworks for the node lists (results are indexed by list
    position, so they are compared element by element when the lists are renumbered in the same order)."""
    from pyunicorn.core import InteractingNetworks
    from props import c11
    if not L1 or not L2:
        return []
    inet = InteractingNetworks(adjacency=net.adjacency, directed=net.directed,
                               node_weights=net.node_weights, silence_level=3)

    def shaped(name, *lists):
        val = getattr(inet, name)(*[list(l) for l in lists])
        if hasattr(val, "toarray"):
            val = val.toarray()
        a = np.asarray(val)
        if a.ndim == 0 or (a.ndim == 1 and a.shape[0] == inet.N and name.endswith("betweenness")):
            return a
        return np.concatenate([np.array(a.shape, dtype=float), a.astype(float).ravel()])

    calls = []
    for name in c11.PAIR:
        node_indexed = name.endswith("betweenness")
        calls.append(("I.%s(L1,L2)%s" % (name, "" if node_indexed else "~list"),
                      lambda name=name: shaped(name, L1, L2)))
    for name in c11.SINGLE:
        node_indexed = name.endswith("betweenness")
        calls.append(("I.%s(L1)%s" % (name, "" if node_indexed else "~list"), lambda name=name: shaped(name, L1)))
    return calls


def _coords(n):
    """Distinct integer coordinates of the ORIGINAL nodes (no two nodes at the same place, none at a pole)."""
    k = np.arange(n)
    return ((37 * k + 5) % 61 - 30).astype(float), ((53 * k + 11) % 97 - 48).astype(float)


def _attr(n):
    """Symmetric link lengths fixed by the ORIGINAL node numbers."""
    i, j = np.indices((n, n))
    return 1.0 + ((i + j) % 3) + 0.5 * ((i * j) % 2)


def NS_UPPER(n, W):
    """The asymmetric part that goes with the link values W: 1 where the ORIGINAL number of the row is smaller
    than that of the column.  W is fixed by the original numbers, so the original number of a node is
    recovered from W's own pattern: the caller passes it in W.orig (set in run_case)."""
    orig = getattr(W, "orig", None)
    if orig is None:
        orig = np.arange(n)
    return (orig[:, None] < orig[None, :]).astype(float)


class _Tagged(np.ndarray):
    """ndarray that carries the original node numbers of its rows (renumbered with it)."""


def _tag(W, orig):
    t = np.asarray(W).view(_Tagged)
    t.orig = np.asarray(orig)
    return t


def _more_calls(net, lat, lon, W, plain_names):
    """The same network as GeoNetwork on the given coordinates, as ResNetwork with the given link values as
    resistances (connected undirected graphs), and with the link values as link attribute: every argument-free
    geographic / resistive query and the link-weighted path family.  Labels carry the object (G. / R. / (w))."""
    from pyunicorn.core import GeoGrid, GeoNetwork, ResNetwork
    calls = []
    A = np.asarray(net.adjacency)
    n = net.N
    try:
        grid = GeoGrid(np.arange(3.0), lat, lon, silence_level=3)
        gnet = GeoNetwork(grid, adjacency=A.copy(), directed=net.directed, node_weight_type="surface",
                          silence_level=3)
        for nm in netcommon.discover(gnet):
            if nm not in plain_names and "eigenvector" not in nm:
                calls.append(("G." + nm, getattr(gnet, nm)))
        calls.append(("G.angular_distance", grid.angular_distance))
        calls += netcommon.geo_calls(gnet, "G.")
        calls.append(("G.node_weights", lambda: gnet.node_weights))
    except Exception as ex:
        calls.append(("G.__init__", lambda ex=ex: (_ for _ in ()).throw(ex)))
    wnet = net.copy()
    wnet.set_link_attribute("w", W * A)
    for nm in ("path_lengths", "closeness", "average_path_length", "global_efficiency", "degree", "indegree",
               "outdegree", "local_vulnerability"):
        calls.append((nm + "(w)", lambda nm=nm: getattr(wnet, nm)("w")))
    calls.append(("link_attribute(w)", lambda: wnet.link_attribute("w")))
    connected = (not net.directed) and n >= 2 and len(net.graph.connected_components()) == 1
    if connected:
        rnet = ResNetwork((W * A).astype(float), silence_level=3)
        calls.append(("R.effective_resistance", lambda: np.array(
            [[rnet.effective_resistance(a, b) for b in range(n)] for a in range(n)])))
        calls.append(("R.effective_resistance_closeness_centrality", lambda: np.array(
            [rnet.effective_resistance_closeness_centrality(a) for a in range(n)])))
        calls.append(("R.vertex_current_flow_betweenness", lambda: np.array(
            [rnet.vertex_current_flow_betweenness(a) for a in range(n)])))
        for nm in ("edge_current_flow_betweenness", "admittive_degree", "average_neighbors_admittive_degree",
                   "local_admittive_clustering", "global_admittive_clustering", "average_effective_resistance",
                   "diameter_effective_resistance", "get_admittance"):
            calls.append(("R." + nm, getattr(rnet, nm)))
        # ... and with NON-SYMMETRIC resistances (R_ij = R_ji + 1/2 for i < j in the ORIGINAL numbering; the admittance
        # and the Laplacian are documented as "possibly non-symmetric"): the global measures and the pairwise
        # effective resistances are renumbered like everything else
        ns = (W + 0.5 * (NS_UPPER(n, W))) * A
        rns = ResNetwork(ns.astype(float), silence_level=3)
        calls.append(("RN.effective_resistance", lambda: np.array(
            [[rns.effective_resistance(a, b) for b in range(n)] for a in range(n)])))
        for nm in ("average_effective_resistance", "diameter_effective_resistance", "admittive_degree"):
            calls.append(("RN." + nm, getattr(rns, nm)))
    # second pass on the same objects: by now every store / memo of the first pass is filled (a per-node answer
    # must not depend on what was asked before, in either numbering)
    calls += [(label + "@again", thunk) for label, thunk in calls
              if label.startswith(("R.", "G.")) and "distribution" not in label]
    return calls


def run_case(c):
    net0 = netcommon.build(c)
    names = netcommon.discover(net0)
    src = [s - 1 for s in c["src"]]
    tgt = [t - 1 for t in c["tgt"]]
    perm = [p - 1 for p in c["perm"]]
    inv = [0] * len(perm)
    for new, old in enumerate(perm):
        inv[old] = new
    rec = dict(c)
    g1 = [v - 1 for v in c["g1"]]
    g2 = [v - 1 for v in c["g2"]]
    n = net0.N
    lat, lon = _coords(n)
    W = _attr(n)
    rec["obs0"] = netcommon.observe_all(net0, names, calls=_calls(net0, src, tgt) + _inter_calls(net0, g1, g2)
                                        + _more_calls(net0, lat, lon, _tag(W, np.arange(n)), names))
    net1 = net0.permuted_copy(perm)
    rec["permuted"] = {"A": enc.ints(net1.adjacency), "w": enc.ints(net1.node_weights)}
    # node lists are renumbered with the network and presented in another order
    src1 = [inv[j] for j in src][::-1]
    tgt1 = [inv[j] for j in tgt][::-1]
    # ... and, for the list-indexed measures of InteractingNetworks, in the same order
    rec["obs1"] = netcommon.observe_all(net1, names, calls=_calls(net1, src1, tgt1) +
                                        _inter_calls(net1, [inv[j] for j in g1], [inv[j] for j in g2]) +
                                        _more_calls(net1, lat[perm], lon[perm],
                                                    _tag(W[np.ix_(perm, perm)], np.asarray(perm)), names))
    return rec


def _nontrivial(rec):
    return rec["perm"] != sorted(rec["perm"]) and sum(map(sum, rec["A"])) > 0


def main(ctx):
    cfg = "Gen_C04_" + ctx.tier
    cases = ctx.gen_cached("Gen_C04", cfg)
    ctx.exhaustive = True
    ctx.extra["rule"] = (
        "GEN (TLC, Gen_C04): every undirected graph up to NU nodes and directed graph up to ND nodes with all n! "
        "permutations up to NP nodes and content-derived affine permutations beyond, weights over {1,2,3}; "
        "permuted_copy is replayed (its result must equal Permute(abs, perm)) and every argument-free public "
        "method discovered on the object plus group-taking measures (lists renumbered and reordered) is observed "
        "before and after.  non-trivial = non-identity permutation of a graph with links")
    ctx.extra["scope"] = open(os.path.join(os.path.dirname(__file__), "..", "spec", cfg + ".cfg")).read().split()
    recs = ctx.run_cases("props.c04.run_case", cases)
    ctx.extra["methods_observed"] = sorted(set(k for r in recs[:50] for kind in "svmg" for k in r["obs0"][kind]))
    ctx.validate("Val_C04", "Val_C04", recs, nontrivial=_nontrivial)


def replay(ctx, rep):
    rec = rep["record"]
    case = {k: v for k, v in rec.items() if k not in ("obs0", "obs1", "permuted")}
    n = len(case["A"])
    case.setdefault("g1", [k for k in range(1, n + 1) if k % 2 == 1])
    case.setdefault("g2", [k for k in range(1, n + 1) if k % 2 == 0])
    recs = ctx.run_cases("props.c04.run_case", [case], jobs=1)
    ctx.validate("Val_C04", "Val_C04", recs, nontrivial=_nontrivial)
