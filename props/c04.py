"""C04 - measures do not depend on node numbering."""
import os

import numpy as np

from props import netcommon
from vlib import enc


def _calls(net, src, tgt):
    calls = []
    if tgt:
        calls += [
            ("interregional_betweenness(S,T)", lambda: net.interregional_betweenness(sources=src, targets=tgt)),
            ("nsi_interregional_betweenness(S,T)", lambda: net.nsi_interregional_betweenness(sources=src, targets=tgt)),
            ("nsi_betweenness(S,T)", lambda: net.nsi_betweenness(sources=src, targets=tgt)),
        ]
    for o in (4, 5):
        calls.append(("local_cliquishness(%d)" % o, lambda o=o: net.local_cliquishness(o)))
    calls.append(("higher_order_transitivity(4)", lambda: net.higher_order_transitivity(4)))
    calls.append(("nsi_degree(typical_weight=2)", lambda: net.nsi_degree(typical_weight=2.0)))
    calls.append(("nsi_newman_betweenness(add_local_ends)", lambda: net.nsi_newman_betweenness(add_local_ends=True)))
    calls.append(("nsi_arenas_betweenness(exclude_neighbors=False)", lambda: net.nsi_arenas_betweenness(exclude_neighbors=False)))
    return calls


def run_case(c):
    net0 = netcommon.build(c)
    names = netcommon.discover(net0)
    src = [s - 1 for s in c["src"]]
    tgt = [t - 1 for t in c["tgt"]]
    perm = [p - 1 for p in c["perm"]]
    inv = [0] * len(perm)
    for new, old in enumerate(perm):
        inv[old] = new
    rec = dict(c)
    rec["obs0"] = netcommon.observe_all(net0, names, calls=_calls(net0, src, tgt))
    net1 = net0.permuted_copy(perm)
    rec["permuted"] = {"A": enc.ints(net1.adjacency), "w": enc.ints(net1.node_weights)}
    # node lists are renumbered with the network and presented in another order
    src1 = [inv[j] for j in src][::-1]
    tgt1 = [inv[j] for j in tgt][::-1]
    rec["obs1"] = netcommon.observe_all(net1, names, calls=_calls(net1, src1, tgt1))
    return rec


def _nontrivial(rec):
    return rec["perm"] != sorted(rec["perm"]) and sum(map(sum, rec["A"])) > 0


def main(ctx):
    cfg = "Gen_C04_" + ctx.tier
    cases = ctx.gen_cached("Gen_C04", cfg)
    ctx.exhaustive = True
    ctx.extra["rule"] = (
        "GEN (TLC, Gen_C04): every undirected graph up to NU nodes and directed graph up to ND nodes with all n! "
        "permutations up to NP nodes and content-derived affine permutations beyond, weights over {1,2,3}; "
        "permuted_copy is replayed (its result must equal Permute(abs, perm)) and every argument-free public "
        "method discovered on the object plus group-taking measures (lists renumbered and reordered) is observed "
        "before and after.  non-trivial = non-identity permutation of a graph with links")
    ctx.extra["scope"] = open(os.path.join(os.path.dirname(__file__), "..", "spec", cfg + ".cfg")).read().split()
    recs = ctx.run_cases("props.c04.run_case", cases)
    ctx.extra["methods_observed"] = sorted(set(k for r in recs[:50] for kind in "svmg" for k in r["obs0"][kind]))
    ctx.validate("Val_C04", "Val_C04", recs, nontrivial=_nontrivial)


def replay(ctx, rep):
    rec = rep["record"]
    case = {k: v for k, v in rec.items() if k not in ("obs0", "obs1", "permuted")}
    recs = ctx.run_cases("props.c04.run_case", [case], jobs=1)
    ctx.validate("Val_C04", "Val_C04", recs, nontrivial=_nontrivial)
