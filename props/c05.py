"""C05 - all representations of a network agree, and survive save/load."""
import os
import tempfile

import numpy as np
import scipy.sparse as sp

from props import c01, netcommon
from vlib import enc

FILE_FORMATS = ("graphml", "graphmlz", "pickle", "gml")
PANEL = ["degree", "nsi_degree", "link_betweenness", "local_vulnerability", "betweenness",
         "local_clustering", "path_lengths", "nsi_average_path_length", "newman_betweenness"]


def _paths(c):
    from pyunicorn.core import Network
    import igraph
    A = np.array(c["A"], dtype=int)
    n = c["n"]
    directed = bool(c["directed"])
    w = np.array(c["w4"], dtype=float) / 4.0
    la = np.array(c["la"], dtype=float)

    def finish(net):
        if c["hasla"]:
            net.set_link_attribute("w", la)
        return net

    def base():
        return finish(Network(adjacency=A.copy(), directed=directed, node_weights=w.copy(), silence_level=3))

    def edges():
        idx = np.argwhere(A)
        if not directed:
            idx = idx[idx[:, 0] < idx[:, 1]]
        return idx.tolist()

    paths = {
        "dense_list": lambda: finish(Network(adjacency=A.tolist(), directed=directed, node_weights=w.tolist(), silence_level=3)),
        "ndarray": base,
    }
    for fmt in ("csr", "csc", "coo", "lil", "dok"):
        paths[fmt] = lambda fmt=fmt: finish(Network(adjacency=getattr(sp, fmt + "_matrix")(A), directed=directed,
                                                    node_weights=w.copy(), silence_level=3))

    def with_zeros(fmt):
        """The same matrix with every absent off-diagonal link stored explicitly as a zero entry."""
        rows, cols = np.nonzero(~np.eye(n, dtype=bool))
        m = sp.coo_matrix((A[rows, cols], (rows, cols)), shape=(n, n))
        return m if fmt == "coo" else getattr(m, "to" + fmt)()

    for fmt in ("csr", "csc", "coo"):
        paths[fmt + "_zeros"] = lambda fmt=fmt: finish(Network(adjacency=with_zeros(fmt), directed=directed,
                                                               node_weights=w.copy(), silence_level=3))

    def copy_then_edit():
        """A copy is an independent network: rescaling the copy's weights and rewiring it leaves the original alone."""
        net = base()
        cp = net.copy()
        wc = cp.node_weights
        wc *= 2
        cp.node_weights = wc
        cp.adjacency = 1 - A - np.eye(n, dtype=A.dtype)
        return net

    paths["copy_then_edit"] = copy_then_edit

    def used():
        """A network that has been USED (every link-weighted measure asked once) is still the same network:
        its attribute matrix, its copy and what it saves are those of the input."""
        net = base()
        if c["hasla"]:
            for nm in ("degree", "indegree", "outdegree", "bildegree", "nsi_degree", "local_cyclemotif_clustering",
                       "local_midmotif_clustering", "local_inmotif_clustering", "local_outmotif_clustering",
                       "nsi_local_cyclemotif_clustering", "nsi_local_outmotif_clustering",
                       "path_lengths", "closeness", "average_path_length", "global_efficiency", "local_vulnerability",
                       "average_link_attribute", "link_betweenness"):
                try:
                    getattr(net, nm)("w") if nm not in ("link_betweenness",) else net.link_betweenness()
                except Exception:
                    pass
        for nm in ("nsi_average_path_length", "nsi_closeness", "nsi_global_efficiency", "betweenness", "laplacian",
                   "nsi_laplacian", "splitted_copy", "local_clustering"):
            try:
                getattr(net, nm)()
            except Exception:
                pass
        return net

    paths["used"] = used
    paths["used.copy"] = lambda: used().copy()

    def used_saved():
        import tempfile
        d = tempfile.mkdtemp(prefix="c05u_", dir="/var/tmp")
        try:
            f = os.path.join(d, "net.graphml")
            used().save(f)
            return Network.Load(f, silence_level=3)
        finally:
            import shutil
            shutil.rmtree(d, ignore_errors=True)

    paths["used.graphml"] = used_saved
    paths["edge_list_n"] = lambda: finish(Network(edge_list=edges(), n_nodes=n, directed=directed,
                                                  node_weights=w.copy(), silence_level=3))
    # without n_nodes the node count is inferred from the largest index: only for graphs whose
    # last node has a link
    if A[n - 1, :].any() or A[:, n - 1].any():
        paths["edge_list"] = lambda: finish(Network(edge_list=edges(), directed=directed,
                                                    node_weights=w.copy(), silence_level=3))

    def from_igraph():
        g = igraph.Graph(n=n, edges=edges(), directed=directed)
        g.vs["node_weight_nsi"] = list(w)
        if c["hasla"]:
            g.es["w"] = [la[e.tuple] for e in g.es]
        return Network.FromIGraph(g, silence_level=3)

    paths["igraph"] = from_igraph

    def shuffled():
        """The edges in another order; every second undirected edge with its endpoints exchanged."""
        es = edges()[::-1]
        es = es[1::2] + es[0::2]
        if not directed:
            es = [(e[1], e[0]) if k % 2 else tuple(e) for k, e in enumerate(es)]
        return [tuple(e) for e in es]

    def from_igraph_shuffled():
        g = igraph.Graph(n=n, edges=shuffled(), directed=directed)
        g.vs["node_weight_nsi"] = list(w)
        if c["hasla"]:
            g.es["w"] = [la[e.tuple] for e in g.es]
        return Network.FromIGraph(g, silence_level=3)

    paths["igraph_shuffled"] = from_igraph_shuffled
    paths["igraph_shuffled.copy"] = lambda: from_igraph_shuffled().copy()
    paths["edge_list_shuffled"] = lambda: finish(Network(edge_list=shuffled(), n_nodes=n, directed=directed,
                                                         node_weights=w.copy(), silence_level=3))
    paths["edge_list_n.copy"] = lambda: paths["edge_list_n"]().copy()
    paths["copy.copy"] = lambda: base().copy().copy()
    paths["copy"] = lambda: base().copy()
    if not directed:
        paths["undirected_copy"] = lambda: base().undirected_copy()

    def roundtrip(fmt):
        d = tempfile.mkdtemp(prefix="pyu_c05_", dir="/var/tmp")
        try:
            f = os.path.join(d, "net." + fmt)
            base().save(f, fileformat=fmt)
            return Network.Load(f, fileformat=fmt, silence_level=3)
        finally:
            import shutil
            shutil.rmtree(d, ignore_errors=True)

    for fmt in FILE_FORMATS:
        paths[fmt] = lambda fmt=fmt: roundtrip(fmt)
    for fmt in ("graphml", "pickle"):
        paths[fmt + ".copy"] = lambda fmt=fmt: roundtrip(fmt).copy()

    def resave(fmt, to_unit):
        """save, change the node weights on the same object, save again, load the second file"""
        d = tempfile.mkdtemp(prefix="pyu_c05_", dir="/var/tmp")
        try:
            net = base()
            if not to_unit:
                net.node_weights = np.ones(n)
            net.save(os.path.join(d, "first." + fmt), fileformat=fmt)
            net.node_weights = np.ones(n) if to_unit else w.copy()
            net.save(os.path.join(d, "second." + fmt), fileformat=fmt)
            return Network.Load(os.path.join(d, "second." + fmt), fileformat=fmt, silence_level=3)
        finally:
            import shutil
            shutil.rmtree(d, ignore_errors=True)

    for fmt in ("graphml", "pickle"):
        paths["resave_unit." + fmt] = lambda fmt=fmt: resave(fmt, True)
        paths["resave_w." + fmt] = lambda fmt=fmt: resave(fmt, False)

    def spatial(kind, fmt):
        from pyunicorn.core import GeoGrid, GeoNetwork, Grid, SpatialNetwork
        d = tempfile.mkdtemp(prefix="pyu_c05_", dir="/var/tmp")
        try:
            files = (os.path.join(d, "net." + fmt), os.path.join(d, "grid.txt"))
            lat = np.linspace(-60.0, 75.0, n) if n > 1 else np.array([10.0])
            lon = np.linspace(-150.0, 170.0, n) if n > 1 else np.array([20.0])
            if kind == "spatial":
                grid = Grid(np.arange(3.0), np.array([lat, lon]), silence_level=3)
                net = SpatialNetwork(grid, adjacency=A.copy(), directed=directed, silence_level=3)
                net.node_weights = w.copy()
                cls = SpatialNetwork
            else:
                grid = GeoGrid(np.arange(3.0), lat, lon, silence_level=3)
                net = GeoNetwork(grid, adjacency=A.copy(), directed=directed, node_weight_type=None,
                                 silence_level=3)
                if kind == "geo_set":
                    net.node_weights = w.copy()
                cls = GeoNetwork
            if c["hasla"]:
                net.set_link_attribute("w", la)
            net.save(files, fileformat=fmt)
            return cls.Load(files, fileformat=fmt, silence_level=3)
        finally:
            import shutil
            shutil.rmtree(d, ignore_errors=True)

    def geo(kind):
        from pyunicorn.core import GeoGrid, GeoNetwork
        lat = np.linspace(-60.0, 75.0, n) if n > 1 else np.array([10.0])
        lon = np.linspace(-150.0, 170.0, n) if n > 1 else np.array([20.0])
        grid = GeoGrid(np.arange(3.0), lat, lon, silence_level=3)
        if kind == "geo_switch_irrigation":
            net = GeoNetwork(grid, adjacency=A.copy(), directed=directed, node_weight_type="surface", silence_level=3)
            net.set_node_weight_type("irrigation")
        else:
            net = GeoNetwork(grid, adjacency=A.copy(), directed=directed,
                             node_weight_type=kind[len("geo_"):], silence_level=3)
        return finish(net)

    for kind in ("geo_surface", "geo_irrigation", "geo_switch_irrigation"):
        paths[kind] = lambda kind=kind: geo(kind)
    paths["geo_none.graphml"] = lambda: spatial("geo_none", "graphml")
    paths["geo_set.graphml"] = lambda: spatial("geo_set", "graphml")
    paths["geo_set.pickle"] = lambda: spatial("geo_set", "pickle")
    paths["spatial.graphml"] = lambda: spatial("spatial", "graphml")

    def climate(fmt):
        """ClimateNetwork.save / Load (network file + grid file + similarity matrix file)."""
        from pyunicorn.core import GeoGrid
        from pyunicorn.climate import ClimateNetwork
        d = tempfile.mkdtemp(prefix="pyu_c05_", dir="/var/tmp")
        try:
            files = (os.path.join(d, "net." + fmt), os.path.join(d, "grid.txt"), os.path.join(d, "sim.npy"))
            lat = np.linspace(-60.0, 75.0, n) if n > 1 else np.array([10.0])
            lon = np.linspace(-150.0, 170.0, n) if n > 1 else np.array([20.0])
            grid = GeoGrid(np.arange(3.0), lat, lon, silence_level=3)
            # a similarity matrix whose entries above 1/2 are exactly the links of the case
            S = 0.25 + 0.5 * np.maximum(A, A.T) if not directed else 0.25 + 0.5 * A
            np.fill_diagonal(S, 1.0)
            net = ClimateNetwork(grid, S, threshold=0.5, directed=directed, node_weight_type=None, silence_level=3)
            net.node_weights = w.copy()
            if c["hasla"]:
                net.set_link_attribute("w", la)
            net.save(files, fileformat=fmt)
            return ClimateNetwork.Load(files, fileformat=fmt, silence_level=3)
        finally:
            import shutil
            shutil.rmtree(d, ignore_errors=True)

    paths["climate.graphml"] = lambda: climate("graphml")
    return paths


def _observe(net, c):
    o = {"x": {}}
    o["N"] = int(net.N)
    o["n_links"] = int(net.n_links)
    o["ld"] = enc.num(net.link_density)
    o["directed"] = int(bool(net.directed))
    o["adj"] = enc.ints(net.adjacency)
    o["spA"] = enc.ints(np.asarray(net.sp_A.todense()))
    g = np.zeros((net.N, net.N), dtype=int)
    for e in net.graph.es:
        g[e.tuple] = 1
        if not net.directed:
            g[e.tuple[1], e.tuple[0]] = 1
    o["graph"] = enc.ints(g)
    o["graph_n"] = int(net.graph.vcount())
    o["w4"] = [enc.num(v, 4) for v in net.node_weights]
    o["total4"] = enc.num(net.total_node_weight, 4)
    o["wfine"] = [enc.num(v, 10**4) for v in net.node_weights]       # the same in units of 10^-4
    o["totalfine"] = enc.num(net.total_node_weight, 10**4)
    o["meanfine"] = enc.num(net.mean_node_weight, 10**4)
    o["mean6"] = enc.num(net.mean_node_weight)
    try:
        o["la"] = enc.ints(np.rint(net.link_attribute("w")).astype(int)) if c["hasla"] else []
        o["la_exc"] = ""
    except Exception as ex:
        o["la"] = []
        o["la_exc"] = type(ex).__name__
    panel = {}
    for nm in PANEL:
        try:
            f = c01.flat(getattr(net, nm)())
            if f is not None:
                panel[nm] = f
        except Exception as ex:
            o["x"][nm] = type(ex).__name__
    o["panel"] = panel
    return o


def run_case(c):
    rec = dict(c)
    obs = {}
    for name, thunk in _paths(c).items():
        try:
            obs[name] = _observe(thunk(), c)
            obs[name]["exc"] = ""
        except Exception as ex:
            obs[name] = {"exc": type(ex).__name__}
    rec["paths"] = obs
    return rec


def _nontrivial(rec):
    return rec["n"] >= 2


def main(ctx):
    cfg = "Gen_C05_" + ctx.tier
    cases = ctx.gen_cached("Gen_C05", cfg)
    ctx.exhaustive = True
    ctx.extra["rule"] = (
        "GEN (TLC, Gen_C05): every undirected graph up to NU nodes (incl. edgeless, single link, N=1,2), every "
        "directed graph up to ND nodes, unit / non-unit node weights, with / without a link attribute; each is "
        "realised through every constructor path of NetworkSM!Paths (dense list, ndarray, 5 scipy sparse formats, "
        "edge list +/- n_nodes, igraph object, copy, undirected_copy, save->Load for graphml, graphmlz, pickle, gml); "
        "TLC checks every path's summary attributes against the abstract network and the measure panel against "
        "the dense path.  non-trivial = at least 2 nodes")
    ctx.extra["scope"] = open(os.path.join(os.path.dirname(__file__), "..", "spec", cfg + ".cfg")).read().split()
    recs = ctx.run_cases("props.c05.run_case", cases)
    ctx.validate("Val_C05", "Val_C05", recs, nontrivial=_nontrivial)


def replay(ctx, rep):
    rec = rep["record"]
    case = {k: v for k, v in rec.items() if k != "paths"}
    recs = ctx.run_cases("props.c05.run_case", [case], jobs=1)
    ctx.validate("Val_C05", "Val_C05", recs, nontrivial=_nontrivial)
