"""C06 - queries are pure: no interference, inputs are never modified."""
import hashlib

import numpy as np

from props import c01, families


def digest(a):
    a = np.ascontiguousarray(np.asarray(a))
    return hashlib.sha1(a.tobytes() + str(a.shape).encode() + str(a.dtype).encode()).hexdigest()[:16]


# ---- objects built from caller-owned arrays (so that the arrays can be checked afterwards)
def _net_inputs(directed=False):
    from pyunicorn.core import Network
    A = families.ADJ[directed][1].copy()
    w = families.WEIGHTS[1].copy()
    la = families.link_attr(1)
    net = Network(adjacency=A, directed=directed, node_weights=w, silence_level=3)
    net.set_link_attribute("w", la)
    return net, {"adjacency": A, "node_weights": w, "link_attribute": la}


def _rp_inputs(cls_name):
    import pyunicorn.timeseries as ts
    x = families.SERIES.copy()
    y = families.SERIES_Y.copy()
    if cls_name in ("RecurrencePlot", "RecurrenceNetwork"):
        return getattr(ts, cls_name)(x, metric="supremum", threshold=0.6, silence_level=3), {"time_series": x}
    if cls_name == "CrossRecurrencePlot":
        return ts.CrossRecurrencePlot(x, y, threshold=0.6, silence_level=3), {"x": x, "y": y}
    if cls_name == "InterSystemRecurrenceNetwork":
        return ts.InterSystemRecurrenceNetwork(x, y, threshold=(0.6, 0.6, 0.6), silence_level=3), {"x": x, "y": y}
    if cls_name == "VisibilityGraph":
        return ts.VisibilityGraph(x, silence_level=3), {"time_series": x}
    return getattr(ts, cls_name)(x, y, threshold=(0.6, 0.7), lag=1, silence_level=3), {"x": x, "y": y}


def _surrogates_inputs():
    from pyunicorn.timeseries import Surrogates
    t = np.arange(16)
    data = np.array([np.sin(t * 0.7 + k) + 0.3 * np.cos(t * 1.9 + 2 * k) for k in range(3)])
    return Surrogates(original_data=data, silence_level=3), {"original_data": data}


def _climate_inputs(cls_name):
    import pyunicorn.climate as cl
    obs = families._data()
    cd = cl.ClimateData(obs, families._grid(), 5, silence_level=3)
    kw = dict(threshold=0.4, silence_level=3, winter_only=False)
    inputs = {"observable": obs, "shared_data.observable()": cd.observable(),
              "shared_data.anomaly()": cd.anomaly()}
    pre = {k: digest(v) for k, v in inputs.items()}      # before the network is derived from the data
    net = getattr(cl, cls_name)(cd, **kw)
    inputs["__pre__"] = pre
    return net, inputs, cd


def _clim_inputs():
    from pyunicorn.climate import ClimateNetwork
    S = families.SIM.copy()
    return ClimateNetwork(families._grid(), S, threshold=0.4, silence_level=3), {"similarity_measure": S}


def _res_inputs():
    from pyunicorn.core import ResNetwork
    R = families.RES[1].copy()
    return ResNetwork(R, silence_level=3), {"resistances": R}


class Target:
    """One class under test: how to build it from caller arrays and what to query."""

    def __init__(self, name, build, names, calls=None, random_ok=()):
        self.name, self.build, self._names, self._calls, self.random_ok = name, build, names, calls, random_ok

    def queries(self, obj):
        q = [(nm, getattr(obj, nm)) for nm in self._names(obj)]
        if self._calls:
            q += self._calls(obj)
        return sorted(q, key=lambda t: t[0])


def _fam_names(fam):
    return lambda obj: families.FAMILIES[fam].names(obj)


def _fam_calls(fam, a):
    return lambda obj: families.FAMILIES[fam].calls(obj, a)


SURR_SKIP = ()


def _surr_calls(obj):
    return [("original_data_fft", obj.original_data_fft),
            ("correlated_noise_surrogates~fft-amplitudes", lambda: np.abs(np.fft.rfft(obj.correlated_noise_surrogates(), axis=1))[:, 1:-1]),
            ("AAFT_surrogates~sorted", lambda: np.sort(obj.AAFT_surrogates(), axis=1)),
            ("refined_AAFT_surrogates~sorted", lambda: np.sort(obj.refined_AAFT_surrogates(3), axis=1)),
            ("white_noise_surrogates~sorted", lambda: np.sort(obj.white_noise_surrogates(), axis=1)),
            ("twins", lambda: [len(t) for t in obj.twins(0.6, min_dist=2)] if obj._embedding is not None else None),
            ("original_data", lambda: obj.original_data)]


def _climate_calls(obj):
    return [("similarity_measure", obj.similarity_measure), ("adjacency", lambda: obj.adjacency),
            ("data.anomaly", lambda: obj.data.anomaly()), ("data.observable", lambda: obj.data.observable())]


TARGETS = {
    "network": Target("network", lambda: _net_inputs(False), _fam_names("network"),
                      _fam_calls("network", {"A": 1, "W": 1, "LA": 1})),
    "dirnetwork": Target("dirnetwork", lambda: _net_inputs(True), _fam_names("dirnetwork"),
                         _fam_calls("dirnetwork", {"A": 1, "W": 1, "LA": 1})),
    "rp": Target("rp", lambda: _rp_inputs("RecurrencePlot"), _fam_names("rp"), _fam_calls("rp", {})),
    "rn": Target("rn", lambda: _rp_inputs("RecurrenceNetwork"), _fam_names("rn"), _fam_calls("rn", {})),
    "crp": Target("crp", lambda: _rp_inputs("CrossRecurrencePlot"), _fam_names("crp"), _fam_calls("crp", {})),
    "jrp": Target("jrp", lambda: _rp_inputs("JointRecurrencePlot"), _fam_names("jrp"), _fam_calls("jrp", {})),
    "jrn": Target("jrn", lambda: _rp_inputs("JointRecurrenceNetwork"), _fam_names("jrn"), _fam_calls("jrn", {})),
    "visibility": Target("visibility", lambda: _rp_inputs("VisibilityGraph"), _fam_names("visibility"), None),
    "isrn": Target("isrn", lambda: _rp_inputs("InterSystemRecurrenceNetwork"),
                   lambda obj: [n for n in families.FAMILIES["network"].names(obj) if "eigenvector" not in n] +
                   ["internal_recurrence_rates", "cross_recurrence_rate", "cross_global_clustering_xy",
                    "cross_global_clustering_yx", "cross_transitivity_xy", "cross_transitivity_yx"], None),
    "surrogates": Target("surrogates", _surrogates_inputs, lambda obj: [], _surr_calls),
    "climate": Target("climate", _clim_inputs, _fam_names("climate"), _fam_calls("climate", {})),
    "resnetwork": Target("resnetwork", _res_inputs, _fam_names("resnetwork"), _fam_calls("resnetwork", {})),
    "tsonis": Target("tsonis", lambda: _climate_inputs("TsonisClimateNetwork")[:2], lambda obj: ["correlation"],
                     _climate_calls),
    "spearman": Target("spearman", lambda: _climate_inputs("SpearmanClimateNetwork")[:2],
                       lambda obj: ["correlation"], _climate_calls),
    "mutualinfo": Target("mutualinfo", lambda: _climate_inputs("MutualInfoClimateNetwork")[:2],
                         lambda obj: ["mutual_information"], _climate_calls),
}


def _run_all(target, obj, skip=None):
    o, x = {}, {}
    for label, thunk in target.queries(obj):
        try:
            f = c01.flat(thunk())
            if f is not None:
                o[label] = f
        except Exception as ex:
            x[label] = type(ex).__name__
    return o, x


def run_case(c):
    """One query `q` of one class: cold ([q, ALL]) or warm ([ALL, q, ALL]) on the object, ALL on a
    fresh twin as baseline, q repeated; digests of the caller-owned arrays before / after."""
    np.random.seed(c["seed"])
    import random
    random.seed(c["seed"])
    t = TARGETS[c["target"]]
    twin, tin = t.build()
    tin.pop("__pre__", None)
    base, basex = _run_all(t, twin)
    obj, inputs = t.build()
    pre = inputs.pop("__pre__", None)
    before = pre if pre is not None else {k: digest(v) for k, v in inputs.items()}
    qs = dict(t.queries(obj))
    rec = dict(c)
    rec["labels"] = sorted(qs)
    if c["q"] not in qs:
        rec["skip"] = 1
        rec["base"], rec["basex"], rec["after"], rec["afterx"] = {}, {}, {}, {}
        rec["rep"], rec["inputs_before"], rec["inputs_after"] = [[0], [0]], before, before
        rec["qexc"] = ""
        return rec
    rec["skip"] = 0
    if c["mode"] == "warm":
        _run_all(t, obj)
    rep, qexc = [], ""
    for _ in range(2):
        try:
            f = c01.flat(qs[c["q"]]())
            rep.append(f if f is not None else [0])
        except Exception as ex:
            qexc = type(ex).__name__
            rep.append([0])
    after, afterx = _run_all(t, obj)
    rec["base"], rec["basex"], rec["after"], rec["afterx"] = base, basex, after, afterx
    rec["rep"] = rep
    rec["qexc"] = qexc
    rec["inputs_before"] = before
    rec["inputs_after"] = {k: digest(v) for k, v in inputs.items()}
    return rec


def list_queries(c):
    t = TARGETS[c["target"]]
    obj, _ = t.build()
    return {"case": c["case"], "target": c["target"], "labels": [l for l, _ in t.queries(obj)]}


def _nontrivial(rec):
    return rec.get("skip") == 0 and len(rec["after"]) >= 2


QUICK_TARGETS = ["network", "rp", "rn", "jrp", "surrogates", "climate", "resnetwork", "tsonis", "mutualinfo",
                 "spearman", "isrn"]


def main(ctx):
    targets = QUICK_TARGETS if ctx.tier == "quick" else sorted(TARGETS)
    lists = ctx.run_cases("props.c06.list_queries",
                          [{"case": "l_" + t, "target": t} for t in targets], jobs=len(targets))
    cases = []
    for l in lists:
        for k, q in enumerate(l["labels"]):
            modes = ["cold", "warm"] if ctx.tier == "thorough" else (["cold"] if k % 2 else ["warm"])
            for mode in modes:
                cases.append({"case": "%s_%d_%s" % (l["target"], k, mode), "target": l["target"], "q": q,
                              "mode": mode, "seed": ctx.seed + k})
    ctx.exhaustive = ctx.tier == "thorough"
    ctx.extra["rule"] = (
        "For every class under test and EVERY discovered query q (argument-free public methods + argument "
        "patterns): the object is built from caller-owned arrays; q runs first on a cold object (or after ALL "
        "queries, warm), is repeated, then ALL queries run and are compared with ALL queries on a fresh twin - "
        "i.e. every ordered pair (q, b) of queries is covered; digests of the caller-owned arrays and of shared "
        "data objects are taken before and after.  TLC decides Pure (ObjectSM: a query leaves the abstract state "
        "unchanged, so every later observation equals the twin's), Repeatable and InputsUntouched.  "
        "non-trivial = the class has at least two queries")
    ctx.extra["targets"] = {l["target"]: len(l["labels"]) for l in lists}
    recs = ctx.run_cases("props.c06.run_case", cases)
    ctx.validate("Val_C06", "Val_C06", recs, nontrivial=_nontrivial, xmx="4g")


def replay(ctx, rep):
    rec = rep["record"]
    case = {k: rec[k] for k in ("case", "target", "q", "mode", "seed")}
    recs = ctx.run_cases("props.c06.run_case", [case], jobs=1)
    ctx.validate("Val_C06", "Val_C06", recs, nontrivial=_nontrivial)
