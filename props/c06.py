"""C06 - queries are pure: no interference, inputs are never modified."""
import hashlib

import numpy as np

from props import c01, families
from vlib import cachetap


def digest(a):
    a = np.ascontiguousarray(np.asarray(a))
    return hashlib.sha1(a.tobytes() + str(a.shape).encode() + str(a.dtype).encode()).hexdigest()[:16]


VARIANTS = ["default", "narrow", "wide", "fortran"]
_VAR = ["default"]          # the input variant the builders currently use


def V(arr):
    """A caller-owned copy of `arr` in the current input variant: the array as written; narrow
    (float32 / int8) and wide (float64 / int64) dtypes - one of them is the type the library converts to,
    so that a conversion without copy would alias the caller's array; Fortran order."""
    a = np.array(arr, order="C")
    v = _VAR[0]
    if v == "narrow":
        a = a.astype(np.float32 if a.dtype.kind == "f" else np.int8 if a.dtype.kind in "iub" else a.dtype)
    elif v == "wide":
        a = a.astype(np.float64 if a.dtype.kind == "f" else np.int64 if a.dtype.kind in "iub" else a.dtype)
    elif v == "fortran" and a.ndim == 2:
        a = np.asfortranarray(a)
    SNAP[id(a)] = (a, digest(a))      # content digest at the moment the caller creates the array
    return a


SNAP = {}


def _before(inputs):
    """Digest of each caller-owned array as it was BEFORE it was handed to the library."""
    return {k: (SNAP[id(v)][1] if id(v) in SNAP and SNAP[id(v)][0] is v else digest(v)) for k, v in inputs.items()}


def _la():
    """Link lengths; the links of the pendant node 5 have length N (= 6), so that a shortest weighted path
    coincides with the placeholder some measures temporarily write over unconnected pairs."""
    la = families.link_attr(1)
    for i, j in ((0, 5), (4, 5), (3, 5)):
        la[i, j] = la[j, i] = 6.0
    return la


# ---- objects built from caller-owned arrays (so that the arrays can be checked afterwards)
def _net_inputs(directed=False, token=1, cls=None):
    from pyunicorn.core import Network
    Network = cls or Network
    A = V(families.ADJ[directed][token])
    w = V(families.WEIGHTS[1])
    la = V(_la())
    net = Network(adjacency=A, directed=directed, node_weights=w, silence_level=3)
    net.set_link_attribute("w", la)
    return net, {"adjacency": A, "node_weights": w, "link_attribute": la}


def _rp_inputs(cls_name):
    import pyunicorn.timeseries as ts
    x = V(families.SERIES)
    y = V(families.SERIES_Y)
    if cls_name in ("RecurrencePlot", "RecurrenceNetwork"):
        return getattr(ts, cls_name)(x, metric="supremum", threshold=0.6, silence_level=3), {"time_series": x}
    if cls_name == "CrossRecurrencePlot":
        return ts.CrossRecurrencePlot(x, y, threshold=0.6, silence_level=3), {"x": x, "y": y}
    if cls_name == "InterSystemRecurrenceNetwork":
        return ts.InterSystemRecurrenceNetwork(x, y, threshold=(0.6, 0.6, 0.6), silence_level=3), {"x": x, "y": y}
    if cls_name == "VisibilityGraph":
        return ts.VisibilityGraph(x, silence_level=3), {"time_series": x}
    return getattr(ts, cls_name)(x, y, threshold=(0.6, 0.7), lag=1, silence_level=3), {"x": x, "y": y}


def _surrogates_inputs():
    from pyunicorn.timeseries import Surrogates
    t = np.arange(16)
    data = V(np.array([np.sin(t * 0.7 + k) + 0.3 * np.cos(t * 1.9 + 2 * k) for k in range(3)]))
    return Surrogates(original_data=data, silence_level=3), {"original_data": data}


CLIMATE_KW = {
    "HavlinClimateNetwork": dict(max_delay=2, threshold=0.4),
    "HilbertClimateNetwork": dict(threshold=0.4, directed=True),
    "PartialCorrelationClimateNetwork": dict(threshold=0.2, winter_only=False),
    "RainfallClimateNetwork": dict(threshold=0.2),
}


def _climate_inputs(cls_name, anomalies=False):
    import pyunicorn.climate as cl
    obs = V(families._data())
    cd = cl.ClimateData(obs, families._grid(), 5, anomalies=anomalies, silence_level=3)
    kw = dict(CLIMATE_KW.get(cls_name, dict(threshold=0.4, winter_only=False)), silence_level=3)
    inputs = {"observable": obs, "shared_data.observable()": cd.observable(),
              "shared_data.anomaly()": cd.anomaly()}
    pre = {k: digest(v) for k, v in inputs.items()}      # before the network is derived from the data
    net = getattr(cl, cls_name)(cd, **kw)
    inputs["__pre__"] = pre
    return net, inputs, cd


def _clim_inputs():
    from pyunicorn.climate import ClimateNetwork
    S = V(families.SIM)
    return ClimateNetwork(families._grid(), S, threshold=0.4, silence_level=3), {"similarity_measure": S}


def _edgeless_inputs():
    """A network WITHOUT links (four nodes) that nevertheless carries a link attribute: every path query is
    about unreachable pairs only."""
    from pyunicorn.core import Network
    A = V(np.zeros((4, 4), dtype=int))
    w = V(np.array([1.0, 2.0, 1.5, 0.5]))
    la = V(np.zeros((4, 4)))
    net = Network(adjacency=A, node_weights=w, silence_level=3)
    net.set_link_attribute("w", la)
    return net, {"adjacency": A, "node_weights": w, "link_attribute": la}


def _geo_inputs():
    """GeoNetwork on caller-owned coordinates (no node on the equator / zero meridian) with a link attribute."""
    from pyunicorn.core import GeoGrid, GeoNetwork
    lat, lon = V(np.linspace(-40.0, 75.0, 6)), V(np.linspace(20.0, 140.0, 6))
    tseq = V(np.arange(10.0))
    A = V(families.ADJ[False][1])
    la = V(_la())
    net = GeoNetwork(GeoGrid(tseq, lat, lon, silence_level=3), adjacency=A, node_weight_type="surface", silence_level=3)
    net.set_link_attribute("w", la)
    return net, {"lat": lat, "lon": lon, "time_seq": tseq, "adjacency": A, "link_attribute": la}


def _res_inputs():
    from pyunicorn.core import ResNetwork
    R = V(families.RES[1])
    return ResNetwork(R, silence_level=3), {"resistances": R}


def _es_inputs():
    from pyunicorn.eventseries import EventSeries
    ev = V(_es_events())
    ts = V(np.arange(len(ev)).astype(float))
    return EventSeries(ev, timestamps=ts, taumax=3.0, lag=0.0), {"events": ev, "timestamps": ts}


def _es_events():
    """Four event series of 40 steps: the second follows the first by one step, the third by two steps
    (not always), the fourth is unrelated - the directed ES / ECA matrices are NOT symmetric."""
    ev = np.zeros((40, 4), dtype=int)
    for t in (3, 10, 17, 25, 33):
        ev[t, 0] = 1
        ev[t + 1, 1] = 1
    for t in (3, 10, 25):
        ev[t + 2, 2] = 1
    for t in (6, 14, 21, 30, 37):
        ev[t, 3] = 1
    ev[20, 2] = 1
    return ev


def _es_calls(obj):
    calls = [("get_event_matrix", obj.get_event_matrix)]
    for sym in ("directed", "symmetric", "antisym", "mean", "max", "min"):
        calls.append(("ES(%s)" % sym, lambda sym=sym: obj.event_series_analysis(method="ES", symmetrization=sym)))
        for wt in ("retarded", "advanced", "symmetric"):
            calls.append(("ECA(%s,%s)" % (sym, wt), lambda sym=sym, wt=wt: obj.event_series_analysis(
                method="ECA", symmetrization=sym, window_type=wt)))
    # significance levels: random (shuffling) or analytic - observed through their shape only, but they are
    # queries like the others (what they do to the object is seen by the analyses that follow)
    for wt in ("retarded", "advanced", "symmetric"):
        calls.append(("significance(ECA,analytic,%s)" % wt, lambda wt=wt: obj.event_analysis_significance(
            method="ECA", surrogate="analytic", window_type=wt)))
    calls.append(("significance(ES,shuffle)~shape", lambda: np.array(np.shape(obj.event_analysis_significance(
        method="ES", surrogate="shuffle", n_surr=3)))))
    calls.append(("significance(ECA,shuffle)~shape", lambda: np.array(np.shape(obj.event_analysis_significance(
        method="ECA", surrogate="shuffle", n_surr=3, window_type="symmetric")))))
    return calls


def _inter_cls():
    from pyunicorn.core import InteractingNetworks
    return InteractingNetworks


class Target:
    """One class under test: how to build it from caller arrays and what to query."""

    def __init__(self, name, build, names, calls=None, random_ok=()):
        self.name, self.build, self._names, self._calls, self.random_ok = name, build, names, calls, random_ok

    # labels of operations that are driven as the FIRST query of a case but are not part of "ALL": they are
    # known (recorded finding) to change the object, so having them in ALL would blur every other case
    FIRST_ONLY = ("original_distribution(", "test_threshold_significance(")

    def queries(self, obj, all_only=False):
        q = self._queries(obj)
        if all_only:
            q = [t for t in q if not t[0].startswith(self.FIRST_ONLY)]
        return q

    def _queries(self, obj):
        q = [(nm, getattr(obj, nm)) for nm in self._names(obj)]
        if self._calls:
            q += self._calls(obj)
        from props import netcommon
        q += netcommon.arg_calls(obj, already={t[0] for t in q})
        return sorted(q, key=lambda t: t[0])


def _fam_names(fam):
    return lambda obj: families.FAMILIES[fam].names(obj)


def _fam_calls(fam, a):
    return lambda obj: families.FAMILIES[fam].calls(obj, a)


SURR_SKIP = ()


def _surr_calls(obj):
    return [("original_data_fft", obj.original_data_fft),
            ("correlated_noise_surrogates~fft-amplitudes", lambda: np.abs(np.fft.rfft(obj.correlated_noise_surrogates(), axis=1))[:, 1:-1]),
            ("AAFT_surrogates~sorted", lambda: np.sort(obj.AAFT_surrogates(), axis=1)),
            ("refined_AAFT_surrogates~sorted", lambda: np.sort(obj.refined_AAFT_surrogates(3), axis=1)),
            ("white_noise_surrogates~sorted", lambda: np.sort(obj.white_noise_surrogates(), axis=1)),
            ("twins", lambda: [len(t) for t in obj.twins(0.6, min_dist=2)] if obj._embedding is not None else None),
            # the significance-test helpers (histograms of a similarity measure of the data / of surrogates)
            ("original_distribution(pearson)", lambda: obj.original_distribution(
                type(obj).test_pearson_correlation, n_bins=5)),
            ("original_distribution(mi)", lambda: obj.original_distribution(
                type(obj).test_mutual_information, n_bins=5)),
            ("test_threshold_significance(white noise, pearson)~shape", lambda: np.array(np.shape(
                obj.test_threshold_significance(type(obj).white_noise_surrogates, type(obj).test_pearson_correlation,
                                                realizations=2, n_bins=5, interval=(-1, 1))[0]))),
            ("test_threshold_significance(correlated noise, mi)~shape", lambda: np.array(np.shape(
                obj.test_threshold_significance(type(obj).correlated_noise_surrogates, type(obj).test_mutual_information,
                                                realizations=2, n_bins=5, interval=(0, 2))[0]))),
            ("original_data", lambda: obj.original_data)]


def _climate_calls(obj):
    calls = [("similarity_measure", obj.similarity_measure), ("adjacency", lambda: obj.adjacency),
             ("data.anomaly", lambda: obj.data.anomaly()), ("data.observable", lambda: obj.data.observable()),
             ("n_links", lambda: obj.n_links), ("degree", obj.degree), ("path_lengths", obj.path_lengths),
             ("closeness", obj.closeness), ("local_clustering", obj.local_clustering)]
    for nm in ("correlation_strength", "correlation_lag", "correlation_strength_weighted_average_path_length",
               "correlation_strength_weighted_closeness", "correlation_lag_weighted_average_path_length",
               "correlation_lag_weighted_closeness", "local_correlation_strength_weighted_vulnerability",
               "local_correlation_lag_weighted_vulnerability", "coherence", "phase_shift"):
        if hasattr(obj, nm):
            calls.append((nm, getattr(obj, nm)))
    return calls


TARGETS = {
    "network": Target("network", lambda: _net_inputs(False), _fam_names("network"),
                      _fam_calls("network", {"A": 1, "W": 1, "LA": 1})),
    "dirnetwork": Target("dirnetwork", lambda: _net_inputs(True), _fam_names("dirnetwork"),
                         _fam_calls("dirnetwork", {"A": 1, "W": 1, "LA": 1})),
    "network_disc": Target("network_disc", lambda: _net_inputs(False, 2), _fam_names("network"),
                           _fam_calls("network", {"A": 2, "W": 1, "LA": 1})),
    "interacting": Target("interacting", lambda: _net_inputs(False, 1, _inter_cls()), _fam_names("interacting"),
                          _fam_calls("interacting", {"A": 1, "W": 1, "LA": 1})),
    "interacting_disc": Target("interacting_disc", lambda: _net_inputs(False, 2, _inter_cls()),
                               _fam_names("interacting"), _fam_calls("interacting", {"A": 2, "W": 1, "LA": 1})),
    "network_edgeless": Target("network_edgeless", _edgeless_inputs, _fam_names("network"),
                               _fam_calls("network", {"A": 1, "W": 1, "LA": 1})),
    "geonetwork": Target("geonetwork", _geo_inputs, _fam_names("geonetwork"), _fam_calls("geonetwork", {"LA": 1})),
    "rp": Target("rp", lambda: _rp_inputs("RecurrencePlot"), _fam_names("rp"), _fam_calls("rp", {})),
    "rn": Target("rn", lambda: _rp_inputs("RecurrenceNetwork"), _fam_names("rn"), _fam_calls("rn", {})),
    "crp": Target("crp", lambda: _rp_inputs("CrossRecurrencePlot"), _fam_names("crp"), _fam_calls("crp", {})),
    "jrp": Target("jrp", lambda: _rp_inputs("JointRecurrencePlot"), _fam_names("jrp"), _fam_calls("jrp", {})),
    "jrn": Target("jrn", lambda: _rp_inputs("JointRecurrenceNetwork"), _fam_names("jrn"), _fam_calls("jrn", {})),
    "visibility": Target("visibility", lambda: _rp_inputs("VisibilityGraph"), _fam_names("visibility"), None),
    "isrn": Target("isrn", lambda: _rp_inputs("InterSystemRecurrenceNetwork"),
                   lambda obj: [n for n in families.FAMILIES["network"].names(obj) if "eigenvector" not in n] +
                   ["internal_recurrence_rates", "cross_recurrence_rate", "cross_global_clustering_xy",
                    "cross_global_clustering_yx", "cross_transitivity_xy", "cross_transitivity_yx"], None),
    "surrogates": Target("surrogates", _surrogates_inputs, lambda obj: [], _surr_calls),
    "climate": Target("climate", _clim_inputs, _fam_names("climate"), _fam_calls("climate", {})),
    "eventseries": Target("eventseries", _es_inputs, lambda obj: [], _es_calls),
    "resnetwork": Target("resnetwork", _res_inputs, _fam_names("resnetwork"), _fam_calls("resnetwork", {})),
    "tsonis": Target("tsonis", lambda: _climate_inputs("TsonisClimateNetwork")[:2], lambda obj: ["correlation"],
                     _climate_calls),
    "spearman": Target("spearman", lambda: _climate_inputs("SpearmanClimateNetwork")[:2],
                       lambda obj: ["correlation"], _climate_calls),
    "mutualinfo": Target("mutualinfo", lambda: _climate_inputs("MutualInfoClimateNetwork")[:2],
                         lambda obj: ["mutual_information"], _climate_calls),
    # the same classes on data flagged "already anomalies" (the data object then hands out its own array)
    "tsonis_anom": Target("tsonis_anom", lambda: _climate_inputs("TsonisClimateNetwork", True)[:2],
                          lambda obj: ["correlation"], _climate_calls),
    "spearman_anom": Target("spearman_anom", lambda: _climate_inputs("SpearmanClimateNetwork", True)[:2],
                            lambda obj: ["correlation"], _climate_calls),
    "mutualinfo_anom": Target("mutualinfo_anom", lambda: _climate_inputs("MutualInfoClimateNetwork", True)[:2],
                              lambda obj: ["mutual_information"], _climate_calls),
    "havlin_anom": Target("havlin_anom", lambda: _climate_inputs("HavlinClimateNetwork", True)[:2],
                          lambda obj: [], _climate_calls),
    "ccn": Target("ccn", lambda: (families.FAMILIES["ccn"].build(families.INIT["ccn"]), {}),
                  _fam_names("ccn"), _fam_calls("ccn", {})),
    "escn": Target("escn", lambda: (families.FAMILIES["escn"].build(families.INIT["escn"]), {}),
                   _fam_names("escn"), _fam_calls("escn", {})),
    "havlin": Target("havlin", lambda: _climate_inputs("HavlinClimateNetwork")[:2], lambda obj: [], _climate_calls),
    "hilbert": Target("hilbert", lambda: _climate_inputs("HilbertClimateNetwork")[:2], lambda obj: [], _climate_calls),
    "partialcorr": Target("partialcorr", lambda: _climate_inputs("PartialCorrelationClimateNetwork")[:2],
                          lambda obj: [], _climate_calls),
    # RainfallClimateNetwork is not a target: two constructions from identical data differ, because the
    # compiled Spearman kernel indexes its mask with the wrong stride and element size (reads outside the
    # array - property C20, not applicable to this technique; see DESIGN.md section 10)
}


# ---- documented static / free functions and further constructors that receive caller arrays
def _f_rejection(): 
    from pyunicorn.timeseries import RecurrencePlot
    dist = V(np.array([1.0, 4.0, 3.0, 1.5, 0.5]))
    np.random.seed(3)
    RecurrencePlot.rejection_sampling(dist, 20)
    return {"dist": dist}


def _f_embed():
    from pyunicorn.timeseries import RecurrencePlot, Surrogates
    x = V(families.SERIES)
    d = V(np.array([families.SERIES, families.SERIES_Y]))
    RecurrencePlot.embed_time_series(x, 2, 1)
    Surrogates.embed_time_series_array(d, 2, 1)
    return {"time_series": x, "time_series_array": d}


def _f_rp_metrics():
    from pyunicorn.timeseries import RecurrencePlot
    out = {}
    for metric in ("supremum", "euclidean", "manhattan"):
        for norm in (False, True):
            x = V(np.array([families.SERIES, families.SERIES_Y]).T)
            rp = RecurrencePlot(x, metric=metric, normalize=norm, recurrence_rate=0.3, silence_level=3)
            rp.recurrence_matrix()
            rp.rqa_summary() if hasattr(rp, "rqa_summary") else None
            out["%s,%s" % (metric, norm)] = x
    return out


def _f_ts_constructors():
    """Every recurrence-type class under its documented constructor keywords (normalize, metric, embedding,
    missing values, sparse mode, every way of prescribing the recurrences), each from its own caller arrays
    - scalar and two-dimensional: no constructor is documented to edit the series it is given."""
    import pyunicorn.timeseries as ts
    out = {}

    def series(two_d, nan=False):
        x = np.array(families.SERIES, dtype=float)
        y = np.array(families.SERIES_Y, dtype=float)
        if nan:
            x[3] = np.nan
        if two_d:
            return V(np.array([x, x[::-1]]).T), V(np.array([y, y[::-1]]).T)
        return V(x), V(y)

    single = dict(threshold=0.6), dict(threshold_std=0.5), dict(recurrence_rate=0.3), dict(local_recurrence_rate=0.3), \
        dict(adaptive_neighborhood_size=3)
    for norm in (False, True):
        for two_d in (False, True):
            for k, mode in enumerate(single):
                for cls in (ts.RecurrencePlot, ts.RecurrenceNetwork):
                    kw = dict(mode, metric=("supremum", "euclidean", "manhattan")[k % 3], normalize=norm, silence_level=3)
                    if not two_d and k % 2:
                        kw.update(dim=2, tau=2)
                    if k == 1 and cls is ts.RecurrencePlot:
                        kw.update(sparse_rqa=False)
                    x, _ = series(two_d)
                    obj = cls(x, **kw)
                    obj.recurrence_matrix(), obj.recurrence_rate(), obj.diagline_dist(), obj.vertline_dist()
                    out["%s,%s,norm=%s,2d=%s" % (cls.__name__, list(mode)[0], norm, two_d)] = x
            xm, _ = series(two_d, nan=True)
            rp = ts.RecurrencePlot(xm, threshold=0.6, missing_values=True, normalize=norm, silence_level=3)
            rp.recurrence_matrix(), rp.diagline_dist()
            out["RecurrencePlot,missing,norm=%s,2d=%s" % (norm, two_d)] = xm
            if not two_d:
                xs, _ = series(False)
                rp = ts.RecurrencePlot(xs, threshold=0.6, metric="supremum", sparse_rqa=True, normalize=norm,
                                       silence_level=3)
                rp.diagline_dist(), rp.vertline_dist()
                out["RecurrencePlot,sparse,norm=%s" % norm] = xs
            for mode in (dict(threshold=0.6), dict(recurrence_rate=0.3)):
                x, y = series(two_d)
                kw = dict(mode, normalize=norm, silence_level=3)
                if not two_d and "threshold" in mode:
                    kw.update(dim=2, tau=1)
                crp = ts.CrossRecurrencePlot(x, y[:-2], **kw)
                crp.recurrence_matrix(), crp.cross_recurrence_rate()
                tag = "%s,norm=%s,2d=%s" % (list(mode)[0], norm, two_d)
                out["CrossRecurrencePlot.x," + tag], out["CrossRecurrencePlot.y," + tag] = x, y
                x, y = series(two_d)
                kw = {k: (v, v, v) for k, v in mode.items()}
                kw.update(normalize=norm, silence_level=3)
                if not two_d and "threshold" in mode:
                    kw.update(dim=2, tau=(2, 1))
                isrn = ts.InterSystemRecurrenceNetwork(x, y[:-2], **kw)
                isrn.adjacency, isrn.cross_recurrence_rate(), isrn.internal_recurrence_rates()
                out["InterSystemRecurrenceNetwork.x," + tag], out["InterSystemRecurrenceNetwork.y," + tag] = x, y
                for cls in (ts.JointRecurrencePlot, ts.JointRecurrenceNetwork):
                    x, y = series(two_d)
                    kw = {k: (v, v + 0.1) for k, v in mode.items()}
                    kw.update(normalize=norm, silence_level=3, lag=(1 if "threshold" in mode else 0),
                              metric=("supremum", "euclidean"))
                    if not two_d and "threshold" in mode:
                        kw.update(dim=(2, 2), tau=(1, 2))
                    j = cls(x, y, **kw)
                    j.recurrence_matrix(), j.recurrence_rate()
                    out[cls.__name__ + ".x," + tag], out[cls.__name__ + ".y," + tag] = x, y
    return out


def _f_coupling():
    from pyunicorn.funcnet import CouplingAnalysis
    d = V(np.array([families.SERIES, families.SERIES_Y, families.SERIES[::-1]]).T)
    ca = CouplingAnalysis(d, silence_level=3)
    ca.cross_correlation(tau_max=2, lag_mode="max")
    ca.cross_correlation(tau_max=2, lag_mode="all")
    ca.mutual_information(tau_max=2, knn=3, estimator="knn")
    ca.mutual_information(tau_max=2, bins=3, estimator="binning")
    ca.information_transfer(tau_max=2, estimator="knn", knn=3, past=1, cond_mode="ity", lag_mode="max")
    return {"dataarray": d}


def _f_eventseries():
    from pyunicorn.eventseries import EventSeries
    d = V(np.array([families.SERIES, families.SERIES_Y, families.SERIES[::-1]]).T)
    ev = V((d > 0.5).astype(int))
    ts = V(np.arange(len(d)).astype(float))
    e1 = EventSeries(d, threshold_method="quantile", threshold_values=0.6, threshold_types="above")
    e1.event_series_analysis(method="ES")
    e1 = EventSeries(d, taumax=3.0, threshold_method="quantile", threshold_values=0.6, threshold_types="above")
    e1.event_series_analysis(method="ECA", symmetrization="mean", window_type="symmetric")
    e2 = EventSeries(ev, timestamps=ts, taumax=3.0, lag=1.0)
    e2.event_series_analysis(method="ES"), e2.event_series_analysis(method="ECA", symmetrization="directed", window_type="retarded")
    EventSeries.event_synchronization(ev[:, 0], ev[:, 1], taumax=3.0, lag=0.0)
    EventSeries.event_coincidence_analysis(ev[:, 0], ev[:, 1], 2.0, lag=1.0)
    return {"data": d, "events": ev, "timestamps": ts}


def _f_visibility():
    from pyunicorn.timeseries import VisibilityGraph
    x, t = V(families.SERIES), V(np.cumsum(np.abs(families.SERIES_Y) + 0.5))
    for hor in (False, True):
        vg = VisibilityGraph(x, timings=t, horizontal=hor, silence_level=3)
        vg.adjacency, vg.retarded_degree(), vg.advanced_degree(), vg.boundary_corrected_degree()
        vg.retarded_local_clustering(), vg.advanced_local_clustering(), vg.visibility_relations() if not hor else None
    xm = V(np.where(np.arange(12) == 4, np.nan, families.SERIES))
    VisibilityGraph(xm, missing_values=True, silence_level=3).adjacency
    return {"time_series": x, "timings": t, "time_series(missing)": xm}


def _f_geo():
    from pyunicorn.core import GeoGrid, GeoNetwork, Grid, SpatialNetwork
    lat, lon = V(np.array([0., 10., 20., 0., -15., 40.])), V(np.array([0., 5., 90., 180., -120., 30.]))
    tseq = V(np.arange(4.))
    A = V(families.ADJ[False][1])
    g = GeoGrid(tseq, lat, lon, silence_level=3)
    g.angular_distance(), g.sin_lat(), g.cos_lon(), g.geometric_distance_distribution(5), g.euclidean_distance()
    net = GeoNetwork(g, adjacency=A, node_weight_type="surface", silence_level=3)
    net.local_geographical_clustering(), net.average_link_distance(), net.average_link_distance(True)
    net.link_distance_distribution(4, "spherical"), net.total_link_distance(), net.total_link_distance(True)
    net.max_link_distance(), net.area_weighted_connectivity(), net.geographical_distribution(g.lat_sequence(), 3)
    net.inaverage_link_distance(), net.outaverage_link_distance(), net.connectivity_weighted_distance()
    sp = V(np.array([[0., 0.], [1., 0.], [0., 2.], [3., 1.], [2., 2.], [4., 4.]]).T)
    gg = Grid(tseq, sp, silence_level=3)
    gg.distance() if hasattr(gg, "distance") else None
    sn = SpatialNetwork(gg, adjacency=V(families.ADJ[False][1]), silence_level=3)
    sn.link_distance_distribution(4, "euclidean"), sn.average_link_distance(), sn.max_link_distance()
    return {"lat": lat, "lon": lon, "time_seq": tseq, "adjacency": A, "space_seq": sp}


def _f_data_helpers():
    """Static array helpers of Data: none of them is documented to work in place."""
    from pyunicorn.core import Data
    out = {}
    for vt in ("float64", "float32", "int32", "int16", "uint8"):
        a = V(np.array(families._data(4, 6)))
        Data.rescale(a, vt)
        out["rescale_" + vt] = a
    b = V(np.array(families._data(3, 6)))
    Data.zero_pad_data(b), Data.cos_window(b, 0.25), Data.next_power_2(6)
    out["array"] = b
    return out


def _f_geogrid():
    """Queries of GeoGrid / Grid that take caller arrays: a polygon, a longitude sequence, rectangular axes."""
    from pyunicorn.core import GeoGrid, Grid
    lat, lon = V(np.array([0., 5., 10., 5., -5., 0.])), V(np.array([10., 350., 20., 355., 5., 180.]))
    tseq = V(np.arange(3.))
    g = GeoGrid(tseq, lat, lon, silence_level=3)
    # a region given in the -180..180 convention on a grid that uses 0..360
    region = V(np.array([-12., -1., -12., 12., 30., 12., 30., -1.]))
    lon360 = V(np.array([10., 350., 20., 340., 170., 190.]))
    g.region_indices(region), g.region_indices(region)
    g.convert_lon_coordinates(lon360)
    g.node_number(4.0, 352.0), g.boundaries(), g.grid()
    ax1, ax2 = V(np.array([0., 5., 10.])), V(np.array([1., 2.]))
    GeoGrid.RegularGrid(tseq, (ax1, ax2), silence_level=3).lat_sequence()
    Grid.RegularGrid(tseq, [ax1, ax2], silence_level=3).sequence(1)
    GeoGrid.coord_sequence_from_rect_grid(ax1, ax2), Grid.coord_sequence_from_rect_grid([ax1, ax2])
    from pyunicorn.core import GeoNetwork
    la, lo = V(np.array([0., 30., -45.])), V(np.array([10., -170., 90.]))
    pos = V(np.array(GeoNetwork.latlon2cartesian(la, lo)))
    GeoNetwork.cartesian2latlon(pos)
    return {"lat": lat, "lon": lon, "time_seq": tseq, "region": region, "lon_seq": lon360, "axis1": ax1, "axis2": ax2,
            "lat_deg": la, "lon_deg": lo, "positions": pos}


def _f_interacting():
    from pyunicorn.core import InteractingNetworks
    A = V(families.ADJ[False][1])
    w = V(families.WEIGHTS[1])
    la = V(_la())
    net = InteractingNetworks(A, node_weights=w, silence_level=3)
    net.set_link_attribute("w", la)
    n1, n2 = [0, 1, 2], [3, 4, 5]
    net.cross_adjacency(n1, n2), net.cross_link_attribute("w", n1, n2), net.internal_adjacency(n1)
    net.cross_path_lengths(n1, n2, "w"), net.cross_path_lengths(n1, n2), net.internal_path_lengths(n1, "w")
    net.cross_closeness(n1, n2), net.cross_betweenness(n1, n2), net.cross_average_path_length(n1, n2, "w")
    net.nsi_cross_closeness_centrality(n1, n2), net.nsi_cross_betweenness(n1, n2)
    net.internal_global_clustering(n1), net.cross_local_clustering(n1, n2), net.nsi_cross_local_clustering(n1, n2)
    net.number_cross_links(n1, n2), net.cross_degree(n1, n2, "w"), net.nsi_cross_degree(n1, n2)
    return {"adjacency": A, "node_weights": w, "link_attribute": la}


def _f_network_ops():
    from pyunicorn.core import Network
    A = V(families.ADJ[False][1])
    w = V(families.WEIGHTS[1])
    el = V(np.array([[0, 1], [1, 2], [2, 3], [0, 4]]))
    net = Network(adjacency=A, node_weights=w, silence_level=3)
    net.copy(), net.undirected_copy(), net.permuted_copy(np.array([1, 0, 2, 3, 5, 4]))
    net.splitted_copy(), net.laplacian(), net.nsi_laplacian(), net.path_lengths(), net.nsi_betweenness()
    np.random.seed(4)
    net.randomly_rewire(2)
    Network(edge_list=el, silence_level=3).adjacency
    n2 = Network(adjacency=np.zeros((6, 6), dtype=int), silence_level=3)
    n2.set_edge_list(el)
    n2.adjacency = A
    n2.node_weights = w
    return {"adjacency": A, "node_weights": w, "edge_list": el}


def _f_data_views():
    """What a data object hands out is its own: editing it (here with the documented in-place normaliser)
    must not reach the array the caller constructed the object from."""
    from pyunicorn.core import Data
    from pyunicorn.climate import ClimateData
    obs = V(families._data())
    cd = ClimateData(obs, families._grid(), 5, silence_level=3)
    Data.normalize_time_series_array(cd.observable())
    obs2 = V(families._data())
    cd2 = ClimateData(obs2, families._grid(), 5, anomalies=True, silence_level=3)
    Data.normalize_time_series_array(cd2.anomaly())
    obs3 = V(families._data())
    d3 = Data(obs3, families._grid(), silence_level=3)
    v = d3.observable()
    v *= 0.0
    return {"observable(ClimateData)": obs, "observable(ClimateData, anomalies=True)": obs2, "observable(Data)": obs3}


FUNCS = {"data_views": _f_data_views, "rejection_sampling": _f_rejection, "embed": _f_embed, "rp_metrics": _f_rp_metrics,
         "ts_constructors": _f_ts_constructors, "coupling": _f_coupling, "eventseries": _f_eventseries,
         "visibility_inputs": _f_visibility, "geo": _f_geo, "geogrid": _f_geogrid, "data_helpers": _f_data_helpers, "interacting_inputs": _f_interacting,
         "network_ops": _f_network_ops}


class _Snap(dict):
    """Inputs dictionary that remembers the digest (and a private copy) of every array on entry."""


def run_inputs_case(c):
    """mode "inputs": caller-owned arrays in one input variant.  For a class target: build, run ALL
    queries, build a SECOND object from the very same arrays and compare its queries with a twin built from
    pristine copies; for a function target: call the documented functions.  Digests before / after."""
    np.random.seed(c["seed"])
    import random
    random.seed(c["seed"])
    rec = dict(c)
    rec.update({"q": c["variant"], "skip": 0, "labels": [], "rep": [[0], [0]], "qexc": "", "stale": [], "hits": 0,
                "base": {}, "basex": {}, "after": {}, "afterx": {}})
    _VAR[0] = c["variant"]
    try:
        if c["target"] in FUNCS:
            SNAP.clear()
            inputs = FUNCS[c["target"]]()
            before = _before(inputs)
            after = {k: digest(a) for k, a in inputs.items()}
            rec["inputs_before"], rec["inputs_after"] = before, after
            rec["after"] = {"called": [1, 1, 1000000], "inputs": [1, 1, len(inputs) * 1000000]}
            rec["base"] = dict(rec["after"])
            return rec
        t = TARGETS[c["target"]]
        twin, tin = t.build()
        tin.pop("__pre__", None)
        base, basex = _run_all(t, twin)
        SNAP.clear()
        obj, inputs = t.build()
        pre = inputs.pop("__pre__", None)
        before = pre if pre is not None else _before(inputs)
        _run_all(t, obj)
        rec["inputs_before"] = before
        rec["inputs_after"] = {k: digest(v) for k, v in inputs.items()}
        # a second object from the very same caller arrays behaves like the pristine twin
        second = _rebuild(c["target"], inputs)
        if second is not None:
            rec["after"], rec["afterx"] = _run_all(t, second)
            rec["base"], rec["basex"] = base, basex
        else:
            rec["after"] = {"called": [1, 1, 1000000], "n": [1, 1, 2000000]}
            rec["base"] = dict(rec["after"])
        return rec
    finally:
        _VAR[0] = "default"


def _rebuild(target, inputs):
    """Second object from the SAME caller arrays (None where the class needs more than the arrays)."""
    import pyunicorn.timeseries as ts
    from pyunicorn.core import Network, ResNetwork
    from pyunicorn.climate import ClimateNetwork
    kw = dict(silence_level=3)
    if target in ("network", "dirnetwork", "network_disc", "interacting", "interacting_disc", "network_edgeless"):
        if target.startswith("interacting"):
            Network = _inter_cls()
        net = Network(adjacency=inputs["adjacency"], directed=(target == "dirnetwork"),
                      node_weights=inputs["node_weights"], **kw)
        net.set_link_attribute("w", inputs["link_attribute"])
        return net
    if target in ("rp", "rn"):
        cls = ts.RecurrencePlot if target == "rp" else ts.RecurrenceNetwork
        return cls(inputs["time_series"], metric="supremum", threshold=0.6, **kw)
    if target == "crp":
        return ts.CrossRecurrencePlot(inputs["x"], inputs["y"], threshold=0.6, **kw)
    if target == "isrn":
        return ts.InterSystemRecurrenceNetwork(inputs["x"], inputs["y"], threshold=(0.6, 0.6, 0.6), **kw)
    if target in ("jrp", "jrn"):
        cls = ts.JointRecurrencePlot if target == "jrp" else ts.JointRecurrenceNetwork
        return cls(inputs["x"], inputs["y"], threshold=(0.6, 0.7), lag=1, **kw)
    if target == "visibility":
        return ts.VisibilityGraph(inputs["time_series"], **kw)
    if target == "surrogates":
        return ts.Surrogates(original_data=inputs["original_data"], **kw)
    if target == "climate":
        return ClimateNetwork(families._grid(), inputs["similarity_measure"], threshold=0.4, **kw)
    if target == "resnetwork":
        return ResNetwork(inputs["resistances"], **kw)
    if target == "geonetwork":
        from pyunicorn.core import GeoGrid, GeoNetwork
        net = GeoNetwork(GeoGrid(inputs["time_seq"], inputs["lat"], inputs["lon"], silence_level=3),
                         adjacency=inputs["adjacency"], node_weight_type="surface", **kw)
        net.set_link_attribute("w", inputs["link_attribute"])
        return net
    if target == "eventseries":
        from pyunicorn.eventseries import EventSeries
        return EventSeries(inputs["events"], timestamps=inputs["timestamps"], taumax=3.0, lag=0.0)
    return None


def _run_all(target, obj, skip=None):
    o, x = {}, {}
    for label, thunk in target.queries(obj, all_only=True):
        try:
            f = c01.flat(thunk())
            if f is not None:
                o[label] = f
        except Exception as ex:
            x[label] = type(ex).__name__
    return o, x


def run_case(c):
    """One query `q` of one class: cold ([q, ALL]) or warm ([ALL, q, ALL]) on the object, ALL on a
    fresh twin as baseline, q repeated; digests of the caller-owned arrays before / after."""
    np.random.seed(c["seed"])
    import random
    random.seed(c["seed"])
    if not cachetap.STATE["installed"]:
        cachetap.install()
    cachetap.drain()
    t = TARGETS[c["target"]]
    twin, tin = t.build()
    tin.pop("__pre__", None)
    base, basex = _run_all(t, twin)
    SNAP.clear()
    obj, inputs = t.build()
    pre = inputs.pop("__pre__", None)
    before = pre if pre is not None else _before(inputs)
    qs = dict(t.queries(obj))
    rec = dict(c)
    rec["labels"] = sorted(qs)
    if c["q"] not in qs:
        rec["skip"] = 1
        rec["base"], rec["basex"], rec["after"], rec["afterx"] = {}, {}, {}, {}
        rec["rep"], rec["inputs_before"], rec["inputs_after"] = [[0], [0]], before, before
        rec["qexc"] = ""
        rec["stale"], rec["hits"] = [], 0
        return rec
    rec["skip"] = 0
    if c["mode"] == "warm":
        _run_all(t, obj)
    rep, qexc = [], ""
    for _ in range(2):
        try:
            f = c01.flat(qs[c["q"]]())
            rep.append(f if f is not None else [0])
        except Exception as ex:
            qexc = type(ex).__name__
            rep.append([0])
    after, afterx = _run_all(t, obj)
    rec["base"], rec["basex"], rec["after"], rec["afterx"] = base, basex, after, afterx
    rec["rep"] = rep
    rec["qexc"] = qexc
    rec["inputs_before"] = before
    rec["inputs_after"] = {k: digest(v) for k, v in inputs.items()}
    lk = cachetap.drain()
    rec["stale"], rec["hits"] = lk["stale"], lk["hits"]
    return rec


def list_queries(c):
    t = TARGETS[c["target"]]
    obj, _ = t.build()
    return {"case": c["case"], "target": c["target"], "labels": [l for l, _ in t.queries(obj)]}


def _nontrivial(rec):
    return rec.get("skip") == 0 and len(rec["after"]) >= 2


QUICK_TARGETS = ["network", "network_edgeless", "geonetwork", "rp", "rn", "jrp", "surrogates", "climate", "resnetwork", "tsonis", "mutualinfo",
                 "spearman", "isrn", "eventseries", "interacting_disc", "havlin", "hilbert", "partialcorr",
                 "mutualinfo_anom", "spearman_anom", "tsonis_anom", "havlin_anom", "ccn", "escn"]


def main(ctx):
    targets = QUICK_TARGETS if ctx.tier == "quick" else sorted(TARGETS)
    lists = ctx.run_cases("props.c06.list_queries",
                          [{"case": "l_" + t, "target": t} for t in targets], jobs=len(targets))
    cases = []
    for l in lists:
        for k, q in enumerate(l["labels"]):
            modes = ["cold", "warm"] if ctx.tier == "thorough" else (["cold"] if k % 2 else ["warm"])
            for mode in modes:
                cases.append({"case": "%s_%d_%s" % (l["target"], k, mode), "target": l["target"], "q": q,
                              "mode": mode, "seed": ctx.seed + k})
    ctx.exhaustive = ctx.tier == "thorough"
    ctx.extra["rule"] = (
        "For every class under test and EVERY discovered query q (argument-free public methods + argument "
        "patterns): the object is built from caller-owned arrays; q runs first on a cold object (or after ALL "
        "queries, warm), is repeated, then ALL queries run and are compared with ALL queries on a fresh twin - "
        "i.e. every ordered pair (q, b) of queries is covered; digests of the caller-owned arrays and of shared "
        "data objects are taken before and after.  TLC decides Pure (ObjectSM: a query leaves the abstract state "
        "unchanged, so every later observation equals the twin's), Repeatable and InputsUntouched.  "
        "non-trivial = the class has at least two queries")
    ctx.extra["targets"] = {l["target"]: len(l["labels"]) for l in lists}
    recs = ctx.run_cases("props.c06.run_case", cases)
    icases = [{"case": "in_%s_%s" % (t, v), "target": t, "variant": v, "mode": "inputs", "seed": ctx.seed}
              for t in sorted(set(TARGETS) | set(FUNCS)) for v in VARIANTS]
    ctx.extra["input_variants"] = {"variants": VARIANTS, "targets": sorted(set(TARGETS) | set(FUNCS))}
    recs += ctx.run_cases("props.c06.run_inputs_case", icases)
    ctx.validate("Val_C06", "Val_C06", recs, nontrivial=_nontrivial, xmx="4g")


def replay(ctx, rep):
    rec = rep["record"]
    if rec["mode"] == "inputs":
        case = {k: rec[k] for k in ("case", "target", "variant", "mode", "seed")}
        recs = ctx.run_cases("props.c06.run_inputs_case", [case], jobs=1)
    else:
        case = {k: rec[k] for k in ("case", "target", "q", "mode", "seed")}
        recs = ctx.run_cases("props.c06.run_case", [case], jobs=1)
    ctx.validate("Val_C06", "Val_C06", recs, nontrivial=_nontrivial)
