"""C07 - recurrence matrices are exactly the thresholded distance matrices."""
import os

import numpy as np

from vlib import enc


def _lines(obj):
    o = {"exc": "", "diag": [], "vert": [], "white": []}
    try:
        o["diag"] = enc.ints(obj.diagline_dist())
        o["vert"] = enc.ints(obj.vertline_dist())
        o["white"] = enc.ints(obj.white_vertline_dist())
        obj.rqa_summary()
        obj.max_diaglength()
        obj.average_diaglength()
        obj.diag_entropy()
        obj.trapping_time()
        obj.recurrence_probability()
    except Exception as ex:
        o["exc"] = type(ex).__name__
    return o


def _xlines(crp):
    """The three line histograms of a cross plot, or the name of the exception that refuses them."""
    o = {"exc": "", "diag": [], "vert": [], "white": []}
    try:
        o["diag"] = enc.ints(crp.diagline_dist())
        o["vert"] = enc.ints(crp.vertline_dist())
        o["white"] = enc.ints(crp.white_vertline_dist())
    except Exception as ex:
        o["exc"] = type(ex).__name__
    return o


def _mode_kw(c, pair=False, triple=False):
    key = {"thr": "threshold", "rr": "recurrence_rate", "lrr": "local_recurrence_rate",
           "ans": "adaptive_neighborhood_size", "tstd": "threshold_std"}[c["mode"]]
    if c["mode"] == "ans":
        val = int(c["pn"])
    else:
        val = c["pn"] / c["pd"]
    if triple:
        val = (val, val, val)
    return {key: val}


SETTER = {"threshold": "set_fixed_threshold", "recurrence_rate": "set_fixed_recurrence_rate",
          "local_recurrence_rate": "set_fixed_local_recurrence_rate",
          "adaptive_neighborhood_size": "set_adaptive_neighborhood_size",
          "threshold_std": "set_fixed_threshold_std"}


def _via_setter(case):
    """0: the setting is given to the constructor.  1: it is reached through the SETTER on an object that was
    constructed with another setting (everything recurrent).  2: there and back - constructed with the setting,
    moved to the other setting through a setter, and brought back with the same setter call.  The matrix must be
    the one of the final setting in every case."""
    import zlib
    return zlib.crc32(case.encode()) % 3


def _there_and_back(obj, mode, val, other=1.0e6):
    """History (construct with the setting) -> set_fixed_threshold(everything recurrent) -> the setting again."""
    obj.set_fixed_threshold(other)
    if hasattr(obj, "diagline_dist") and type(obj).__name__ != "CrossRecurrencePlot":
        _lines(obj)
    getattr(obj, SETTER[mode])(val)
    return obj


def _split_mode(kw):
    mode = [k for k in kw if k in SETTER][0]
    rest = {k: v for k, v in kw.items() if k != mode}
    return mode, kw[mode], rest


def _obs_rp(cls, ts, kw, network, via=False):
    o = {"exc": "", "R": [], "N": 0, "rr": 0, "lines": {"exc": "", "diag": [], "vert": [], "white": []}}
    try:
        if via == 2:
            mode, val, rest = _split_mode(kw)
            rp = _there_and_back(cls(ts, silence_level=3, **kw), mode, val)
        elif via:
            mode, val, rest = _split_mode(kw)
            rp = cls(ts, silence_level=3, threshold=1.0e6, **rest)
            _lines(rp)          # the quantification methods have been used before the setting changes
            if mode == "adaptive_neighborhood_size" and hasattr(rp, "N"):
                # the documented processing order of the state vectors: standard, reversed or rotated (whatever
                # the order, every state ends up with at least the requested number of neighbours)
                n = int(rp.recurrence_matrix().shape[0])
                pick = (len(str(ts)) + n + int(val)) % 3
                order = None if pick == 0 else np.arange(n)[::-1] if pick == 1 else np.roll(np.arange(n), n // 2)
                getattr(rp, SETTER[mode])(val, order=None if order is None else order.astype("int32"))
            else:
                getattr(rp, SETTER[mode])(val)
        else:
            rp = cls(ts, silence_level=3, **kw)
    except Exception as ex:
        o["exc"] = "init:" + type(ex).__name__
        return o
    try:
        o["R"] = enc.ints(rp.recurrence_matrix())
        o["N"] = int(rp.N)
        o["rr"] = enc.num(rp.recurrence_rate())
        if network:
            o["adj"] = enc.ints(rp.adjacency)
            o["directed"] = int(bool(rp.directed))
            o["n_links"] = int(rp.n_links)
    except Exception as ex:
        o["exc"] = "query:" + type(ex).__name__
        return o
    o["lines"] = _lines(rp)
    return o


def _rp(c):
    from pyunicorn.timeseries import RecurrencePlot, RecurrenceNetwork
    if c["kind"] == "rp":
        ts = np.array(c["s"], dtype=float)
        if not any(c["mv"]):
            ts = enc.represent(ts, c["case"])[0]
        else:
            ts[np.array(c["mv"], dtype=bool)] = np.nan
        kw = dict(metric=c["metric"], missing_values=bool(c["mvflag"]))
        if c["dim"] > 1:
            kw.update(dim=c["dim"], tau=c["tau"])
    else:
        ts = enc.represent(c["pts"], c["case"])[0]
        kw = dict(metric=c["metric"])
    kw.update(_mode_kw(c))
    via = _via_setter(c["case"])
    return {"via": int(via), "rp": _obs_rp(RecurrencePlot, ts.copy(), kw, False, via),
            "rn": _obs_rp(RecurrenceNetwork, ts.copy(), kw, True, via)}


def _x(c):
    from pyunicorn.timeseries import CrossRecurrencePlot, InterSystemRecurrenceNetwork
    x = enc.represent(c["x"], c["case"])[0]
    y = enc.represent(c["y"], c["case"] + "y")[0]
    kw = dict(metric=c["metric"])
    o = {"crp": {"exc": "", "CR": [], "N": 0, "M": 0, "crr": 0, "lines_exc": "",
                 "xl": {"exc": "", "diag": [], "vert": [], "white": []}},
         "isrn": {"exc": "", "adj": [], "N": 0, "Nx": 0, "Ny": 0}}
    try:
        kwc = dict(kw)
        kwc.update(_mode_kw(c))
        if c["emb"]:
            kwc.update(dim=2, tau=int(c["ctau"]))
        if _via_setter(c["case"]) == 2:
            mode, val, rest = _split_mode(kwc)
            crp = _there_and_back(CrossRecurrencePlot(x, y, silence_level=3, **kwc), mode, val)
        elif _via_setter(c["case"]):
            mode, val, rest = _split_mode(kwc)
            crp = CrossRecurrencePlot(x, y, silence_level=3, threshold=1.0e6, **rest)
            getattr(crp, SETTER[mode])(val)
        else:
            crp = CrossRecurrencePlot(x, y, silence_level=3, **kwc)
        o["crp"]["CR"] = enc.ints(crp.recurrence_matrix())
        o["crp"]["N"] = int(crp.N)
        o["crp"]["M"] = int(crp.M)
        o["crp"]["crr"] = enc.num(crp.cross_recurrence_rate())
        o["crp"]["xl"] = _xlines(crp)
        o["crp"]["lines_exc"] = o["crp"]["xl"]["exc"]
        # the same two series on a level of 2^27 (time stamps, Kelvin-like offsets; exact in double precision):
        # distances, hence the cross recurrence matrix, do not depend on a common translation
        o["crp"]["CRfar"] = enc.ints(CrossRecurrencePlot(np.asarray(x, dtype=float) + 134217728.0,
                                                         np.asarray(y, dtype=float) + 134217728.0,
                                                         silence_level=3, **kwc).recurrence_matrix())
    except Exception as ex:
        o["crp"]["exc"] = type(ex).__name__
    try:
        kwi = dict(kw)
        kwi.update(_mode_kw(c, triple=True))
        if c["emb"]:
            kwi.update(dim=2, tau=(int(c["taux"]), int(c["tauy"])))
        if _via_setter(c["case"]) == 2:
            # (the cross threshold alone is moved away and brought back)
            mode, val, rest = _split_mode(kwi)
            isrn = InterSystemRecurrenceNetwork(x, y, silence_level=3, **kwi)
            getattr(isrn, SETTER[mode])((val[0], val[1], 1.0e6) if mode == "threshold" else (val[0], val[1], 1.0))
            getattr(isrn, SETTER[mode])(val)
        elif _via_setter(c["case"]):
            mode, val, rest = _split_mode(kwi)
            isrn = InterSystemRecurrenceNetwork(x, y, silence_level=3, threshold=(1.0e6, 1.0e6, 1.0e6), **rest)
            getattr(isrn, SETTER[mode])(val)
        else:
            isrn = InterSystemRecurrenceNetwork(x, y, silence_level=3, **kwi)
        o["isrn"]["adj"] = enc.ints(isrn.adjacency)
        o["isrn"]["N"] = int(isrn.N)
        o["isrn"]["Nx"] = int(isrn.N_x)
        o["isrn"]["Ny"] = int(isrn.N_y)
        o["isrn"]["irr"] = [enc.num(v) for v in isrn.internal_recurrence_rates()]
        o["isrn"]["crr"] = enc.num(isrn.cross_recurrence_rate())
    except Exception as ex:
        o["isrn"]["exc"] = type(ex).__name__
    return o


def _j(c):
    from pyunicorn.timeseries import JointRecurrencePlot, JointRecurrenceNetwork
    x = enc.represent(c["x"], c["case"])[0]
    y = enc.represent(c["y"], c["case"] + "y")[0]
    key = {"thr": "threshold", "tstd": "threshold_std"}.get(c["mode"], "recurrence_rate")
    kw = {key: (c["p1n"] / c["p1d"], c["p2n"] / c["p2d"]), "metric": (c["mx"], c["my"]),
          "lag": c["lag"]}
    if c.get("dx", 1) > 1 or c.get("dy", 1) > 1:
        kw.update(dim=(c["dx"], c["dy"]), tau=(1, 1))
    out = {}
    for name, cls in (("jrp", JointRecurrencePlot), ("jrn", JointRecurrenceNetwork)):
        o = {"exc": "", "JR": [], "N": 0, "rr": 0, "adj": [],
             "lines": {"exc": "", "diag": [], "vert": [], "white": []}}
        try:
            if _via_setter(c["case"]) == 2:
                # (the y setting alone is moved away and brought back)
                obj = cls(x, y, silence_level=3, **kw)
                getattr(obj, SETTER[key])((kw[key][0], 1.0e6 if key == "threshold" else 1.0))
                getattr(obj, SETTER[key])(kw[key])
            elif _via_setter(c["case"]):
                rest = {k: v for k, v in kw.items() if k != key}
                obj = cls(x, y, silence_level=3, threshold=(1.0e6, 1.0e6), **rest)
                _lines(obj)     # the quantification methods have been used before the setting changes
                getattr(obj, SETTER[key])(kw[key])
            else:
                obj = cls(x, y, silence_level=3, **kw)
            o["JR"] = enc.ints(obj.recurrence_matrix())
            o["N"] = int(obj.N)
            if name == "jrn":
                o["adj"] = enc.ints(obj.adjacency)
            o["lines"] = _lines(obj)
            o["rr"] = enc.num(obj.recurrence_rate())
        except Exception as ex:
            o["exc"] = type(ex).__name__
        out[name] = o
    return out


def run_case(c):
    rec = dict(c)
    rec["obs"] = {"rp": _rp, "rp2": _rp, "x": _x, "j": _j}[c["kind"]](c)
    return rec


def _nontrivial(rec):
    k = rec["kind"]
    if k in ("rp", "rp2"):
        R = rec["obs"]["rp"]["R"]
        n = len(R)
        return n >= 2 and 0 < sum(map(sum, R)) - n < n * n - n if R else False
    if k == "x":
        R = rec["obs"]["crp"]["CR"]
        return bool(R) and 0 < sum(map(sum, R)) < len(R) * len(R[0])
    R = rec["obs"]["jrp"]["JR"]
    return bool(R) and len(R) >= 2


def main(ctx):
    cfg = "Gen_C07_" + ctx.tier
    cases = ctx.gen_cached("Gen_C07", cfg)
    ctx.exhaustive = True
    ctx.extra["rule"] = (
        "GEN (TLC, Gen_C07): all scalar series over {0,1,2} up to the cfg length x embeddings (dim<=2, tau<=2) "
        "x 3 metrics x {5 fixed thresholds incl. ties d=eps, 4 global rates, 3 local rates, adaptive sizes} "
        "x missing masks (weight 1, fixed threshold); 2-D series; all pairs of unequal lengths for cross / "
        "inter-system; equal-length pairs with lags -2..2 for joint plots/networks. Each replayed on the plot "
        "class and the network class. non-trivial = matrix neither empty nor full off the diagonal")
    ctx.extra["scope"] = open(os.path.join(os.path.dirname(__file__), "..", "spec", cfg + ".cfg")).read().split()
    recs = ctx.run_cases("props.c07.run_case", cases)
    ctx.validate("Val_C07", "Val_C07", recs, nontrivial=_nontrivial)


def replay(ctx, rep):
    rec = rep["record"]
    case = {k: v for k, v in rec.items() if k != "obs"}
    recs = ctx.run_cases("props.c07.run_case", [case], jobs=1)
    ctx.validate("Val_C07", "Val_C07", recs, nontrivial=_nontrivial)
