"""C08 - RQA line statistics are exact run-length counts of the matrix."""
import os
import random

import numpy as np

from vlib import enc


def _scalars(rp, white):
    sc = {}
    names = [("det", "determinism"), ("L", "average_diaglength"), ("dent", "diag_entropy"),
             ("lam", "laminarity"), ("tt", "average_vertlength"), ("trap", "trapping_time"),
             ("vent", "vert_entropy")]
    if white:
        names += [("mrt", "average_white_vertlength"), ("mrt2", "mean_recurrence_time"),
                  ("went", "white_vert_entropy")]
    for key, meth in names:
        sc[key] = [enc.num(getattr(rp, meth)(lm)) for lm in (1, 2, 3)]
    return sc


def _observe(ts, kw, sparse):
    from pyunicorn.timeseries import RecurrencePlot
    o = {"exc": ""}
    try:
        rp = RecurrencePlot(ts, sparse_rqa=sparse, silence_level=3, **kw)
        if not sparse:
            o["R"] = enc.ints(rp.recurrence_matrix())
        o["diag"] = enc.ints(rp.diagline_dist())
        o["vert"] = enc.ints(rp.vertline_dist())
        o["maxd"] = int(rp.max_diaglength())
        o["maxv"] = int(rp.max_vertlength())
        if not sparse:
            o["white"] = enc.ints(rp.white_vertline_dist())
            o["maxw"] = int(rp.max_white_vertlength())
        o["rr"] = enc.num(rp.recurrence_rate())
        o["sc"] = _scalars(rp, not sparse)
        summ = rp.rqa_summary(l_min=3, v_min=1)
        o["summary"] = [enc.num(summ[k]) for k in ("RR", "DET", "L", "LAM")]
        o["summary_keys"] = sorted(summ)
        if not sparse:
            o["rprob"] = [enc.num(rp.recurrence_probability(lag)) for lag in range(min(3, rp.N))]
        # the resampled distributions (confidence bounds) are derived FROM the histograms: afterwards the
        # histograms are still the run-length counts
        np.random.seed(len(o["diag"]))
        rs_d, rs_v = rp.resample_diagline_dist(7), rp.resample_vertline_dist(7)
        o["rs_mass"] = [int(np.sum(rs_d)), int(np.sum(rs_v))]
        o["diag2"] = enc.ints(rp.diagline_dist())
        o["vert2"] = enc.ints(rp.vertline_dist())
        o["maxd2"], o["maxv2"] = int(rp.max_diaglength()), int(rp.max_vertlength())
    except Exception as ex:
        o["exc"] = type(ex).__name__
    return o


def run_case(c):
    rec = dict(c)
    if c["blk"] == "craft":
        ts = np.array(c["pts2"], dtype=float) / 2.0
        mv = np.array(c["mv"], dtype=bool)
        # a state is missing when ANY of its components is: every second case loses one component only
        import zlib
        if zlib.crc32(c["case"].encode()) % 2:
            ts[mv, zlib.crc32(c["case"].encode()) % ts.shape[1]] = np.nan
        else:
            ts[mv, :] = np.nan
        kw = dict(metric="supremum", threshold=0.75, missing_values=bool(c["mvflag"]))
        rec["hasseq"] = 1
    else:
        ts = np.array(c["ser"], dtype=float) / c["den"]
        mv = np.array(c["mv"], dtype=bool)
        import zlib
        if ts.ndim == 1:
            ts[mv] = np.nan
        elif zlib.crc32(c["case"].encode()) % 2:
            ts[mv, 0] = np.nan
        else:
            ts[mv, :] = np.nan
        kw = dict(metric=c["metric"], missing_values=bool(c["mvflag"]))
        kw[c["mode"]] = c["param"][0] / c["param"][1]
        rec["hasseq"] = 1 if (c["mode"] == "threshold" and c["metric"] == "supremum") else 0
    rec["mat"] = _observe(ts.copy(), kw, False)
    rec["seq"] = _observe(ts.copy(), kw, True) if rec["hasseq"] else {"exc": ""}
    return rec


def _plateau(L, ramp, level=0.0, step=10.0):
    """L samples resting at one level, then `ramp` samples far apart from everything."""
    return np.concatenate([np.full(L, level), level + step * np.arange(1, ramp + 1)])


def run_long(c):
    """Lines longer than 127 / 255 points: (cross) recurrence plots of series with a long plateau."""
    from pyunicorn.timeseries import RecurrencePlot, CrossRecurrencePlot
    rec = dict(c)
    L = c["L"]
    o = {"exc": "", "lexc": ""}
    try:
        if c["kind"] == "rp":
            rp = RecurrencePlot(_plateau(L, 12), threshold=0.5, metric="supremum", silence_level=3)
            o["R"] = enc.ints(rp.recurrence_matrix())
            o["diag"], o["vert"] = enc.ints(rp.diagline_dist()), enc.ints(rp.vertline_dist())
            o["white"] = enc.ints(rp.white_vertline_dist())
            o["maxd"], o["maxv"], o["maxw"] = (int(rp.max_diaglength()), int(rp.max_vertlength()),
                                               int(rp.max_white_vertlength()))
        else:
            # the two records rest at the same level for L and L - 9 samples
            crp = CrossRecurrencePlot(_plateau(L, 6), _plateau(L - 9, 8, step=-7.0), threshold=0.5,
                                      metric="supremum", silence_level=3)
            o["R"] = enc.ints(crp.recurrence_matrix())
            o["diag"], o["vert"], o["white"] = [], [], []
            try:
                o["diag"], o["vert"] = enc.ints(crp.diagline_dist()), enc.ints(crp.vertline_dist())
                o["white"] = enc.ints(crp.white_vertline_dist())
            except Exception as ex:
                o["lexc"] = type(ex).__name__
    except Exception as ex:
        o["exc"] = type(ex).__name__
    rec["obs"] = o
    return rec


def long_cases(tier):
    Ls = (20, 140) if tier == "quick" else (20, 127, 128, 140, 256, 300)
    return [{"case": "%s_long%d" % (k, L), "blk": "long", "kind": k, "L": L} for k in ("rp", "crp") for L in Ls]


def random_cases(seed, count, nmax):
    """Seeded dyadic series (values k/16): thresholds and distances are exact in float32."""
    rng = random.Random(seed)
    out = []
    for k in range(count):
        n = rng.randint(7, nmax)
        dim = rng.choice([1, 1, 2])
        if dim == 1:
            ser = [rng.randint(0, 63) for _ in range(n)]
        else:
            ser = [[rng.randint(0, 63) for _ in range(dim)] for _ in range(n)]
        mode = rng.choice(["threshold", "threshold", "recurrence_rate", "local_recurrence_rate"])
        metric = rng.choice(["supremum", "supremum", "manhattan", "euclidean"])
        if mode == "threshold":
            param = [2 * rng.randint(2, 40) + 1, 32]
        else:
            param = [rng.randint(1, 12), 16]
        mvflag = 1 if (mode == "threshold" and rng.random() < 0.35) else 0
        mv = [0] * n
        if mvflag:
            for _ in range(rng.randint(1, 3)):
                mv[rng.randrange(n)] = 1
        out.append({"case": "r%d" % k, "blk": "rand", "n": n, "ser": ser, "den": 16, "mv": mv,
                    "mvflag": mvflag, "mode": mode, "metric": metric, "param": param})
    return out


def _nontrivial(rec):
    m = rec["mat"]
    return rec["n"] >= 3 and m.get("exc") == "" and sum(map(sum, m["R"])) not in (0, rec["n"] ** 2)


def main(ctx):
    r = ctx.tlc("MC_Lines", "MC_Lines", workers=8)
    if r.error or r.violated:
        from vlib.core import Machinery
        raise Machinery("MC_Lines: design-level check failed\n" + r.out[-2000:])
    ctx.stages.append({"stage": "DESIGN MC_Lines (scan = declarative runs, conservation)",
                       "states": r.distinct, "wall_s": round(r.wall, 1)})
    cfg = "Gen_C08_" + ctx.tier
    cases = ctx.gen_cached("Gen_C08", cfg)
    nr, nmax = (60, 30) if ctx.tier == "quick" else (600, 60)
    cases = cases + random_cases(ctx.seed, nr, nmax)
    ctx.exhaustive = True
    ctx.extra["rule"] = (
        "GEN (TLC, Gen_C08): all symmetric unit-diagonal 0/1 matrices up to the cfg size, realised "
        "through the public constructor by CraftSeries, all missing masks up to the cfg weight, matrix "
        "and sequential mode, l_min/v_min/w_min in 1..3; plus seeded dyadic random series (sizes 7..%d, "
        "three metrics, fixed threshold / global rate / local rate => non-symmetric). non-trivial = "
        "n>=3 and the matrix is neither all black nor all white; distinct = distinct input" % nmax)
    ctx.extra["scope"] = open(os.path.join(os.path.dirname(__file__), "..", "spec", cfg + ".cfg")).read().split()
    recs = ctx.run_cases("props.c08.run_case", cases)
    ctx.validate("Val_C08", "Val_C08", recs, nontrivial=_nontrivial)
    # lines beyond 127 / 255 points (plateaus), on recurrence plots and - where offered - cross recurrence plots
    lrecs = ctx.run_cases("props.c08.run_long", long_cases(ctx.tier))
    ctx.validate("Val_C08long", "Val_C08long", lrecs, stage="Val_C08long", nontrivial=lambda r: True)


def replay(ctx, rep):
    if rep["record"].get("blk") == "long":
        lrecs = ctx.run_cases("props.c08.run_long", [{k: v for k, v in rep["record"].items() if k != "obs"}], jobs=1)
        ctx.validate("Val_C08long", "Val_C08long", lrecs, stage="Val_C08long", nontrivial=lambda r: True)
        return
    rec = rep["record"]
    case = {k: v for k, v in rec.items() if k not in ("mat", "seq", "hasseq")}
    recs = ctx.run_cases("props.c08.run_case", [case], jobs=1)
    ctx.validate("Val_C08", "Val_C08", recs, nontrivial=_nontrivial)
