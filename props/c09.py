"""C09 - similarity networks link exactly the pairs above the threshold."""
import os

import numpy as np

from vlib import enc

LAT = [0.0, 1.0, 30.0, 60.0]
LON = [0.0, 1.0, 40.0, 80.0]
UNKNOWN = 1999999999
MEASURES = ["nsi_degree", "local_clustering", "closeness", "betweenness"]


def _grid(n):
    from pyunicorn.core import GeoGrid
    return GeoGrid(np.arange(4.0), np.array(LAT[:n]), np.array(LON[:n]), silence_level=3)


def _summary(net):
    return {"adj": enc.ints(net.adjacency), "n_links": int(net.n_links),
            "ld": enc.num(net.link_density), "degree": enc.ints(net.degree()),
            "m": {m: enc.arr(getattr(net, m)()) for m in MEASURES}}


def _make(kind, S, directed, own=None, **kw):
    """kind "plain": ClimateNetwork on the 3/4-node grid (nodes 1 and 2 are ~1.4 degrees apart, all other pairs
    >= 30 degrees); kind "ccn": CoupledClimateNetwork with two 2-node layers on the equator, longitudes
    (0, 40) and (41, 80): nodes 2 and 3 are 1 degree apart, all other pairs >= 39 degrees."""
    from pyunicorn.core import GeoGrid
    from pyunicorn.climate import ClimateNetwork, CoupledClimateNetwork
    if kind == "ccn":
        g1 = GeoGrid(np.arange(4.0), np.array([0.0, 0.0]), np.array([0.0, 40.0]), silence_level=3)
        g2 = GeoGrid(np.arange(4.0), np.array([0.0, 0.0]), np.array([41.0, 80.0]), silence_level=3)
        return CoupledClimateNetwork(g1, g2, S.copy() if own is None else own, directed=bool(directed),
                                     silence_level=3, **kw)
    return ClimateNetwork(_grid(len(S)), S.copy() if own is None else own, directed=bool(directed),
                          silence_level=3, **kw)


def _observe(net, S, directed, kind="plain"):
    o = {"exc": "", "twin": {}}
    try:
        o.update(_summary(net))
        thr = net.threshold()
        o["thr"] = UNKNOWN if thr is None else enc.num(thr)
        o["nl"] = int(bool(net.non_local()))
        twin = _make(kind, S, directed, threshold=net.threshold(), non_local=bool(net.non_local()))
        o["twin"] = _summary(twin)
    except Exception as ex:
        o["exc"] = type(ex).__name__
    return {"op": "observe", "obs": o}


def run_case(c):
    kind = c.get("kind", "plain")
    S = enc.represent(np.array(c["S4"], dtype=float) / 4.0, c["case"])[0]
    ct = c["ctor"]
    kw = {ct["by"]: ct["n"] / ct["d"]}
    events = [{"op": "construct", "by": ct["by"], "n": ct["n"], "d": ct["d"], "nl": ct["nl"]}]
    # the caller's own matrix: a buffer that is reused (overwritten) once the network has been constructed -
    # the network keeps ITS similarity matrix for the later set_threshold / set_link_density / set_non_local
    buf = np.array(S, copy=True)
    try:
        net = _make(kind, S, c["directed"], own=buf, non_local=bool(ct["nl"]), **kw)
        buf[...] = 0
    except Exception as ex:
        events.append({"op": "observe", "obs": {"exc": "init:" + type(ex).__name__, "twin": {}}})
        rec = dict(c)
        rec["events"] = events
        rec["near"] = []
        return rec
    events.append(_observe(net, S, c["directed"], kind))
    for s in c["steps"]:
        exc = ""
        try:
            if s["op"] == "set_threshold":
                net.set_threshold(s["n"] / s["d"])
            elif s["op"] == "set_link_density":
                net.set_link_density(s["n"] / s["d"])
            else:
                net.set_non_local(bool(s["b"]))
        except Exception as ex:
            exc = type(ex).__name__
        events.append(s)
        ob = _observe(net, S, c["directed"], kind)
        if exc:
            ob["obs"]["exc"] = s["op"] + ":" + exc
        events.append(ob)
    rec = dict(c)
    rec["events"] = events
    # the pairs of spatially close nodes (1-based), from the coordinates the harness gave the grid(s)
    rec["near"] = [[2, 3], [3, 2]] if kind == "ccn" else [[1, 2], [2, 1]]
    return rec


def run_data_case(c):
    """A data-driven subclass (families.py: tsonis, hilbert) driven along an ObjectSM history; after every
    step the object's own similarity matrix, threshold and network are recorded."""
    from props import families
    fam = families.FAMILIES[c["family"]]
    a = dict(families.INIT[c["family"]])
    obj = fam.build(a)
    steps = []

    def obs(after, rho):
        o = {"exc": "", "rho": rho}
        try:
            o["S6"] = enc.arr(np.abs(obj.similarity_measure()))
            o["thr"] = enc.num(obj.threshold())
            o["adj"] = enc.ints(obj.adjacency)
            o["n_links"] = int(obj.n_links)
            o["ld"] = enc.num(obj.link_density)
            o["directed"] = int(bool(obj.directed))
            o["nl"] = int(bool(obj.non_local()))
            o["filtered"] = int(c["family"] == "hilbert" and bool(obj.directed))
            o["phase"] = enc.arr(obj.phase_shift()) if o["filtered"] else []
        except Exception as ex:
            o["exc"] = type(ex).__name__
        steps.append({"after": after, "obs": o})
    obs("construct", [])
    for m, v in c["hist"]:
        exc = ""
        try:
            fam.mutate(obj, m, v)
        except Exception as ex:
            exc = type(ex).__name__
        a = families.apply_abs(a, m, v)
        rho = []
        if m == "set_link_density":
            from fractions import Fraction
            fr = Fraction(families.CLIM_PARAM["link_density"][v]).limit_denominator(100)
            rho = [fr.numerator, fr.denominator]
        obs(m + (":" + exc if exc else ""), rho)
    # ... and, at the end of every history, the extreme densities 0, 1/12 and 1 (no link at all / every pair)
    for num, den in ((0, 1), (1, 12), (1, 1)):
        exc = ""
        try:
            obj.set_link_density(num / den)
        except Exception as ex:
            exc = type(ex).__name__
        obs("set_link_density(%d/%d)" % (num, den) + (":" + exc if exc else ""), [num, den])
    return {"case": c["case"], "family": c["family"], "hist": c["hist"], "steps": steps}


def _nontrivial(rec):
    return len(rec["steps"]) >= 1


def main(ctx):
    cfg = "Gen_C09_" + ctx.tier
    cases = ctx.gen_cached("Gen_C09", cfg)
    ctx.exhaustive = False
    ctx.extra["rule"] = (
        "GEN (TLC, Gen_C09): behaviours of ClimateSM on ALL symmetric 3-node similarity matrices with entries "
        "k/4 (any sign, ties, unit/zero/arbitrary diagonal) and a family of 4-node (also asymmetric/directed) ones; "
        "constructor by threshold or density, then setter sequences over thresholds at/between the values, "
        "densities k/12, non_local on/off (sequence chosen per matrix from its content).  After every step the "
        "object and a fresh twin are observed; TLC replays the trace through ClimateSM.  non-trivial = >=1 setter step")
    ctx.extra["scope"] = open(os.path.join(os.path.dirname(__file__), "..", "spec", cfg + ".cfg")).read().split()
    # the same behaviours on a CoupledClimateNetwork (4-node matrices: two layers of two nodes)
    ccn = [dict(c, case="ccn_" + c["case"], kind="ccn") for c in cases if len(c["S4"]) == 4]
    ctx.extra["coupled_climate_network_cases"] = len(ccn)
    recs = ctx.run_cases("props.c09.run_case", cases + ccn)
    ctx.validate("Val_C09", "Val_C09", recs, nontrivial=_nontrivial)
    # data-driven subclasses: ObjectSM histories (depth 2 quick / 3 thorough) of the tsonis and hilbert families
    from props import c01
    dcases = []
    for fam in ("tsonis", "hilbert", "spearman", "partialcorr", "mutualinfo", "havlin", "ctsonis"):
        hs = c01.gen_histories(ctx, fam, 2 if ctx.tier == "quick" else 3)
        if ctx.tier == "quick":
            hs = hs + c01.aba_histories(ctx, fam, 12)
        for k, h in enumerate(hs):
            dcases.append({"case": "d_%s_%d" % (fam, k), "family": fam, "hist": [list(m) for m in h]})
    drecs = ctx.run_cases("props.c09.run_data_case", dcases)
    ctx.validate("Val_C09d", "Val_C09d", drecs, stage="Val_C09d", nontrivial=lambda r: len(r["hist"]) >= 1)


def replay(ctx, rep):
    rec = rep["record"]
    if rec["case"].startswith("d_"):
        case = {k: rec[k] for k in ("case", "family", "hist")}
        drecs = ctx.run_cases("props.c09.run_data_case", [case], jobs=1)
        ctx.validate("Val_C09d", "Val_C09d", drecs, stage="Val_C09d")
        return
    case = {k: v for k, v in rec.items() if k != "events"}
    recs = ctx.run_cases("props.c09.run_case", [case], jobs=1)
    ctx.validate("Val_C09", "Val_C09", recs, nontrivial=_nontrivial)
