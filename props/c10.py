"""C10 - similarity and coupling estimates equal reference statistics (partial)."""
import os

import numpy as np

from vlib import enc


_SHARED = {}


_SHARED_A = {}


def _climate_anom(cls_name, data, **kw):
    """The same classes on a shared ClimateData that was told the data ARE anomalies already (they are not centred:
    small non-negative integers) - a correlation statistic centres its input itself."""
    import pyunicorn.climate as cl
    from pyunicorn.core import GeoGrid
    T, N = data.shape
    key = id(data)
    if _SHARED_A.get("key") != key:
        grid = GeoGrid(np.arange(float(T)), np.linspace(0.0, 20.0, N), np.linspace(0.0, 40.0, N), silence_level=3)
        _SHARED_A.clear()
        _SHARED_A.update(key=key, data=data, cd=cl.ClimateData(data.copy(), grid, 1, anomalies=True, silence_level=3))
    return getattr(cl, cls_name)(_SHARED_A["cd"], threshold=0.1, winter_only=False, silence_level=3, **kw)


def _climate(cls_name, data, **kw):
    """All climate classes of one case are derived from ONE shared ClimateData object (as a user would),
    in the order Spearman, Tsonis, partial correlation: each must see the data, not what another left."""
    import pyunicorn.climate as cl
    from pyunicorn.core import GeoGrid
    T, N = data.shape
    key = id(data)
    if _SHARED.get("key") != key:
        grid = GeoGrid(np.arange(float(T)), np.linspace(0.0, 20.0, N), np.linspace(0.0, 40.0, N), silence_level=3)
        _SHARED.clear()
        _SHARED.update(key=key, data=data, cd=cl.ClimateData(data.copy(), grid, 1, silence_level=3))
    return getattr(cl, cls_name)(_SHARED["cd"], threshold=0.1, winter_only=False, silence_level=3, **kw)


def run_case(c):
    from pyunicorn.funcnet import CouplingAnalysis
    from pyunicorn.funcnet.coupling_analysis_pure_python import CouplingAnalysisPurePython
    data = enc.represent(c["data"], c["case"])[0]
    T, N = data.shape
    tm = c["taumax"]
    rec = dict(c)
    o = {"x": {}}

    def put(key, fn):
        try:
            o[key] = fn()
        except Exception as ex:
            o["x"][key] = type(ex).__name__

    ca = CouplingAnalysis(data.copy(), silence_level=3)
    # every second case: the object has a HISTORY - it has answered the same questions for a larger maximal lag
    # (and for lag 0) before; each estimate is a function of the data and the arguments of ITS call
    import zlib
    hist = zlib.crc32(c["case"].encode()) % 2 == 1 and T - (tm + 1) >= 3
    rec["hist"] = int(hist)
    if hist:
        for est_kw in (dict(), ):
            try:
                ca.cross_correlation(tau_max=tm + 1, lag_mode="max")
                ca.mutual_information(tau_max=tm + 1, estimator="binning", bins=2, lag_mode="all")
                ca.mutual_information(tau_max=tm + 1, estimator="gauss", lag_mode="max")
                ca.cross_correlation(tau_max=0, lag_mode="all")
                ca.cross_correlation(tau_max=tm + 1, lag_mode="all")
            except Exception:
                pass
    if not hist:
        put("all", lambda: enc.arr(ca.cross_correlation(tau_max=tm, lag_mode="all")))

    def mx():
        v, l = ca.cross_correlation(tau_max=tm, lag_mode="max")
        o["maxl"] = enc.ints(l)
        ev = enc.arr(v)
        # the caller symmetrises the very arrays it was handed (not copies) ...
        sv, sl = ca.symmetrize_by_absmax(v, l) if hist else ca.symmetrize_by_absmax(v.copy(), l.copy())
        o["symv"], o["syml"] = enc.arr(sv), enc.ints(sl)
        # ... and asks again: the same question has the same answer
        v2, l2 = ca.cross_correlation(tau_max=tm, lag_mode="max")
        o["maxv2"], o["maxl2"] = enc.arr(v2), enc.ints(l2)
        o["all2"] = enc.arr(ca.cross_correlation(tau_max=tm, lag_mode="all"))
        return ev
    put("maxv", mx)
    if hist:       # (with a history the value / lag summary is asked for BEFORE the lag functions of this maximal lag)
        put("all", lambda: enc.arr(ca.cross_correlation(tau_max=tm, lag_mode="all")))
    put("gauss", lambda: enc.arr(ca.mutual_information(tau_max=tm, estimator="gauss", lag_mode="all")))
    put("bin2", lambda: enc.arr(ca.mutual_information(tau_max=tm, estimator="binning", bins=2, lag_mode="all")))

    def mimax(est, **kw):
        v, l = ca.mutual_information(tau_max=tm, estimator=est, lag_mode="max", **kw)
        return [enc.arr(v), enc.ints(l)]
    put("bin2max", lambda: mimax("binning", bins=2))
    put("gaussmax", lambda: mimax("gauss"))
    put("pure0", lambda: enc.arr(CouplingAnalysisPurePython(data.copy(), silence_level=3)
                                 .cross_correlation(tau_max=0, lag_mode="all")[0]))
    # the pure-Python lag functions (its own, documented window: the central T - 2 tau_max samples of series i
    # against series j shifted by -tau_max .. tau_max); compared where that window has at least 3 samples
    if T - 2 * tm >= 3:
        put("pure_all", lambda: enc.arr(CouplingAnalysisPurePython(data.copy(), silence_level=3)
                                        .cross_correlation(tau_max=tm, lag_mode="all")))
    put("spearman", lambda: enc.arr(_climate("SpearmanClimateNetwork", data).similarity_measure()))
    put("tsonis", lambda: enc.arr(_climate("TsonisClimateNetwork", data).correlation()))
    put("partial", lambda: enc.arr(_climate("PartialCorrelationClimateNetwork", data).similarity_measure()))
    put("spearman_anom", lambda: enc.arr(_climate_anom("SpearmanClimateNetwork", data).similarity_measure()))
    put("tsonis_anom", lambda: enc.arr(_climate_anom("TsonisClimateNetwork", data).correlation()))
    put("partial_anom", lambda: enc.arr(_climate_anom("PartialCorrelationClimateNetwork", data).similarity_measure()))
    # binned mutual information of the climate network (histogram kernel over all pairs): of the data and of
    # the reordered data set (a separate shared data object)
    put("mi", lambda: enc.arr(_climate("MutualInfoClimateNetwork", data).similarity_measure()))

    def mi_perm():
        import pyunicorn.climate as cl
        from pyunicorn.core import GeoGrid
        grid = GeoGrid(np.arange(float(T)), np.linspace(0.0, 20.0, N), np.linspace(0.0, 40.0, N), silence_level=3)
        cd = cl.ClimateData(data[:, [2, 0, 1]].copy(), grid, 1, silence_level=3)
        return enc.arr(cl.MutualInfoClimateNetwork(cd, threshold=0.1, winter_only=False,
                                                   silence_level=3).similarity_measure())
    put("mi_perm", mi_perm)
    # Derive: positive affine map of every series, and a reordering of the series
    aff = data * np.array([2.0, 0.5, 3.0])[None, :] + np.array([1.0, -4.0, 0.25])[None, :]
    put("all_aff", lambda: enc.arr(CouplingAnalysis(aff, silence_level=3).cross_correlation(tau_max=tm, lag_mode="all")))
    # ... and a large common offset (the statistics are translation invariant; the data stay exact)
    big = np.array(c["data"], dtype=float) + 134217728.0
    put("all_big", lambda: enc.arr(CouplingAnalysis(big.copy(), silence_level=3).cross_correlation(tau_max=tm, lag_mode="all")))
    put("pure0_big", lambda: enc.arr(CouplingAnalysisPurePython(big.copy(), silence_level=3)
                                     .cross_correlation(tau_max=0, lag_mode="all")[0]))
    perm = [2, 0, 1]
    put("all_perm", lambda: enc.arr(CouplingAnalysis(data[:, perm].copy(), silence_level=3)
                                    .cross_correlation(tau_max=tm, lag_mode="all")))
    put("knn_aff", lambda: [enc.arr(CouplingAnalysis(d, silence_level=3).mutual_information(
        tau_max=0, estimator="knn", knn=2, lag_mode="all")) for d in (None,)] if False else [])
    # surrogate test matrices (the arrays are [index, time]); surrogate j = twice series j+1, advanced one step
    from pyunicorn.timeseries import Surrogates
    base = np.array(c["data"], dtype=float)
    orig = np.ascontiguousarray(base.T)
    surr = np.ascontiguousarray(2.0 * np.roll(np.roll(base, -1, axis=0), -1, axis=1).T)
    put("tpear", lambda: enc.arr(Surrogates.test_pearson_correlation(orig.copy(), surr.copy())))
    if max(orig.max(), surr.max()) > min(orig.min(), surr.min()):
        put("tmi2", lambda: enc.arr(Surrogates.test_mutual_information(orig.copy(), surr.copy(), n_bins=2)))
        put("tmi4", lambda: enc.arr(Surrogates.test_mutual_information(orig.copy(), surr.copy(), n_bins=4)))
    for key in ("tpear", "tmi2", "tmi4", "partial", "mi", "mi_perm"):
        o.setdefault(key, [[0] * 3] * 3)
    for key in ("partial", "tsonis", "spearman"):
        if key + "_anom" not in o and key + "_anom" not in o["x"]:
            o[key + "_anom"] = o.get(key, [])
    for key in ("maxv2", "maxl2", "all2"):
        o.setdefault(key, o.get({"maxv2": "maxv", "maxl2": "maxl", "all2": "all"}[key], []))
    o.setdefault("pure_all", [])
    for key in ("all", "maxv", "maxl", "symv", "syml", "gauss", "bin2", "bin2max", "gaussmax", "pure0", "tsonis", "spearman", "all_aff", "all_perm",
                "all_big", "pure0_big"):
        o.setdefault(key, [])
    rec["obs"] = o
    return rec


def run_long(c):
    """Long series: compiled vs pure-Python cross-correlation at lag 0; closed forms of the binned surrogate test."""
    from pyunicorn.funcnet import CouplingAnalysis
    from pyunicorn.funcnet.coupling_analysis_pure_python import CouplingAnalysisPurePython
    from pyunicorn.timeseries import Surrogates
    T = c["T"]
    rec = dict(c)
    o = {"exc": ""}
    try:
        if c["kind"] == "cc":
            rng = np.random.RandomState(T)
            base = rng.randint(0, 4, size=(T, 3)).astype(float)
            base[:, 2] = base[:, 0] + rng.randint(0, 2, size=T)          # a correlated third series
            o["cc"] = enc.arr(CouplingAnalysis(base.copy(), silence_level=3).cross_correlation(
                tau_max=0, lag_mode="all")[:, :, 0])
            o["pure"] = enc.arr(CouplingAnalysisPurePython(base.copy(), silence_level=3).cross_correlation(
                tau_max=0, lag_mode="all")[0])
        else:
            t = np.arange(T)
            # a balanced 0/1 series, a copy of it and an independent balanced series (the diagonal of the test
            # matrix is 0 by convention: identical series are compared through rows 0 and 1)
            x = np.array([t % 2, t % 2, (t // 2) % 2], dtype=float)
            o["tmi"] = enc.arr(Surrogates.test_mutual_information(x.copy(), x.copy(), n_bins=2))
    except Exception as ex:
        o["exc"] = type(ex).__name__
    rec["obs"] = o
    return rec


IT_CONFS = [{"cond": "ity", "past": 1, "taumax": 2}, {"cond": "ity", "past": 2, "taumax": 1},
            {"cond": "mit", "past": 1, "taumax": 2}, {"cond": "ity", "past": 2, "taumax": 2},
            {"cond": "mit", "past": 1, "taumax": 1}]


def run_it_case(c):
    """Conditional information transfer, Gaussian estimator, both lag modes, for every configuration."""
    from pyunicorn.funcnet import CouplingAnalysis
    data = np.array(c["data"], dtype=float)
    rec = dict(c)
    rec["confs"] = IT_CONFS
    obs = []
    for cf in IT_CONFS:
        o = {"exc_all": "", "exc_max": "", "all": [], "maxv": [], "maxl": []}
        ca = CouplingAnalysis(data.copy(), silence_level=3)
        kw = dict(tau_max=cf["taumax"], estimator="gauss", past=cf["past"], cond_mode=cf["cond"])
        try:
            o["all"] = enc.arr(ca.information_transfer(lag_mode="all", **kw))
        except Exception as ex:
            o["exc_all"] = type(ex).__name__
        try:
            v, l = ca.information_transfer(lag_mode="max", **kw)
            o["maxv"], o["maxl"] = enc.arr(v), enc.ints(l)
        except Exception as ex:
            o["exc_max"] = type(ex).__name__
        obs.append(o)
    rec["obs"] = obs
    return rec


def _nontrivial(rec):
    col = [r[0] for r in rec["data"]]
    return len(set(col)) > 1


def main(ctx):
    cfg = "Gen_C10_" + ctx.tier
    cases = ctx.gen_cached("Gen_C10", cfg)
    ctx.exhaustive = True
    ctx.extra["rule"] = (
        "GEN (TLC, Gen_C10): integer data sets T x 3 where the first series runs over every sequence over {0,1,2} of "
        "the cfg lengths and the others are a delayed copy and an anti-correlated / duplicated / constant / derived "
        "series, tau_max 0..2; TLC decides sign and r^2 of every lagged cross-correlation (both lag modes, lag within "
        "the arg-max set), symmetrize_by_absmax, Gaussian MI via the ln table, Tsonis / Spearman similarity, agreement "
        "of compiled and pure-Python CouplingAnalysis at lag 0, affine invariance and permutation consistency.  "
        "non-trivial = the first series is not constant")
    ctx.extra["scope"] = open(os.path.join(os.path.dirname(__file__), "..", "spec", cfg + ".cfg")).read().split()
    recs = ctx.run_cases("props.c10.run_case", cases)
    ctx.validate("Val_C10", "Val_C10", recs, nontrivial=_nontrivial)
    # conditional information transfer (Gaussian form): seeded integer data with a lagged dependence
    itcases = ctx.gen_cached("Gen_C10it", "Gen_C10it_" + ctx.tier)
    itrecs = ctx.run_cases("props.c10.run_it_case", itcases)
    ctx.validate("Val_C10it", "Val_C10it", itrecs, stage="Val_C10it", nontrivial=lambda r: True)
    # long series (windows beyond 1024 samples; bin counts whose products exceed 2^31)
    longs = [{"case": "Lcc%d" % T, "kind": "cc", "T": T} for T in (1030, 1100, 2500)] + \
            [{"case": "Ltmi%d" % T, "kind": "tmi", "T": T} for T in (8, 1000, 100000, 400000)]
    lrecs = ctx.run_cases("props.c10.run_long", longs)
    ctx.validate("Val_C10long", "Val_C10long", lrecs, stage="Val_C10long", nontrivial=lambda r: True)


def replay(ctx, rep):
    if rep["record"].get("kind") in ("cc", "tmi"):
        case = {k: rep["record"][k] for k in ("case", "kind", "T")}
        lrecs = ctx.run_cases("props.c10.run_long", [case], jobs=1)
        ctx.validate("Val_C10long", "Val_C10long", lrecs, stage="Val_C10long", nontrivial=lambda r: True)
        return
    rec = rep["record"]
    if rec["case"].startswith("it"):
        case = {k: rec[k] for k in ("case", "T", "seed", "data")}
        itrecs = ctx.run_cases("props.c10.run_it_case", [case], jobs=1)
        ctx.validate("Val_C10it", "Val_C10it", itrecs, stage="Val_C10it")
        return
    case = {k: v for k, v in rec.items() if k != "obs"}
    recs = ctx.run_cases("props.c10.run_case", [case], jobs=1)
    ctx.validate("Val_C10", "Val_C10", recs, nontrivial=_nontrivial)
