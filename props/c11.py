"""C11 - cross/internal measures of interacting networks match sub-blocks."""
import os

import numpy as np

from props import netcommon
from vlib import enc

PAIR = [  # methods taking (node_list1, node_list2)
    "cross_adjacency", "cross_adjacency_sparse", "cross_path_lengths",
    "number_cross_links", "total_cross_degree", "cross_degree_density", "cross_link_density",
    "cross_global_clustering", "cross_global_clustering_sparse", "cross_transitivity",
    "cross_transitivity_sparse", "cross_average_path_length", "average_cross_closeness",
    "global_efficiency", "cross_degree", "cross_indegree", "cross_outdegree",
    "cross_local_clustering", "cross_local_clustering_sparse", "cross_closeness",
    "cross_betweenness", "local_efficiency", "nsi_cross_degree", "nsi_cross_mean_degree",
    "nsi_cross_local_clustering", "nsi_cross_closeness_centrality", "nsi_cross_global_clustering",
    "nsi_cross_betweenness", "nsi_cross_edge_density", "nsi_cross_transitivity",
    "nsi_cross_average_path_length",
]
SINGLE = [  # methods taking (node_list)
    "internal_adjacency", "internal_path_lengths", "number_internal_links", "internal_link_density",
    "internal_global_clustering", "internal_average_path_length", "internal_degree",
    "internal_indegree", "internal_outdegree", "internal_closeness", "internal_betweenness",
    "nsi_internal_degree", "nsi_internal_closeness_centrality", "nsi_internal_local_clustering",
]


def observe(net, L1, L2):
    o = {"s": {}, "v": {}, "m": {}, "nodes": {}, "x": {}}
    n1, n2, N = len(L1), len(L2), net.N

    def put(label, val, rows, cols):
        if hasattr(val, "toarray"):
            val = val.toarray()
        a = np.asarray(val)
        if a.ndim == 0:
            o["s"][label] = enc.num(a[()])
        elif a.ndim == 2 and a.shape == (rows, cols):
            o["m"][label] = enc.arr(a)
        elif a.ndim == 1 and label.endswith("betweenness") and a.shape[0] == N:
            o["nodes"][label] = enc.arr(a)
        elif a.ndim == 1 and a.shape[0] == rows:
            o["v"][label] = enc.arr(a)
        else:
            o["x"][label] = "shape%s" % (a.shape,)

    for name in PAIR:
        try:
            put(name, getattr(net, name)(list(L1), list(L2)), n1, n2)
        except Exception as ex:
            o["x"][name] = type(ex).__name__
    for name in SINGLE:
        try:
            put(name, getattr(net, name)(list(L1)), n1, n1)
        except Exception as ex:
            o["x"][name] = type(ex).__name__
    # link-weighted variants: attribute "c" = lengths 1 / 2 fixed by the node numbers (Defs_Network!RootMat)
    _set_lengths(net)
    for name, lists in (("cross_path_lengths", (L1, L2)), ("internal_path_lengths", (L1,)),
                        ("cross_average_path_length", (L1, L2)), ("internal_average_path_length", (L1,)),
                        ("cross_closeness", (L1, L2)), ("internal_closeness", (L1,)),
                        ("local_efficiency", (L1, L2)), ("cross_outdegree", (L1, L2)),
                        ("average_cross_closeness", (L1, L2)), ("global_efficiency", (L1, L2)),
                        ("cross_indegree", (L1, L2)), ("cross_degree", (L1, L2)),
                        ("internal_outdegree", (L1,)), ("internal_indegree", (L1,)), ("internal_degree", (L1,))):
        try:
            put(name + "(c)", getattr(net, name)(*[list(l) for l in lists], link_attribute="c"),
                n1, n2 if len(lists) == 2 else n1)
        except Exception as ex:
            o["x"][name + "(c)"] = type(ex).__name__
    # the sub-blocks of the link attribute itself, in list order
    for name, lists in (("cross_link_attribute", (L1, L2)), ("internal_link_attribute", (L1,))):
        try:
            put(name + "(c)", getattr(net, name)("c", *[list(l) for l in lists]), n1, n2 if len(lists) == 2 else n1)
        except Exception as ex:
            o["x"][name + "(c)"] = type(ex).__name__
    return o


def _set_lengths(net):
    if "c" in net.graph.es.attributes():
        return
    n = net.N
    i, j = np.indices((n, n)) + 1
    root = ((i + 2 * j + (i * j) // 2) % 2) + 1 if net.directed else ((i * j + (i + j) // 2) % 2) + 1
    net.set_link_attribute("c", (root * np.asarray(net.adjacency)).astype(float))


def run_case(c):
    from pyunicorn.core import InteractingNetworks
    net = netcommon.build(c, cls=InteractingNetworks)
    L1 = [v - 1 for v in c["L1"]]
    L2 = [v - 1 for v in c["L2"]]
    allnodes = list(range(net.N))
    rec = dict(c)
    rec["obs"] = observe(net, L1, L2)
    rec["swap"] = observe(net, L2, L1)
    rec["whole"] = observe(net, allnodes, allnodes)
    plain = {"s": {}, "v": {}, "x": {}}
    for name in ("global_clustering", "transitivity", "average_path_length", "nsi_average_path_length",
                 "nsi_global_clustering", "nsi_transitivity", "link_density"):
        try:
            v = getattr(net, name)
            plain["s"][name] = enc.num(v() if callable(v) else v)
        except Exception as ex:
            plain["x"][name] = type(ex).__name__
    for name in ("degree", "indegree", "outdegree", "local_clustering", "closeness", "betweenness",
                 "nsi_degree", "nsi_local_clustering", "nsi_closeness", "nsi_betweenness"):
        try:
            plain["v"][name] = enc.arr(getattr(net, name)())
        except Exception as ex:
            plain["x"][name] = type(ex).__name__
    rec["plain"] = plain
    return rec


def run_ccn(c):
    """CoupledClimateNetwork: the two layers are the node groups (renumbered so that group 1 comes first).
    Its wrappers are recorded under the names of the InteractingNetworks methods they stand for, so the same
    definitional clauses of Val_C11 apply (obs = (layer 1, layer 2), swap = (layer 2, layer 1))."""
    from pyunicorn.core import GeoGrid
    from pyunicorn.climate import CoupledClimateNetwork
    A0 = np.array(c["A"])
    order = [v - 1 for v in c["L1"]] + [v - 1 for v in c["L2"]]
    n1, n2 = len(c["L1"]), len(c["L2"])
    A = A0[np.ix_(order, order)]
    n = n1 + n2
    rec = dict(c)
    rec.update({"case": c["case"], "blk": "ccn", "n": n, "A": enc.ints(A), "w": [4] * n,
                "L1": list(range(1, n1 + 1)), "L2": list(range(n1 + 1, n + 1))})
    empty = lambda: {"s": {}, "v": {}, "m": {}, "nodes": {}, "x": {}}
    obs, swap = empty(), empty()
    rec.update({"obs": obs, "swap": swap, "whole": empty(), "plain": {"s": {}, "v": {}, "x": {}}})
    try:
        g1 = GeoGrid(np.arange(3.0), np.linspace(-40.0, 40.0, n1), np.linspace(0.0, 100.0, n1), silence_level=3)
        g2 = GeoGrid(np.arange(3.0), np.linspace(-30.0, 50.0, n2), np.linspace(20.0, 140.0, n2), silence_level=3)
        S = 0.9 * A + 0.1 * (1 - A)
        np.fill_diagonal(S, 1.0)
        net = CoupledClimateNetwork(g1, g2, S, threshold=0.5, directed=bool(c["directed"]),
                                    node_weight_type=None, silence_level=3)
    except Exception as ex:
        obs["x"]["CoupledClimateNetwork"] = type(ex).__name__
        return rec

    def put(o, kind, name, fn):
        try:
            v = fn()
            if hasattr(v, "toarray"):
                v = v.toarray()
            o[kind][name] = enc.num(v) if kind == "s" else enc.arr(v)
        except Exception as ex:
            o["x"][name] = type(ex).__name__

    def pair(kind, name, fn):
        put(obs, kind, name, lambda: fn()[0])
        put(swap, kind, name, lambda: fn()[1])

    put(obs, "m", "cross_adjacency", net.cross_layer_adjacency)
    put(obs, "m", "internal_adjacency", net.adjacency_1)
    put(swap, "m", "internal_adjacency", net.adjacency_2)
    put(obs, "m", "internal_path_lengths", net.path_lengths_1)
    put(swap, "m", "internal_path_lengths", net.path_lengths_2)
    put(obs, "m", "cross_path_lengths", net.cross_path_lengths)
    for o in (obs, swap):
        put(o, "s", "number_cross_links", net.number_cross_layer_links)
        put(o, "s", "cross_link_density", net.cross_link_density)
        put(o, "s", "cross_average_path_length", net.cross_average_path_length)
    pair("s", "number_internal_links", net.number_internal_links)
    pair("s", "internal_link_density", net.internal_link_density)
    pair("s", "internal_global_clustering", net.internal_global_clustering)
    pair("s", "cross_global_clustering", net.cross_global_clustering)
    pair("s", "cross_transitivity", net.cross_transitivity)
    pair("s", "internal_average_path_length", net.internal_average_path_length)
    pair("v", "cross_degree", net.cross_degree)
    pair("v", "internal_degree", net.internal_degree)
    pair("v", "cross_local_clustering", net.cross_local_clustering)
    pair("v", "cross_closeness", net.cross_closeness)
    pair("v", "internal_closeness", net.internal_closeness)
    # the link lengths are given in two steps: first OTHER lengths (all 5), for which the layer-wise wrappers
    # are asked once, then the lengths of the case - every answer below is about the lengths in force
    net.set_link_attribute("c", 5.0 * np.asarray(net.adjacency, dtype=float))
    for q in (net.cross_path_lengths, net.cross_average_path_length, net.internal_average_path_length,
              net.cross_closeness, net.internal_closeness, net.path_lengths_1, net.path_lengths_2):
        try:
            q("c")
        except Exception:
            pass
    net.del_link_attribute("c")
    _set_lengths(net)
    put(obs, "m", "cross_path_lengths(c)", lambda: net.cross_path_lengths("c"))
    for o in (obs, swap):
        put(o, "s", "cross_average_path_length(c)", lambda: net.cross_average_path_length("c"))
    pair("s", "internal_average_path_length(c)", lambda: net.internal_average_path_length("c"))
    pair("v", "cross_closeness(c)", lambda: net.cross_closeness("c"))
    pair("v", "internal_closeness(c)", lambda: net.internal_closeness("c"))
    put(obs, "nodes", "cross_betweenness", lambda: np.concatenate(net.cross_betweenness()))
    put(obs, "nodes", "internal_betweenness", lambda: np.concatenate(net.internal_betweenness_1()))
    put(swap, "nodes", "internal_betweenness", lambda: np.concatenate(net.internal_betweenness_2()))
    return rec


def run_bigclique(c):
    """Group 2 = clique on k nodes without a perfect matching, group 1 = a hub linked to all of them and a node
    linked to the first half: the cross clustering family, compiled and `_sparse`, against closed forms."""
    from pyunicorn.core import InteractingNetworks
    k = c["k"]
    n = k + 2
    A = np.zeros((n, n), dtype=int)
    A[2:, 2:] = 1
    for p in range(0, k - 1, 2):
        A[2 + p, 3 + p] = A[3 + p, 2 + p] = 0
    np.fill_diagonal(A, 0)
    A[0, 2:] = A[2:, 0] = 1
    A[1, 2:2 + k // 2] = 1
    A[2:2 + k // 2, 1] = 1
    rec = dict(c)
    o = {"exc": ""}
    try:
        net = InteractingNetworks(A, silence_level=3)
        L1, L2 = [0, 1], list(range(2, n))
        for nm in ("cross_local_clustering", "cross_local_clustering_sparse"):
            o[nm] = enc.arr(getattr(net, nm)(L1, L2))
        for nm in ("cross_transitivity", "cross_transitivity_sparse", "cross_global_clustering",
                   "cross_global_clustering_sparse"):
            o[nm] = enc.num(getattr(net, nm)(L1, L2))
    except Exception as ex:
        o["exc"] = type(ex).__name__
    rec["obs"] = o
    return rec


def _nontrivial(rec):
    return len(rec["L1"]) + len(rec["L2"]) >= 3 and sum(map(sum, rec["A"])) > 0


def main(ctx):
    cfg = "Gen_C11_" + ctx.tier
    cases = ctx.gen_cached("Gen_C11", cfg)
    ctx.exhaustive = True
    ctx.extra["rule"] = (
        "GEN (TLC, Gen_C11): every undirected graph up to NU nodes (directed up to ND) with every ordered pair of "
        "disjoint non-empty node sets up to NB nodes (content-derived pairs beyond), each list in a content-derived "
        "unsorted order, weights over {1,2,3}; every cross_/internal_/nsi_cross_/nsi_internal_ method is observed "
        "for (G1,G2), (G2,G1) and (all,all).  non-trivial = >=3 nodes in the two groups and >=1 link")
    ctx.extra["scope"] = open(os.path.join(os.path.dirname(__file__), "..", "spec", cfg + ".cfg")).read().split()
    recs = ctx.run_cases("props.c11.run_case", cases)
    # the same clauses for the wrappers of CoupledClimateNetwork (two layers = the two groups), on every
    # third case with at least two nodes per layer
    ccn = [dict(c, case="ccn_" + c["case"]) for k, c in enumerate(cases)
           if k % 3 == 0 and len(c["L1"]) >= 2 and len(c["L2"]) >= 2]
    recs += ctx.run_cases("props.c11.run_ccn", ccn)
    ctx.extra["coupled_climate_network_cases"] = len(ccn)
    ctx.validate("Val_C11", "Val_C11", recs, nontrivial=_nontrivial)
    # large groups: closed forms proved against the definitions on the small members of the family
    big = [{"case": "k%d" % k, "blk": "bigclique", "k": k} for k in ((4, 6, 8, 300) if ctx.tier == "quick"
                                                                       else (4, 6, 8, 130, 260, 300, 520))]
    brecs = ctx.run_cases("props.c11.run_bigclique", big)
    ctx.validate("Val_C11big", "Val_C11big", brecs, stage="Val_C11big", nontrivial=lambda r: True)


def replay(ctx, rep):
    rec = rep["record"]
    case = {k: v for k, v in rec.items() if k not in ("obs", "swap", "whole", "plain")}
    if rec.get("blk") == "bigclique":
        brecs = ctx.run_cases("props.c11.run_bigclique", [{k: v for k, v in rec.items() if k != "obs"}], jobs=1)
        ctx.validate("Val_C11big", "Val_C11big", brecs, stage="Val_C11big", nontrivial=lambda r: True)
        return
    if rec.get("blk") == "ccn":
        recs = ctx.run_cases("props.c11.run_ccn", [case], jobs=1)
        ctx.validate("Val_C11", "Val_C11", recs, nontrivial=_nontrivial)
        return
    recs = ctx.run_cases("props.c11.run_case", [case], jobs=1)
    ctx.validate("Val_C11", "Val_C11", recs, nontrivial=_nontrivial)
