"""C11 - cross/internal measures of interacting networks match sub-blocks."""
import os

import numpy as np

from props import netcommon
from vlib import enc

PAIR = [  # methods taking (node_list1, node_list2)
    "cross_adjacency", "cross_adjacency_sparse", "cross_path_lengths",
    "number_cross_links", "total_cross_degree", "cross_degree_density", "cross_link_density",
    "cross_global_clustering", "cross_global_clustering_sparse", "cross_transitivity",
    "cross_transitivity_sparse", "cross_average_path_length", "average_cross_closeness",
    "global_efficiency", "cross_degree", "cross_indegree", "cross_outdegree",
    "cross_local_clustering", "cross_local_clustering_sparse", "cross_closeness",
    "cross_betweenness", "local_efficiency", "nsi_cross_degree", "nsi_cross_mean_degree",
    "nsi_cross_local_clustering", "nsi_cross_closeness_centrality", "nsi_cross_global_clustering",
    "nsi_cross_betweenness", "nsi_cross_edge_density", "nsi_cross_transitivity",
    "nsi_cross_average_path_length",
]
SINGLE = [  # methods taking (node_list)
    "internal_adjacency", "internal_path_lengths", "number_internal_links", "internal_link_density",
    "internal_global_clustering", "internal_average_path_length", "internal_degree",
    "internal_indegree", "internal_outdegree", "internal_closeness", "internal_betweenness",
    "nsi_internal_degree", "nsi_internal_closeness_centrality", "nsi_internal_local_clustering",
]


def observe(net, L1, L2):
    o = {"s": {}, "v": {}, "m": {}, "nodes": {}, "x": {}}
    n1, n2, N = len(L1), len(L2), net.N

    def put(label, val, rows, cols):
        if hasattr(val, "toarray"):
            val = val.toarray()
        a = np.asarray(val)
        if a.ndim == 0:
            o["s"][label] = enc.num(a[()])
        elif a.ndim == 2 and a.shape == (rows, cols):
            o["m"][label] = enc.arr(a)
        elif a.ndim == 1 and label.endswith("betweenness") and a.shape[0] == N:
            o["nodes"][label] = enc.arr(a)
        elif a.ndim == 1 and a.shape[0] == rows:
            o["v"][label] = enc.arr(a)
        else:
            o["x"][label] = "shape%s" % (a.shape,)

    for name in PAIR:
        try:
            put(name, getattr(net, name)(list(L1), list(L2)), n1, n2)
        except Exception as ex:
            o["x"][name] = type(ex).__name__
    for name in SINGLE:
        try:
            put(name, getattr(net, name)(list(L1)), n1, n1)
        except Exception as ex:
            o["x"][name] = type(ex).__name__
    return o


def run_case(c):
    from pyunicorn.core import InteractingNetworks
    net = netcommon.build(c, cls=InteractingNetworks)
    L1 = [v - 1 for v in c["L1"]]
    L2 = [v - 1 for v in c["L2"]]
    allnodes = list(range(net.N))
    rec = dict(c)
    rec["obs"] = observe(net, L1, L2)
    rec["swap"] = observe(net, L2, L1)
    rec["whole"] = observe(net, allnodes, allnodes)
    plain = {"s": {}, "v": {}, "x": {}}
    for name in ("global_clustering", "transitivity", "average_path_length", "nsi_average_path_length",
                 "nsi_global_clustering", "nsi_transitivity", "link_density"):
        try:
            v = getattr(net, name)
            plain["s"][name] = enc.num(v() if callable(v) else v)
        except Exception as ex:
            plain["x"][name] = type(ex).__name__
    for name in ("degree", "indegree", "outdegree", "local_clustering", "closeness", "betweenness",
                 "nsi_degree", "nsi_local_clustering", "nsi_closeness", "nsi_betweenness"):
        try:
            plain["v"][name] = enc.arr(getattr(net, name)())
        except Exception as ex:
            plain["x"][name] = type(ex).__name__
    rec["plain"] = plain
    return rec


def _nontrivial(rec):
    return len(rec["L1"]) + len(rec["L2"]) >= 3 and sum(map(sum, rec["A"])) > 0


def main(ctx):
    cfg = "Gen_C11_" + ctx.tier
    cases = ctx.gen_cached("Gen_C11", cfg)
    ctx.exhaustive = True
    ctx.extra["rule"] = (
        "GEN (TLC, Gen_C11): every undirected graph up to NU nodes (directed up to ND) with every ordered pair of "
        "disjoint non-empty node sets up to NB nodes (content-derived pairs beyond), each list in a content-derived "
        "unsorted order, weights over {1,2,3}; every cross_/internal_/nsi_cross_/nsi_internal_ method is observed "
        "for (G1,G2), (G2,G1) and (all,all).  non-trivial = >=3 nodes in the two groups and >=1 link")
    ctx.extra["scope"] = open(os.path.join(os.path.dirname(__file__), "..", "spec", cfg + ".cfg")).read().split()
    recs = ctx.run_cases("props.c11.run_case", cases)
    ctx.validate("Val_C11", "Val_C11", recs, nontrivial=_nontrivial)


def replay(ctx, rep):
    rec = rep["record"]
    case = {k: v for k, v in rec.items() if k not in ("obs", "swap", "whole", "plain")}
    recs = ctx.run_cases("props.c11.run_case", [case], jobs=1)
    ctx.validate("Val_C11", "Val_C11", recs, nontrivial=_nontrivial)
