"""C12 - grid distances equal closed-form geometry and are metrics."""
import itertools
import os
import random

import numpy as np

from vlib import enc


def _geo(c):
    from pyunicorn.core import GeoGrid, GeoNetwork
    lat = enc.represent(c["lat"], c["case"])[0]
    lon = enc.represent(c["lon"], c["case"] + "lon")[0]
    g = GeoGrid(np.arange(3.0), lat, lon, silence_level=3)
    o = {"exc": ""}
    D = g.angular_distance()
    o["ang"] = enc.arr(D)
    o["sym"] = int(np.array_equal(D, D.T))
    o["coslat4"] = enc.arr(g.cos_lat(), 10**4)
    n = len(lat)
    rng = np.random.RandomState(len(lat))
    A = np.triu((rng.rand(n, n) < 0.3).astype(int), 1)
    A = A + A.T
    net = GeoNetwork(g, adjacency=A, node_weight_type="surface", silence_level=3)
    o["A"] = enc.ints(A)
    o["w4"] = enc.arr(net.node_weights, 10**4)
    o["tot4"] = enc.num(net.total_node_weight, 10**4)
    o["mean4"] = enc.num(net.mean_node_weight, 10**4)
    irr = GeoNetwork(g, adjacency=A, node_weight_type="irrigation", silence_level=3)
    o["irr4"] = enc.arr(irr.node_weights, 10**4)
    o["irrtot4"] = enc.num(irr.total_node_weight, 10**4)
    o["irrmean4"] = enc.num(irr.mean_node_weight, 10**4)
    sw = GeoNetwork(g, adjacency=A, node_weight_type=None, silence_level=3)
    sw.set_node_weight_type("irrigation")
    o["sw4"] = enc.arr(sw.node_weights, 10**4)
    o["swtot4"] = enc.num(sw.total_node_weight, 10**4)
    # history: other weights are assigned, then the SAME weight type is requested again - the weights in force are
    # again the cosines of latitude
    back = GeoNetwork(g, adjacency=A, node_weight_type="surface", silence_level=3)
    back.node_weights = np.full(n, 2.0)
    back.set_node_weight_type("surface")
    o["back4"] = enc.arr(back.node_weights, 10**4)
    o["backtot4"] = enc.num(back.total_node_weight, 10**4)
    o["awc6"] = enc.arr(net.area_weighted_connectivity())
    # the area-weighted connectivity is defined by the cosines of latitude, whatever n.s.i. weights are in force
    o["awc6_irr"] = enc.arr(irr.area_weighted_connectivity())
    o["awc6_none"] = enc.arr(GeoNetwork(g, adjacency=A, node_weight_type=None,
                                        silence_level=3).area_weighted_connectivity())
    o["awc6_in"] = enc.arr(irr.inarea_weighted_connectivity())
    o["awc6_out"] = enc.arr(sw.outarea_weighted_connectivity())
    o["maxld6"] = enc.arr(net.max_link_distance())
    # the grid's distances as they are served after the network has been analysed
    for q in (net.local_geographical_clustering, net.average_link_distance, net.total_link_distance,
              net.inaverage_link_distance, net.outaverage_link_distance, net.connectivity_weighted_distance,
              lambda: net.link_distance_distribution(4, "spherical"), lambda: net.average_link_distance(True),
              lambda: net.total_link_distance(True), lambda: net.geographical_distribution(lat, 3),
              lambda: g.geometric_distance_distribution(4), g.sin_lat, g.cos_lon, g.boundaries,
              # ... the Euclidean view of the same grid (default of link_distance_distribution)
              lambda: net.link_distance_distribution(4), g.euclidean_distance):
        try:
            q()
        except Exception:
            pass
    o["ang2"] = enc.arr(g.angular_distance())
    # ... and the coordinates the grid reports afterwards are the ones it was given (float32 of whole degrees)
    o["lat_after"] = enc.arr(g.lat_sequence(), 1)
    o["lon_after"] = enc.arr(g.lon_sequence(), 1)
    # a second grid built from what the first one reports now has the same distances
    g2 = GeoGrid(np.arange(3.0), np.array(g.lat_sequence()), np.array(g.lon_sequence()), silence_level=3)
    o["ang3"] = enc.arr(g2.angular_distance())
    return o


def _euc(c):
    from pyunicorn.core import Grid
    pts = np.array(c["pts"], dtype=float)
    g = Grid(np.arange(3.0), enc.represent(pts.T, c["case"])[0], silence_level=3)
    D = g.euclidean_distance()
    o = {"exc": "", "d3": enc.arr(D, 1000), "sym": int(np.array_equal(D, D.T)),
         "diag0": int(np.all(np.diag(D) == 0))}
    from pyunicorn.core import SpatialNetwork
    n = len(pts)
    rng = np.random.RandomState(n)
    A = np.triu((rng.rand(n, n) < 0.4).astype(int), 1)
    net = SpatialNetwork(g, adjacency=A + A.T, silence_level=3)
    for q in (net.average_link_distance, net.max_link_distance, net.outaverage_link_distance,
              lambda: net.link_distance_distribution(3, "euclidean"), net.inaverage_link_distance,
              lambda: g.geometric_distance_distribution(3) if hasattr(g, "geometric_distance_distribution") else None):
        try:
            q()
        except Exception:
            pass
    o["d3b"] = enc.arr(g.euclidean_distance(), 1000)
    # the same points translated by 4096 in every coordinate (map coordinates far from the origin)
    far = Grid(np.arange(3.0), (pts + 4096.0).T.copy(), silence_level=3)
    o["d3far"] = enc.arr(far.euclidean_distance(), 1000)
    # ... and by 2^23 in the FIRST coordinate only (a time stamp or an easting next to a fine coordinate; the
    # integer lattice stays exactly representable in single precision): offset / separation ~ 10^7
    # (the last coordinate is a FINE one, in sixteenths, when there is more than one)
    shift = np.zeros(pts.shape[1])
    shift[0] = 8388608.0
    fine = pts.copy()
    if pts.shape[1] > 1:
        fine[:, -1] /= 16.0
    near2 = Grid(np.arange(3.0), fine.T.copy(), silence_level=3)
    far2 = Grid(np.arange(3.0), (fine + shift).T.copy(), silence_level=3)
    o["d3near2"] = enc.arr(near2.euclidean_distance(), 1000)
    o["d3far2"] = enc.arr(far2.euclidean_distance(), 1000)
    # nearest-node lookup at integer query points (squared distances are exact)
    dim = pts.shape[1]
    qs = [[int(pts[k % len(pts)][j]) + ((k + j) % 3) - 1 for j in range(dim)] for k in range(min(6, 2 * len(pts)))]
    o["queries"] = qs
    o["nearest"] = [int(g.node_number(tuple(float(v) for v in q))) for q in qs]
    return o


def _rect(c):
    from pyunicorn.core import Grid, GeoGrid
    axes = [np.array(a, dtype=float) for a in c["axes"]]
    seq = Grid.coord_sequence_from_rect_grid(axes)
    o = {"exc": "", "seq": enc.ints(np.array(seq))}
    if len(axes) == 2:
        la, lo = GeoGrid.coord_sequence_from_rect_grid(axes[0], axes[1])
        o["geoseq"] = [enc.ints(la), enc.ints(lo)]
        # axes of DIFFERENT types: an integer-typed latitude axis with a longitude axis in quarters of a degree (and
        # the other way round, and plain Python lists) - recorded in quarters; the product is that of the values
        quarter = axes[1] + 0.25
        mixed = []
        for a0, a1 in ((axes[0].astype(np.int64), quarter), (axes[0].astype(np.int32), quarter.astype(np.float32)),
                       ([int(v) for v in axes[0]], [float(v) for v in quarter]), (axes[0] + 0.5, axes[1].astype(np.int64))):
            ml, mo = GeoGrid.coord_sequence_from_rect_grid(np.asarray(a0), np.asarray(a1))
            gm = GeoGrid.RegularGrid(np.arange(3.0), (np.asarray(a0), np.asarray(a1)), silence_level=3)
            mixed.append({"lat4": enc.ints(np.round(4 * np.asarray(ml, dtype=float))),
                          "lon4": enc.ints(np.round(4 * np.asarray(mo, dtype=float))),
                          "glat4": enc.ints(np.round(4 * np.asarray(gm.lat_sequence(), dtype=float))),
                          "glon4": enc.ints(np.round(4 * np.asarray(gm.lon_sequence(), dtype=float))),
                          "ax0": enc.ints(np.round(4 * np.asarray(a0, dtype=float))),
                          "ax1": enc.ints(np.round(4 * np.asarray(a1, dtype=float)))})
        o["mixed"] = mixed
    else:
        o["geoseq"] = []
        o["mixed"] = []
    # the grid objects built from the same axes: node coordinates, sizes, longitude convention
    tseq = np.arange(3.0)
    rg = Grid.RegularGrid(tseq, [a.copy() for a in axes], silence_level=3)
    o["regseq"] = [enc.ints(rg.sequence(k)) for k in range(len(axes))]
    o["regN"] = int(rg.N)
    o["regsize"] = [int(rg.grid_size()["time"]), int(rg.grid_size()["space"])]
    if len(axes) == 2:
        gg = GeoGrid.RegularGrid(tseq, (axes[0].copy(), axes[1].copy()), silence_level=3)
        o["georegseq"] = [enc.ints(gg.lat_sequence()), enc.ints(gg.lon_sequence())]
        # longitudes given in 0..360 (the second axis shifted into that range) in the -180..180 convention
        # nodes inside an axis-parallel rectangle (no node on its boundary): latitudes up to the median axis
        # value, every longitude but the smallest; polygon given as lon, lat, lon, lat, ...
        lat_s, lon_s = np.sort(axes[0]), np.sort(axes[1])
        la_lo, la_hi = lat_s[0] - 0.5, lat_s[len(lat_s) // 2] + 0.5
        lo_lo, lo_hi = lon_s[0] + 0.25, lon_s[-1] + 0.75
        region = np.array([lo_lo, la_lo, lo_lo, la_hi, lo_hi, la_hi, lo_hi, la_lo])
        o["reg4"] = [int(round(4 * v)) for v in (la_lo, la_hi, lo_lo, lo_hi)]
        o["inside"] = [int(bool(v)) for v in gg.region_indices(region)]
        lon360 = np.mod(np.asarray(gg.lon_sequence(), dtype=float), 360.0)
        o["lon360"] = enc.ints(lon360)
        o["lon180"] = enc.ints(gg.convert_lon_coordinates(lon360))
    else:
        o["georegseq"], o["lon360"], o["lon180"], o["reg4"], o["inside"] = [], [], [], [], []
    return o


def _look(c):
    from pyunicorn.core import GeoGrid
    g = GeoGrid(np.arange(3.0), np.array(c["lat"], dtype=float), np.array(c["lon"], dtype=float), silence_level=3)
    return {"exc": "", "node": int(g.node_number(float(c["q"][0]), float(c["q"][1])))}


def _gen(c):
    """Integer-degree points in general position: the angular distances at a resolution of 10^-8 rad."""
    from pyunicorn.core import GeoGrid
    lat = enc.represent(c["lat"], c["case"])[0]
    lon = enc.represent(c["lon"], c["case"] + "lon")[0]
    g = GeoGrid(np.arange(3.0), lat, lon, silence_level=3)
    D = np.asarray(g.angular_distance(), dtype=float)
    return {"exc": "", "ang8": enc.arr(D, 10**8), "sym": int(np.array_equal(D, D.T))}


def run_case(c):
    rec = dict(c)
    try:
        rec["obs"] = {"geo": _geo, "euc": _euc, "rect": _rect, "look": _look, "rand": _rand, "gen": _gen,
                      "glook": _look}[c["blk"]](c)
    except Exception as ex:
        rec["obs"] = {"exc": type(ex).__name__}
    return rec


def _rand(c):
    """General position: only the relational clauses (recorded matrices)."""
    from pyunicorn.core import GeoGrid, Grid
    rng = np.random.RandomState(c["rseed"])
    n = c["n"]
    lat = rng.uniform(-90, 90, n)
    lon = rng.uniform(-180, 180, n)
    lat[0], lat[1] = 90.0, -90.0                 # poles
    lon[2], lon[3] = 180.0, -180.0               # antimeridian twice
    lat[3] = lat[2]                              # coincident up to the longitude convention
    lat[4], lon[4] = -lat[5], lon[5] - 180.0 if lon[5] > 0 else lon[5] + 180.0   # antipodal pair
    g = GeoGrid(np.arange(3.0), lat, lon, silence_level=3)
    D = g.angular_distance()
    pts = rng.uniform(-5, 5, (3, n))
    E = Grid(np.arange(3.0), pts, silence_level=3).euclidean_distance()
    return {"exc": "", "ang": enc.arr(D), "sym": int(np.array_equal(D, D.T)),
            "euc": enc.arr(E), "esym": int(np.array_equal(E, E.T)), "ediag0": int(np.all(np.diag(E) == 0))}


def _nontrivial(rec):
    return True


def main(ctx):
    cfg = "Gen_C12_" + ctx.tier
    cases = ctx.gen_cached("Gen_C12", cfg)
    nr = 20 if ctx.tier == "quick" else 300
    cases = cases + [{"case": "rnd%d" % k, "blk": "rand", "n": 8 + k % 5, "rseed": ctx.seed * 1000 + k}
                     for k in range(nr)]
    ctx.exhaustive = False
    ctx.extra["rule"] = (
        "GEN (TLC, Gen_C12): grids of integer-degree points incl. both poles, -180/180 and 0/360 longitudes, "
        "coincident and antipodal points (every pair whose great-circle angle is a whole number of degrees is "
        "compared with it), integer lattices in 1-4 dimensions (exact squared distances), rectangular grids, "
        "nearest-node queries with exact distances; seeded general-position coordinates for the relational clauses "
        "(exact symmetry, range, self-distance, triangle inequality with 2^-10 slack).  non-trivial = every case")
    ctx.extra["scope"] = open(os.path.join(os.path.dirname(__file__), "..", "spec", cfg + ".cfg")).read().split()
    recs = ctx.run_cases("props.c12.run_case", cases)
    ctx.validate("Val_C12", "Val_C12", recs, nontrivial=_nontrivial)


def replay(ctx, rep):
    rec = rep["record"]
    case = {k: v for k, v in rec.items() if k != "obs"}
    recs = ctx.run_cases("props.c12.run_case", [case], jobs=1)
    ctx.validate("Val_C12", "Val_C12", recs, nontrivial=_nontrivial)
