"""C13 - data windows select exactly the requested samples; anomalies sum."""
import os

import numpy as np

from vlib import enc


def _observe(cd, toff=0, tscale=1.0):
    o = {"exc": ""}
    try:
        o["observable"] = enc.ints(cd.observable())
        g = cd.grid.grid()
        o["time"] = enc.ints(np.rint((np.asarray(g["time"], dtype=float) - toff) / tscale).astype(int))
        o["lat"] = enc.ints(g["lat"])
        o["lon"] = enc.ints(g["lon"])
        w = cd.window()
        o["window"] = [int(np.rint((w[k] - toff) / tscale)) if k.startswith("time") else int(w[k])
                       for k in ("time_min", "time_max", "lat_min", "lat_max", "lon_min", "lon_max")]
        o["phase_indices"] = enc.ints(cd.phase_indices())
        o["phase_mean"] = enc.arr(cd.phase_mean())
        o["anomaly"] = enc.arr(cd.anomaly())
        # the time indices of the first and the last phase of the cycle, sorted
        sel = sorted({0, cd.time_cycle - 1})
        o["sel_phases"] = sel
        o["isp"] = enc.ints(cd.indices_selected_phases(sel))
        # every column of the shuffled anomaly is a rearrangement of the same column of the anomaly
        o["shuffled"] = enc.arr(cd.shuffled_anomaly())
        # ... and producing it leaves the anomaly, the phase means and the observable as they were
        o["anomaly_after"] = enc.arr(cd.anomaly())
        o["phase_mean_after"] = enc.arr(cd.phase_mean())
        o["observable_after"] = enc.ints(cd.observable())
    except Exception as ex:
        o["exc"] = type(ex).__name__
    return {"op": "observe", "obs": o}


def run_case(c):
    from pyunicorn.core import GeoGrid
    from pyunicorn.climate import ClimateData
    d = c["data"]
    # every third behaviour is replayed with all time coordinates (samples and window bounds) translated by
    # 2^21 - a record in "hours since ..." - and translated back in what is recorded: the window semantics
    # do not depend on the origin of the time axis
    import zlib
    pick = zlib.crc32(c["case"].encode()) % 3
    toff = 2097152.0 if pick == 0 else 0.0
    # ... and every third with a DECIMAL time axis (t -> 1950 + (t + 1) / 24: mid-month dates in years, none of
    # them representable in single precision); bounds on a sample are the sample's own double value
    tscale = 1.0
    if pick == 1:
        toff, tscale = 1950.0 + 1.0 / 24.0, 1.0 / 24.0
    grid = GeoGrid(np.array(d["time"], dtype=float) * tscale + toff, np.array(d["lat"], dtype=float),
                   np.array(d["lon"], dtype=float), silence_level=3)
    obs, rep = enc.represent(d["obs"], c["case"])
    cd = ClimateData(obs, grid, d["cycle"], anomalies=bool(d["anom"]), silence_level=3)
    events = [{"op": "construct"}, _observe(cd, toff, tscale)]
    for s in c["steps"]:
        exc = ""
        try:
            if s["op"] == "set_window":
                w = s["w"]
                cd.set_window({"time_min": float(w["tmin"]) * tscale + toff,
                               "time_max": float(w["tmax"]) * tscale + toff,
                               "lat_min": float(w["latmin"]), "lat_max": float(w["latmax"]),
                               "lon_min": float(w["lonmin"]), "lon_max": float(w["lonmax"])})
            elif s["op"] == "set_window_current":
                cd.set_window(cd.window())
            else:
                cd.set_global_window()
        except Exception as ex:           # the exception of a window change IS the observation of that step
            exc = s["op"] + ":" + type(ex).__name__
        events.append(s)
        ob = _observe(cd, toff, tscale)
        if exc:
            ob["obs"] = {"exc": exc}
        events.append(ob)
    rec = dict(c)
    rec["events"] = events
    rec["repr"] = rep + (",decimal_time" if pick == 1 else ",time_offset" if toff else "")
    return rec


def _nontrivial(rec):
    return any(s["op"] in ("set_window", "set_window_current") for s in rec["steps"])


def main(ctx):
    cfg = "Gen_C13_" + ctx.tier
    cases = ctx.gen_cached("Gen_C13", cfg)
    ctx.exhaustive = True
    ctx.extra["rule"] = (
        "GEN (TLC, Gen_C13): behaviours of DataSM = Construct followed by <=3 window changes over the window "
        "alphabet (bounds on / between / outside the samples, equal-bounds conventions), data sets with cycle 1..4 "
        "(dividing or not) and both anomalies flags; after every step all observations are recorded and the "
        "trace is replayed through DataSM by TLC.  non-trivial = at least one proper set_window step")
    ctx.extra["scope"] = open(os.path.join(os.path.dirname(__file__), "..", "spec", cfg + ".cfg")).read().split()
    recs = ctx.run_cases("props.c13.run_case", cases)
    ctx.validate("Val_C13", "Val_C13", recs, nontrivial=_nontrivial)


def replay(ctx, rep):
    rec = rep["record"]
    case = {k: v for k, v in rec.items() if k not in ("events", "repr")}
    recs = ctx.run_cases("props.c13.run_case", [case], jobs=1)
    ctx.validate("Val_C13", "Val_C13", recs, nontrivial=_nontrivial)
