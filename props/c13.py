"""C13 - data windows select exactly the requested samples; anomalies sum."""
import os

import numpy as np

from vlib import enc


def _observe(cd, toff=0):
    o = {"exc": ""}
    try:
        o["observable"] = enc.ints(cd.observable())
        g = cd.grid.grid()
        o["time"] = enc.ints(np.asarray(g["time"], dtype=float) - toff)
        o["lat"] = enc.ints(g["lat"])
        o["lon"] = enc.ints(g["lon"])
        w = cd.window()
        o["window"] = [int(w[k] - (toff if k.startswith("time") else 0))
                       for k in ("time_min", "time_max", "lat_min", "lat_max", "lon_min", "lon_max")]
        o["phase_indices"] = enc.ints(cd.phase_indices())
        o["phase_mean"] = enc.arr(cd.phase_mean())
        o["anomaly"] = enc.arr(cd.anomaly())
        # the time indices of the first and the last phase of the cycle, sorted
        sel = sorted({0, cd.time_cycle - 1})
        o["sel_phases"] = sel
        o["isp"] = enc.ints(cd.indices_selected_phases(sel))
        # every column of the shuffled anomaly is a rearrangement of the same column of the anomaly
        o["shuffled"] = enc.arr(cd.shuffled_anomaly())
        # ... and producing it leaves the anomaly, the phase means and the observable as they were
        o["anomaly_after"] = enc.arr(cd.anomaly())
        o["phase_mean_after"] = enc.arr(cd.phase_mean())
        o["observable_after"] = enc.ints(cd.observable())
    except Exception as ex:
        o["exc"] = type(ex).__name__
    return {"op": "observe", "obs": o}


def run_case(c):
    from pyunicorn.core import GeoGrid
    from pyunicorn.climate import ClimateData
    d = c["data"]
    # every third behaviour is replayed with all time coordinates (samples and window bounds) translated by
    # 2^21 - a record in "hours since ..." - and translated back in what is recorded: the window semantics
    # do not depend on the origin of the time axis
    import zlib
    toff = 2097152.0 if zlib.crc32(c["case"].encode()) % 3 == 0 else 0.0
    grid = GeoGrid(np.array(d["time"], dtype=float) + toff, np.array(d["lat"], dtype=float),
                   np.array(d["lon"], dtype=float), silence_level=3)
    obs, rep = enc.represent(d["obs"], c["case"])
    cd = ClimateData(obs, grid, d["cycle"], anomalies=bool(d["anom"]), silence_level=3)
    events = [{"op": "construct"}, _observe(cd, toff)]
    for s in c["steps"]:
        if s["op"] == "set_window":
            w = s["w"]
            cd.set_window({"time_min": float(w["tmin"]) + toff, "time_max": float(w["tmax"]) + toff,
                           "lat_min": float(w["latmin"]), "lat_max": float(w["latmax"]),
                           "lon_min": float(w["lonmin"]), "lon_max": float(w["lonmax"])})
        elif s["op"] == "set_window_current":
            cd.set_window(cd.window())
        else:
            cd.set_global_window()
        events.append(s)
        events.append(_observe(cd, toff))
    rec = dict(c)
    rec["events"] = events
    rec["repr"] = rep + (",time_offset" if toff else "")
    return rec


def _nontrivial(rec):
    return any(s["op"] in ("set_window", "set_window_current") for s in rec["steps"])


def main(ctx):
    cfg = "Gen_C13_" + ctx.tier
    cases = ctx.gen_cached("Gen_C13", cfg)
    ctx.exhaustive = True
    ctx.extra["rule"] = (
        "GEN (TLC, Gen_C13): behaviours of DataSM = Construct followed by <=3 window changes over the window "
        "alphabet (bounds on / between / outside the samples, equal-bounds conventions), data sets with cycle 1..4 "
        "(dividing or not) and both anomalies flags; after every step all observations are recorded and the "
        "trace is replayed through DataSM by TLC.  non-trivial = at least one proper set_window step")
    ctx.extra["scope"] = open(os.path.join(os.path.dirname(__file__), "..", "spec", cfg + ".cfg")).read().split()
    recs = ctx.run_cases("props.c13.run_case", cases)
    ctx.validate("Val_C13", "Val_C13", recs, nontrivial=_nontrivial)


def replay(ctx, rep):
    rec = rep["record"]
    case = {k: v for k, v in rec.items() if k not in ("events", "repr")}
    recs = ctx.run_cases("props.c13.run_case", [case], jobs=1)
    ctx.validate("Val_C13", "Val_C13", recs, nontrivial=_nontrivial)
