"""C14 - visibility graphs realise the geometric visibility criterion."""
import numpy as np

from vlib import enc

MEASURES = ["degree", "retarded_degree", "advanced_degree",
            "retarded_local_clustering", "advanced_local_clustering",
            "retarded_closeness", "advanced_closeness",
            "retarded_betweenness", "advanced_betweenness", "trans_betweenness",
            "boundary_corrected_degree", "boundary_corrected_closeness",
            "boundary_corrected_betweenness"]


def _observe(kind, x, t, mvflag, tnone, reverse=False):
    from pyunicorn.timeseries import VisibilityGraph
    o = {"exc": "", "adj": [], "m": {}, "vis": [], "vis1": []}
    x = np.array(x, dtype=float)
    vg, exc = enc.call(VisibilityGraph, x if np.isnan(x).any() else enc.represent(x, repr(list(x)))[0],
                       timings=None if tnone else enc.represent(t, repr(list(t)))[0],
                       missing_values=bool(mvflag), horizontal=(kind == "hor"),
                       silence_level=3)
    if exc:
        o["exc"] = "VisibilityGraph.__init__:" + exc
        return o
    o["adj"] = enc.ints(vg.adjacency)
    n = vg.N
    try:
        o["vis"] = [[int(bool(vg.visibility(a, b))) for b in range(n)] for a in range(n)]
        o["vis1"] = [[int(bool(v)) for v in vg.visibility_single(a)] for a in range(n)]
    except Exception as ex:
        o["exc"] = "visibility:" + type(ex).__name__
        return o
    # first pass in the listed (or the opposite) order, then every measure once more: a measure is a function
    # of the graph, not of what has been asked before
    o["m2"] = {}
    for key, order in (("m", MEASURES[::-1] if reverse else MEASURES), ("m2", MEASURES)):
        for m in order:
            if not hasattr(vg, m):
                continue
            v, exc = enc.call(getattr(vg, m))
            if exc:
                o["exc"] = m + ":" + exc
                return o
            o[key][m] = enc.arr(v)
    return o


def run_case(c):
    x = np.array(c["x"], dtype=float)
    t = np.array(c["t"], dtype=float)
    mv = np.array(c["mv"], dtype=bool)
    xs = x.copy()
    xs[mv] = np.nan
    rec = dict(c)
    rec["obs"] = _observe(c["kind"], xs, t, c["mvflag"], c["tnone"])
    # Derive: time reversal (values reversed, times mirrored)
    tr = (t[-1] - t)[::-1]
    rec["rev"] = _observe(c["kind"], xs[::-1], tr, c["mvflag"], c["tnone"], reverse=True)
    # Derive: positive dyadic affine map of values and of times
    a = c["aff"]
    xa = xs * a["xm"][0] / a["xm"][1] + a["xa"]
    ta = t * a["tm"][0] / a["tm"][1] + a["ta"]
    rec["affobs"] = _observe(c["kind"], xa, ta, c["mvflag"], 0 if c["kind"] == "nat" else c["tnone"])
    # Derive: a change of UNITS by extreme powers of two (exact in single precision): values in units of 2^-90
    # with times in units of 2^-70, or 2^70 / 2^60, chosen by the case - only the adjacency is compared
    import zlib
    big = zlib.crc32(c["case"].encode()) % 2 == 1
    xe = xs * (2.0 ** 70 if big else 2.0 ** -90)
    te = t * (2.0 ** 60 if big else 2.0 ** -70)
    try:
        from pyunicorn.timeseries import VisibilityGraph
        vg = VisibilityGraph(xe, timings=te, missing_values=bool(c["mvflag"]), horizontal=(c["kind"] == "hor"),
                             silence_level=3)
        rec["unitadj"], rec["unitexc"] = enc.ints(vg.adjacency), ""
    except Exception as ex:
        rec["unitadj"], rec["unitexc"] = [], type(ex).__name__
    return rec


def _nontrivial(rec):
    # more than two samples and at least one non-adjacent pair decided either way
    n = len(rec["x"])
    return n >= 3


def main(ctx):
    cfg = "Gen_C14_" + ctx.tier
    cases = ctx.gen_cached("Gen_C14", cfg)
    ctx.exhaustive = True
    ctx.extra["rule"] = (
        "GEN (TLC, Gen_C14): every series over a small alphabet up to the cfg length, "
        "all increasing integer timings, all missing masks of weight<=2, both graph types; "
        "each replayed on the input, its time reversal and a dyadic affine image. "
        "non-trivial = at least 3 samples (some pair has an intermediate sample); "
        "distinct = distinct (kind, x, t, mask)")
    ctx.extra["scope"] = open(__import__("os").path.join(
        __import__("vlib.tlc", fromlist=["x"]).SPEC_DIR, cfg + ".cfg")).read().split()
    recs = ctx.run_cases("props.c14.run_case", cases)
    ctx.validate("Val_C14", "Val_C14", recs, nontrivial=_nontrivial)


def replay(ctx, rep):
    rec = rep["record"]
    case = {k: rec[k] for k in ("case", "blk", "kind", "x", "t", "mv", "tnone", "mvflag", "aff")}
    recs = ctx.run_cases("props.c14.run_case", [case], jobs=1)
    ctx.validate("Val_C14", "Val_C14", recs, nontrivial=_nontrivial)
