"""C15 - surrogates preserve exactly what each method promises."""
import os
import random as pyrandom

import numpy as np

from vlib import enc


def run_case(c):
    from pyunicorn.timeseries import Surrogates
    np.random.seed(c["seed"])
    pyrandom.seed(c["seed"])
    rec = dict(c)
    o = {"exc": ""}
    try:
        if c["blk"] == "spec":
            data = np.array(c["data"], dtype=float)
            s = Surrogates(original_data=enc.represent(data, c["case"])[0], silence_level=3)
            last = {}
            for _ in range(c["k"]):          # k repeated calls on one object; the last is recorded
                last["white"] = s.white_noise_surrogates()
                last["corr"] = s.correlated_noise_surrogates()
                last["aaft"] = s.AAFT_surrogates()
                amp, spec = s.refined_AAFT_surrogates(4, output="both")
                last["ramp"], last["rspec"] = amp, spec
            for key, v in last.items():
                o[key] = enc.arr(v, 1000)
            o["data_after"] = enc.arr(s.original_data, 1000)
            # the documented in-place normalisation, then the same surrogates again on the same object: they
            # are surrogates of the data the object holds NOW
            # (the in-place normalisation is defined for floating-point data: an integer array is refused
            # by numpy's casting rule - not a wrong result, so that representation skips the stage)
            # (... and a read-only array cannot be normalised in place either)
            if all(np.std(row) > 0 for row in data) and np.asarray(s.original_data).dtype.kind == "f" \
                    and np.asarray(s.original_data).flags.writeable:
                s.normalize_original_data()
                o["data_norm"] = enc.arr(s.original_data, 1000)
                o["n_corr"] = enc.arr(s.correlated_noise_surrogates(), 1000)
                o["n_aaft"] = enc.arr(s.AAFT_surrogates(), 1000)
                amp, spec = s.refined_AAFT_surrogates(4, output="both")
                o["n_ramp"], o["n_rspec"] = enc.arr(amp, 1000), enc.arr(spec, 1000)
        else:
            x = np.array([c["x"], c["x2"]], dtype=float)
            s = Surrogates(original_data=enc.represent(x, c["case"])[0], silence_level=3)
            if c.get("prior"):
                import zlib
                try:
                    if zlib.crc32(c["case"].encode()) % 2:
                        # a prior call with the SAME parameters, then a foreign embedding assigned through the
                        # public setter: the next call must embed again
                        s.twin_surrogates(dimension=c["dim"], delay=1, threshold=float(c["thr"]), min_dist=c["md"])
                        s.embedding = s.embed_time_series_array(s.original_data, 3 - c["dim"], 1)
                    else:
                        s.twin_surrogates(dimension=3 - c["dim"], delay=1, threshold=float(c["thr"]), min_dist=c["md"])
                except Exception:
                    pass
            surr = s.twin_surrogates(dimension=c["dim"], delay=1, threshold=float(c["thr"]), min_dist=c["md"])
            tw = s.twins(float(c["thr"]), min_dist=c["md"])
            o["twins"] = [[int(v) for v in t] for t in tw[0]]
            o["surr"] = [int(round(v)) for v in surr[0]]
            o["twins2"] = [[int(v) for v in t] for t in tw[1]]
            o["surr2"] = [int(round(v)) for v in surr[1]]
            # the same promise made by RecurrencePlot.twins / twin_surrogates (first series)
            from pyunicorn.timeseries import RecurrencePlot
            rp = RecurrencePlot(np.array(c["x"], dtype=float), dim=c["dim"], tau=1, metric="supremum",
                                threshold=float(c["thr"]), silence_level=3)
            n = rp.N
            o["rp_twins"] = [sorted(int(v) for v in t) for t in rp.twins(min_dist=c["md"])[:n]]
            ts = rp.twin_surrogates(n_surrogates=2, min_dist=c["md"])
            o["rp_surr"] = [int(round(v)) for v in ts[1, :, 0]]
            o["rp_shape"] = [int(v) for v in ts.shape]
            # re-threshold the same object: below the smallest non-zero distance every state recurs only with
            # itself (no twins at all), back at 8 the twins are those of the first matrix again
            rp.set_fixed_threshold(0.5)
            o["rp_twins_low"] = [len(t) for t in rp.twins(min_dist=c["md"])[:n]]
            rp.set_fixed_threshold(float(c["thr"]))
            o["rp_twins_back"] = [sorted(int(v) for v in t) for t in rp.twins(min_dist=c["md"])[:n]]
            # the network subclass shares the recurrence matrix with its plot part: after re-thresholding through
            # each setter its twins are those of a fresh plot with that setting
            from pyunicorn.timeseries import RecurrenceNetwork
            xs = np.array(c["x"], dtype=float)
            kw = dict(dim=c["dim"], tau=1, metric="supremum", silence_level=3)
            rn = RecurrenceNetwork(xs, threshold=0.5, **kw)
            rn.set_fixed_recurrence_rate(0.3)
            o["rn_twins_rr"] = [sorted(int(v) for v in t) for t in rn.twins(min_dist=c["md"])[:n]]
            o["rp_twins_rr"] = [sorted(int(v) for v in t) for t in
                                RecurrencePlot(xs, recurrence_rate=0.3, **kw).twins(min_dist=c["md"])[:n]]
            rn.set_fixed_threshold(float(c["thr"]))
            o["rn_twins_thr"] = [sorted(int(v) for v in t) for t in rn.twins(min_dist=c["md"])[:n]]
    except Exception as ex:
        o["exc"] = type(ex).__name__
    rec["obs"] = o
    return rec


def run_bigtwin(c):
    """A period-q series of n samples (values t mod q, threshold 1/2): the twins of a state are exactly the states
    of the same phase further apart than min_dist - a closed form that Val_C15 proves against the definition on
    the small instances and applies to the large ones (more than 127 / 255 samples and neighbours)."""
    from pyunicorn.timeseries import RecurrencePlot, Surrogates
    n, q, md = c["n"], c["q"], c["md"]
    x = np.arange(n) % q
    rec = dict(c)
    o = {"exc": "", "rp_twins": [], "s_twins": []}
    try:
        rp = RecurrencePlot(x.astype(float), metric="supremum", threshold=0.5, silence_level=3)
        o["rp_twins"] = [sorted(int(v) for v in t) for t in rp.twins(min_dist=md)[:n]]
        s = Surrogates(original_data=x.astype(float).reshape(1, -1), silence_level=3)
        s.embedding = s.embed_time_series_array(s.original_data, 1, 1)
        o["s_twins"] = [sorted(int(v) for v in t) for t in s.twins(0.5, min_dist=md)[0]]
    except Exception as ex:
        o["exc"] = type(ex).__name__
    rec["obs"] = o
    return rec


class _Script:
    """Scripted replacement of random.random: the draws of a TwinWalkSM behaviour, in order."""

    def __init__(self, values):
        self.values, self.used = list(values), 0

    def next(self):
        if self.used >= len(self.values):
            raise IndexError("random source exhausted")
        v = self.values[self.used]
        self.used += 1
        return v


def run_walk(c):
    """Replay of one TwinWalkSM behaviour on Surrogates.twin_surrogates (one series): the twin walk kernel draws
    from Python's `random.random`, which is replaced by the scripted draws (c + 1/2) / m for the duration of
    the call."""
    import random as pyrandom
    from pyunicorn.timeseries import Surrogates
    x = np.array([[16.0 * v + t for t, v in enumerate(c["p"])]])
    rec = dict(c)
    o = {"exc": "", "twins": [], "surr": [], "used": 0}
    s = Surrogates(original_data=x, silence_level=3)
    script = _Script([(d[1] + 0.5) / d[0] for d in c["draws"]])
    saved = pyrandom.random
    try:
        s.embedding = s.embed_time_series_array(s.original_data, c["dim"], 1)
        o["twins"] = [[int(v) for v in t] for t in s.twins(float(c["thr"]), min_dist=c["md"])[0]]
        pyrandom.random = script.next
        surr = s.twin_surrogates(dimension=c["dim"], delay=1, threshold=float(c["thr"]), min_dist=c["md"])
        o["surr"] = [int(round(v)) for v in surr[0]]
    except Exception as ex:
        o["exc"] = type(ex).__name__
    finally:
        pyrandom.random = saved
    o["used"] = script.used
    rec["obs"] = o
    return rec


def _nontrivial(rec):
    if rec["blk"] == "bigtwin":
        return True
    if rec["blk"] == "walk":
        return len(rec["draws"]) >= 2
    if rec["blk"] == "spec":
        return True
    return any(len(t) for t in rec["obs"].get("twins", []) + rec["obs"].get("twins2", []))


def main(ctx):
    cfg = "Gen_C15_" + ctx.tier
    cases = ctx.gen_cached("Gen_C15", cfg)
    ctx.exhaustive = False
    ctx.extra["rule"] = (
        "GEN (TLC, Gen_C15): data sets of every length 3..12 (odd and even) x repeated calls k in {1,2,3,5} on one "
        "object x seeds for shuffle / Fourier / AAFT / refined AAFT surrogates; every pattern over {0,1,2} of the "
        "cfg length (states recur exactly when the patterns agree) x embedding dimension x min_dist for twins and "
        "twin surrogates.  TLC decides permutation-exactness per row, the amplitude spectrum at every non-zero, "
        "non-Nyquist frequency (fixed-point DFT with generated cos/sin tables), TwinsDef and the twin-walk "
        "transition structure.  non-trivial (twin block) = the pattern has at least one twin pair")
    ctx.extra["scope"] = open(os.path.join(os.path.dirname(__file__), "..", "spec", cfg + ".cfg")).read().split()
    recs = ctx.run_cases("props.c15.run_case", cases)
    # periodic series: small instances (closed form proved against the definition) and large ones
    big = [{"case": "p%d_%d_%d" % (n, q, md), "blk": "bigtwin", "n": n, "q": q, "md": md}
           for n in ((6, 9, 12, 140, 300) if ctx.tier == "quick" else (5, 6, 7, 9, 10, 12, 130, 140, 260, 300, 520))
           for q in (2, 3) for md in (0, 2)]
    recs += ctx.run_cases("props.c15.run_bigtwin", big)
    ctx.validate("Val_C15", "Val_C15", recs, nontrivial=_nontrivial)
    # ---- the twin walk, choice by choice: behaviours of TwinWalkSM replayed with a scripted random source
    from vlib.core import Machinery
    r = ctx.tlc("TwinWalkSM", "Gen_C15w_" + ctx.tier, workers=1)
    if r.error or r.violated or r.rc != 0:
        raise Machinery("TwinWalkSM: design-level check / GEN failed\n" + r.out[-2000:])
    hs = [t for t in r.tuples if t and t[0] == "H"]
    ctx.stages.append({"stage": "DESIGN+GEN TwinWalkSM/Gen_C15w_" + ctx.tier + " (WalkInv, DeterminedByDraws)",
                       "states": r.distinct, "behaviours": len(hs)})
    walks = [{"case": "w%d" % k, "blk": "walk", "p": list(h[1]), "dim": h[2], "md": h[3], "thr": h[4],
              "draws": [list(d) for d in h[5]]} for k, h in enumerate(hs)]
    wrecs = ctx.run_cases("props.c15.run_walk", walks)
    ctx.validate("Val_C15w", "Val_C15w_" + ctx.tier, wrecs, stage="Val_C15w", nontrivial=_nontrivial)


def replay(ctx, rep):
    rec = rep["record"]
    if rec.get("blk") == "bigtwin":
        case = {k: v for k, v in rec.items() if k != "obs"}
        recs = ctx.run_cases("props.c15.run_bigtwin", [case], jobs=1)
        ctx.validate("Val_C15", "Val_C15", recs, nontrivial=_nontrivial)
        return
    if rec.get("blk") == "walk":
        case = {k: v for k, v in rec.items() if k != "obs"}
        wrecs = ctx.run_cases("props.c15.run_walk", [case], jobs=1)
        ctx.validate("Val_C15w", "Val_C15w_thorough", wrecs, stage="Val_C15w", nontrivial=_nontrivial)
        return
    case = {k: v for k, v in rec.items() if k != "obs"}
    recs = ctx.run_cases("props.c15.run_case", [case], jobs=1)
    ctx.validate("Val_C15", "Val_C15", recs, nontrivial=_nontrivial)
