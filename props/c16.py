"""C16 - event synchronisation / coincidence follow their counting rules."""
import os

import numpy as np

from vlib import enc


def _call(o, key, fn, *a, **k):
    v, exc = enc.call(fn, *a, **k)
    o[key + "_exc"] = exc
    o[key] = [enc.num(x) for x in v] if not exc else []


def _pair(c):
    from pyunicorn.eventseries import EventSeries as ES
    x = np.array(c["x"])
    y = np.array(c["y"])
    den = float(c["den"])
    ts = np.array(c["ts"], dtype=float) / den
    tsa = None if c["unit"] else ts
    tm = np.inf if c["tm"] == enc.INF else c["tm"] / den
    lag = c["lag"] / den
    o = {}
    _call(o, "es", ES.event_synchronization, x, y, ts1=tsa, ts2=tsa, taumax=tm, lag=lag)
    _call(o, "es_sw", ES.event_synchronization, y, x, ts1=tsa, ts2=tsa, taumax=tm, lag=lag)
    tss = ts + c["shift"] / den
    _call(o, "es_shift", ES.event_synchronization, x, y, ts1=tss, ts2=tss, taumax=tm, lag=lag)
    # translation by 2^25 time units (dates as day / second counts): exact in double precision
    tsb = ts + 2.0**25
    _call(o, "es_bigshift", ES.event_synchronization, x, y, ts1=tsb, ts2=tsb, taumax=tm, lag=lag)
    # a change of the time UNIT (all times, the window and the lag multiplied by 2^-40 or 2^30 - exact in double
    # precision): the counting formulas are homogeneous, the strengths do not change
    for nm, f in (("es_tiny", 2.0**-40), ("es_huge", 2.0**30)):
        _call(o, nm, ES.event_synchronization, x, y, ts1=ts * f, ts2=ts * f, taumax=tm * f, lag=lag * f)
    if c["tm"] == enc.INF:
        tsc = ts * c["scale"]
        _call(o, "es_scale", ES.event_synchronization, x, y, ts1=tsc, ts2=tsc, taumax=tm,
              lag=lag * c["scale"])
    else:
        _call(o, "eca", ES.event_coincidence_analysis, x, y, tm, ts1=tsa, ts2=tsa, lag=lag)
        _call(o, "eca_sw", ES.event_coincidence_analysis, y, x, tm, ts1=tsa, ts2=tsa, lag=lag)
        _call(o, "eca_shift", ES.event_coincidence_analysis, x, y, tm, ts1=tss, ts2=tss, lag=lag)
        _call(o, "eca_bigshift", ES.event_coincidence_analysis, x, y, tm, ts1=tsb, ts2=tsb, lag=lag)
    for k in ("es", "es_sw", "es_shift"):
        if o[k + "_exc"]:
            o["es_exc"] = o[k + "_exc"]
    return o


def _mat(c):
    from pyunicorn.eventseries import EventSeries as ES
    data = np.array(c["cols"]).T
    den = float(c["den"])
    ts = None if c["unit"] else np.array(c["ts"], dtype=float) / den
    tm = np.inf if c["tm"] == enc.INF else c["tm"] / den
    o = {"exc": "", "es": {}, "eca": {}}
    try:
        import zlib
        r = zlib.crc32(c["case"].encode())
        if (r // 7) % 2:
            data = np.asfortranarray(data)          # the same event matrix in column-major layout
        es = ES(data, timestamps=ts, taumax=tm, lag=c["lag"] / den)
        # all requests go to ONE object, in an order that depends on the case (each result is compared
        # with its definition, so a request that spoils a later one is seen)
        if (r // 14) % 2:
            # ... and half of the objects have been asked for significance levels before (surrogate shuffling,
            # analytic Poisson levels): the analysis matrices are still those of the data
            np.random.seed(r % 1000)
            for kw in (dict(method="ES", surrogate="shuffle", n_surr=3),
                       dict(method="ECA", surrogate="analytic", window_type=("advanced", "retarded", "symmetric")[r % 3]),
                       dict(method="ECA", surrogate="analytic", window_type=("retarded", "symmetric", "advanced")[r % 3]),
                       dict(method="ECA", surrogate="shuffle", n_surr=3, window_type="symmetric")):
                if kw["method"] == "ECA" and c["tm"] == enc.INF:
                    continue
                try:
                    es.event_analysis_significance(**kw)
                except Exception:
                    pass
        opts = ["directed", "symmetric", "antisym", "mean", "max", "min"]
        opts = opts[r % 6:] + opts[:r % 6]
        wts = ["advanced", "retarded", "symmetric"]
        wts = wts[r % 3:] + wts[:r % 3]
        for opt in opts:
            o["es"][opt] = enc.arr(es.event_series_analysis(method="ES", symmetrization=opt))
        if c["tm"] != enc.INF:
            for wt in wts:
                o["eca"][wt] = {}
                for opt in [x for x in opts if x in ("directed", "mean", "max", "min")]:
                    o["eca"][wt][opt] = enc.arr(es.event_series_analysis(
                        method="ECA", symmetrization=opt, window_type=wt))
        # the climate-network wrapper (unit time steps only): its similarity is the directed ES matrix and
        # it links the pairs with a positive score
        o["escn"], o["escn_adj"] = [], []
        o["escn_eca"], o["escn_eca_first"], o["escn_eca_w0"], o["escn_es_after"] = {}, [], "", []
        if c["unit"]:
            from pyunicorn.core import GeoGrid
            from pyunicorn.climate import ClimateData, EventSeriesClimateNetwork
            grid = GeoGrid(np.arange(float(len(data))), np.array([0.0, 20.0, 40.0]), np.array([0.0, 30.0, 60.0]),
                           silence_level=3)
            cd = ClimateData(np.array(data, dtype=float), grid, 1, silence_level=3)
            net = EventSeriesClimateNetwork(cd, method="ES", taumax=tm, lag=c["lag"] / den,
                                            symmetrization="directed", silence_level=3)
            o["escn"] = enc.arr(net.similarity_measure())
            o["escn_adj"] = enc.ints(net.adjacency)
            # ... and the wrapper built for coincidence rates is asked, as ONE object, for every window type and
            # symmetrisation in turn (the constructor has already computed one of them): the same matrices as the
            # plain EventSeries object gives
            if c["tm"] != enc.INF:
                w0 = wts[(r // 3) % 3]
                net2 = EventSeriesClimateNetwork(cd, method="ECA", taumax=tm, lag=c["lag"] / den,
                                                 symmetrization="directed", window_type=w0, silence_level=3)
                o["escn_eca_first"] = enc.arr(net2.similarity_measure())
                o["escn_eca_w0"] = w0
                o["escn_eca"] = {wt: {opt: enc.arr(net2.event_series_analysis(
                    method="ECA", symmetrization=opt, window_type=wt))
                    for opt in ("directed", "mean", "max", "min")} for wt in wts}
                o["escn_es_after"] = enc.arr(net2.event_series_analysis(method="ES", symmetrization="directed"))
    except Exception as ex:
        o["exc"] = type(ex).__name__
    return o


def _thr(c):
    from pyunicorn.eventseries import EventSeries as ES
    col = np.array(c["col"], dtype=float)
    other = np.array([0.0, 1.0, 2.0, 3.0, 4.0])
    data = np.stack([col, other], axis=1)
    # every second case hands the (integral) data over as an integer array
    import zlib
    if zlib.crc32(c["case"].encode()) % 2:
        data = data.astype("int64" if zlib.crc32(c["case"].encode()) % 4 == 1 else "int32")
    val = c["qa"] / c["qb"]
    o = {"exc": "", "ev": []}
    try:
        ev = ES.make_event_matrix(data, threshold_method=[c["method"], "value"],
                                  threshold_values=None if c.get("dv") else [float(val), 2.0],
                                  threshold_types=None if c.get("dt") else [c["type"], "above"])
        o["ev"] = enc.ints(ev[:, 0])
    except Exception as ex:
        o["exc"] = type(ex).__name__
    return o


def run_case(c):
    rec = dict(c)
    rec["obs"] = {"pair": _pair, "mat": _mat, "thr": _thr}[c["blk"]](c)
    return rec


def _nontrivial(rec):
    if rec["blk"] == "pair":
        return sum(rec["x"]) >= 3 and sum(rec["y"]) >= 3
    if rec["blk"] == "mat":
        return True
    return 0 < sum(rec["obs"]["ev"]) < len(rec["col"]) if rec["obs"]["ev"] else False


def main(ctx):
    cfg = "Gen_C16_" + ctx.tier
    cases = ctx.gen_cached("Gen_C16", cfg)
    ctx.exhaustive = True
    ctx.extra["rule"] = (
        "GEN (TLC, Gen_C16): all ordered pairs of 0/1 sequences of the cfg lengths (0..all events, "
        "simultaneous events) x {unit, irregular dyadic timestamps} x taumax {0,1,2,unbounded} x lag {0,1}; "
        "3-column event matrices with every symmetrisation/window type; integer data thresholded by value "
        "and by quantile.  Each pair is also replayed exchanged, shifted and (unbounded window) rescaled. "
        "non-trivial = both series have >= 3 events (ES counts inner events) / a proper subset marked")
    ctx.extra["scope"] = open(os.path.join(os.path.dirname(__file__), "..", "spec", cfg + ".cfg")).read().split()
    recs = ctx.run_cases("props.c16.run_case", cases)
    ctx.validate("Val_C16", "Val_C16", recs, nontrivial=_nontrivial)


def replay(ctx, rep):
    rec = rep["record"]
    case = {k: v for k, v in rec.items() if k != "obs"}
    recs = ctx.run_cases("props.c16.run_case", [case], jobs=1)
    ctx.validate("Val_C16", "Val_C16", recs, nontrivial=_nontrivial)
