"""C17 - random models and rewirings keep their documented invariants."""
import random as pyrandom

import numpy as np

from vlib import enc

POS = [(0, 0), (1, 0), (2, 0), (0, 1), (1, 1), (2, 1), (3, 0)]
EDGES = {"ring5": [(1, 2), (1, 4), (2, 3), (3, 5), (4, 5)],
         "ladder6": [(1, 2), (1, 4), (2, 3), (3, 6), (4, 5), (5, 6)],
         "mixed6": [(1, 2), (1, 5), (2, 4), (2, 6), (3, 5)],
         "two4": [(1, 2), (3, 4)]}
NN = {"ring5": 5, "ladder6": 6, "mixed6": 6, "two4": 4}
XMATS = {"a": [[1, 0, 1], [0, 1, 0], [1, 0, 0]], "b": [[1, 1, 0, 0], [0, 0, 1, 0]], "c": [[1, 0], [0, 1], [1, 1]],
         "d": [[1, 1, 0, 0], [0, 0, 1, 0], [0, 1, 0, 1], [1, 0, 0, 0]]}


class RngExhausted(Exception):
    pass


class Script:
    """Scripted replacement of the random source: returns the prescribed choices in order."""

    def __init__(self, values):
        self.values = list(values)
        self.used = 0

    def next(self):
        if self.used >= len(self.values):
            raise RngExhausted()
        v = self.values[self.used]
        self.used += 1
        return v


def run_geo(c):
    """Replay a TLC behaviour of RewireSM on randomly_rewire_geomodel_I/II/III."""
    from pyunicorn.core import SpatialNetwork, Grid
    import numpy.random as rd
    n0 = NN[c["setup"]]
    # every second behaviour is replayed on the network with one more, ISOLATED node at the end (it takes
    # part in no step of the model; the node count must survive the rewiring)
    import zlib
    extra = zlib.crc32(c["case"].encode()) % 2
    n = n0 + extra
    A = np.zeros((n, n), dtype=int)
    for s, t in EDGES[c["setup"]]:
        A[s - 1, t - 1] = A[t - 1, s - 1] = 1
    pos = np.array(POS[:n], dtype=float)
    grid = Grid(np.arange(4.0), pos.T.copy(), silence_level=3)
    net = SpatialNetwork(grid, adjacency=A.copy(), silence_level=3)
    D = np.abs(pos[:, None, :] - pos[None, :, :]).sum(axis=2)
    # the caller's distance matrix in one of several representations (the values are small integers, exact in
    # single precision): float64, float32, a float32 BLOCK of a larger matrix (a regional sub-network),
    # every second entry of a larger float32 matrix, column-major float32
    rep = (zlib.crc32(c["case"].encode()) // 2) % 5
    if rep == 1:
        D = D.astype(np.float32)
    elif rep == 2:
        big = np.full((n + 3, n + 2), 99.0, dtype=np.float32)
        big[:n, :n] = D
        D = big[:n, :n]
    elif rep == 3:
        big = np.full((2 * n, 2 * n), 99.0, dtype=np.float32)
        big[::2, ::2] = D
        D = big[::2, ::2]
    elif rep == 4:
        D = np.asfortranarray(D.astype(np.float32))
    E = len(EDGES[c["setup"]])
    draws = [v for pair in c["hist"] for v in pair]
    script = Script([(d - 1 + 0.5) / E for d in draws])
    rec = dict(c)
    rec["edges0"] = [[a + 1, b + 1] for a, b in net.graph.get_edgelist()]
    rec["A0"] = enc.ints(net.adjacency[:n0, :n0])
    saved = rd.random
    rd.random = script.next
    exc = ""
    try:
        getattr(net, "randomly_rewire_geomodel_" + c["model"])(D, c["iter"], float(c["eps"]))
    except RngExhausted:
        exc = "RngExhausted"
    except Exception as ex:
        exc = type(ex).__name__
    finally:
        rd.random = saved
    rec["exc"] = exc
    rec["used"] = script.used
    A1 = np.asarray(net.adjacency)
    rec["extra"] = int(extra)
    rec["N1"] = int(net.N)
    rec["shape1"] = [int(v) for v in A1.shape]
    rec["extra_links"] = int(A1[n0:, :].sum() + A1[:, n0:].sum()) if A1.shape[0] > n0 else 0
    rec["A1"] = enc.ints(A1[:n0, :n0])
    rec["D"] = enc.ints(np.asarray(D, dtype=float)[:n0, :n0])
    rec["drep"] = ["float64", "float32", "float32_block", "float32_strided", "float32_fortran"][rep]
    return rec


def run_cross(c):
    """Replay a TLC behaviour of CrossSM on InteractingNetworks.RandomlyRewireCrossLinks."""
    from pyunicorn.core import InteractingNetworks
    import pyunicorn.core._ext.numerics as num
    X = np.array(XMATS[c["setup"]])
    n1, n2 = X.shape
    n = n1 + n2
    A = np.zeros((n, n), dtype=int)
    A[:n1, n1:] = X
    A[n1:, :n1] = X.T
    # internal links that must stay untouched
    if n1 >= 2:
        A[0, 1] = A[1, 0] = 1
    if n2 >= 2:
        A[n1, n1 + 1] = A[n1 + 1, n1] = 1
    # the two groups sit at positions `ids` of the network (identity, reversed or interleaved numbering,
    # by case): node lists are then NOT ascending, the cross block in list order is the same X
    import zlib
    variant = zlib.crc32(c["case"].encode()) % 4

    def inner(lo, hi):
        """lo..hi with both ends in place and the nodes in between in descending order"""
        return [lo] + list(range(hi - 1, lo, -1)) + ([hi] if hi > lo else [])
    ids = list(range(n)) if variant == 0 else list(range(n))[::-1] if variant == 1 else \
        [k for k in range(n) if k % 2 == 0] + [k for k in range(n) if k % 2 == 1] if variant == 2 else \
        inner(0, n1 - 1) + inner(n1, n - 1)
    ids = np.array(ids)
    Areal = np.zeros((n, n), dtype=int)
    Areal[np.ix_(ids, ids)] = A
    net = InteractingNetworks(Areal.copy(), silence_level=3)
    L = int(X.sum())
    draws = [v for pair in c["hist"] for v in pair]
    script = Script([d - 1 for d in draws])
    saved = num.randint
    num.randint = lambda k: script.next()
    rec = dict(c)
    exc = ""
    new = None
    try:
        new = InteractingNetworks.RandomlyRewireCrossLinks(net, [int(v) for v in ids[:n1]], [int(v) for v in ids[n1:]],
                                                           swaps=c["swaps"] / float(L))
    except RngExhausted:
        exc = "RngExhausted"
    except Exception as ex:
        exc = type(ex).__name__
    finally:
        num.randint = saved
    rec["exc"] = exc
    rec["used"] = script.used
    rec["numbering"] = ["identity", "reversed", "interleaved", "contiguous_inner_reversed"][variant]
    rec["A0"] = enc.ints(A)
    rec["n1"] = n1
    # reported in the canonical numbering (group 1 first, in list order)
    rec["A1"] = enc.ints(np.asarray(new.adjacency)[np.ix_(ids, ids)]) if new is not None else []
    rec["X0"] = enc.ints(X)
    return rec


def _cross_kw(c):
    """How the number of cross links is prescribed: explicitly, by a density dn/dd, or not at all (null model)."""
    if c["mode"] == "density":
        return {"cross_link_density": c["dn"] / float(c["dd"])}
    if c["mode"] == "null":
        return {}
    return {"number_cross_links": c["m"]}


def run_seeded(c):
    """Generators / rewirings whose random source cannot be scripted: before/after relation."""
    from pyunicorn.core import Network, InteractingNetworks, SpatialNetwork, Grid
    np.random.seed(c["rseed"])
    pyrandom.seed(c["rseed"])
    rng = np.random.RandomState(c["rseed"] + 1)
    rec = dict(c)
    rec["exc"] = ""
    try:
        k = c["gen"]
        if k == "ErdosRenyi_links":
            A = Network.ErdosRenyi(n_nodes=c["n"], n_links=c["m"], silence_level=3)
            rec["A1"], rec["A0"] = enc.ints(A), []
        elif k in ("ErdosRenyi_p0", "ErdosRenyi_p1"):
            A = Network.ErdosRenyi(n_nodes=c["n"], link_probability=float(k[-1]), silence_level=3)
            rec["A1"], rec["A0"] = enc.ints(A), []
        elif k == "Model_ErdosRenyi":
            net = Network.Model("ErdosRenyi", n_nodes=c["n"], n_links=c["m"], silence_level=3)
            rec["A1"], rec["A0"] = enc.ints(net.adjacency), []
        elif k == "GeoModel_ErdosRenyi":
            from pyunicorn.core import GeoGrid, GeoNetwork
            grid = GeoGrid(np.arange(2.0), np.linspace(-50.0, 50.0, c["n"]), np.linspace(-100.0, 100.0, c["n"]),
                           silence_level=3)
            net = GeoNetwork.Model("ErdosRenyi", grid, n_nodes=c["n"], n_links=c["m"], silence_level=3)
            rec["A1"], rec["A0"] = enc.ints(net.adjacency), []
        elif k == "BarabasiAlbert":
            A = Network.BarabasiAlbert(n_nodes=c["n"], n_links_each=c["m"])
            rec["A1"], rec["A0"] = enc.ints(A.toarray() if hasattr(A, "toarray") else A), []
        elif k == "BarabasiAlbert_igraph":
            A = Network.BarabasiAlbert_igraph(n_nodes=c["n"], n_links_each=c["m"])
            rec["A1"], rec["A0"] = enc.ints(A), []
        elif k == "Configuration":
            deg = [int(d) for d in c["deg"]]
            A = Network.Configuration(deg)
            rec["A1"], rec["A0"] = enc.ints(A), []
        elif k == "chain":
            # a CHAIN of degree-preserving randomisations on ONE spatial network (ring + chords, so that a swap
            # always exists): geographical model I or II, the global rewiring, a geographical model again
            from pyunicorn.core import GeoGrid, GeoNetwork
            n = c["n"]
            A0 = np.zeros((n, n), dtype=int)
            for i in range(n):
                A0[i, (i + 1) % n] = A0[(i + 1) % n, i] = 1
            for i in range(0, n - 3, 3):
                A0[i, i + 3] = A0[i + 3, i] = 1
            rec["A0"] = enc.ints(A0)
            grid = GeoGrid(np.arange(2.0), np.linspace(-50.0, 50.0, n), np.linspace(-100.0, 100.0, n), silence_level=3)
            net = GeoNetwork(grid, adjacency=A0.copy(), silence_level=3)
            D = grid.distance()
            order = [["I", "rw", "II"], ["II", "rw", "I"], ["rw", "I", "II"], ["I", "II", "rw"]][c["m"] % 4]
            steps = []
            # every second group of four chains asks for MORE THAN 1000 rewirings per geographical step
            its = 2 if (c["m"] // 4) % 2 == 0 else 1000 + 150 * (1 + c["m"] % 5)
            rec["its"] = its
            for op in order:
                if op == "rw":
                    net.randomly_rewire(4)
                else:
                    getattr(net, "randomly_rewire_geomodel_" + op)(D, its, 1.0e6)
                steps.append(enc.ints(net.adjacency))
            rec["steps"], rec["A1"] = steps, steps[-1]
        elif k == "WattsStrogatz":
            A = Network.WattsStrogatz(c["n"], c["m"], 0.3)
            rec["A1"], rec["A0"] = enc.ints(A), []
        else:
            n = c["n"]
            A0 = (rng.rand(n, n) < 0.4).astype(int)
            A0 = np.triu(A0, 1)
            A0 = A0 + A0.T
            if c["rseed"] % 2:              # every second graph: the highest-numbered node is isolated
                A0[-1, :] = 0
                A0[:, -1] = 0
            rec["A0"] = enc.ints(A0)
            if k == "randomly_rewire":
                net = Network(A0.copy(), silence_level=3)
                net.randomly_rewire(c["m"])
                rec["A1"] = enc.ints(net.adjacency)
            elif k == "RandomlySetCrossLinks":
                net = InteractingNetworks(A0.copy(), silence_level=3)
                h = n // 2
                new = InteractingNetworks.RandomlySetCrossLinks(net, list(range(h)), list(range(h, n)), **_cross_kw(c))
                rec["A1"] = enc.ints(new.adjacency)
                rec["n1"] = h
            elif k == "RandomlySetCrossLinks_sparse":
                net = InteractingNetworks(A0.copy(), silence_level=3)
                h = n // 2
                new = InteractingNetworks.RandomlySetCrossLinks_sparse(net, list(range(h)), list(range(h, n)),
                                                                       **_cross_kw(c))
                rec["A1"] = enc.ints(new.adjacency)
                rec["n1"] = h
            elif k == "set_random_links_by_distance":
                pos = rng.rand(2, n)
                net = SpatialNetwork(Grid(np.arange(4.0), pos, silence_level=3), adjacency=A0.copy(),
                                     silence_level=3)
                net.set_random_links_by_distance(a=0.0, b=-2.0)
                rec["A1"] = enc.ints(net.adjacency)
    except Exception as ex:
        rec["exc"] = type(ex).__name__
        rec.setdefault("A0", [])
        rec.setdefault("A1", [])
    rec.setdefault("n1", 0)
    rec.setdefault("deg", [])
    rec.setdefault("steps", [])
    return rec


def _nontrivial(rec):
    return True


def main(ctx):
    from vlib.core import Machinery
    import random
    rng = random.Random(ctx.seed)
    geo, cross = [], []
    setups = ["ring5", "mixed6"] if ctx.tier == "quick" else ["ring5", "ladder6", "mixed6", "two4"]
    for s in setups:
        for m in ("I", "II", "III"):
            for e in (1, 2):
                r = ctx.tlc("RewireSM", "MC_Rewire_%s_%s_%d" % (s, m, e), workers=1)
                if r.error or r.violated or r.rc != 0:
                    raise Machinery("RewireSM %s %s %d: design-level check failed\n%s" % (s, m, e, r.out[-2000:]))
                hs = [t for t in r.tuples if t and t[0] == "H"]
                ctx.stages.append({"stage": "DESIGN+GEN RewireSM/%s model %s eps %d (Simple, Degrees, EdgeList, "
                                   "Lengths, DegPairs in every state)" % (s, m, e), "states": r.distinct,
                                   "behaviours": len(hs)})
                if ctx.tier == "quick" and len(hs) > 250:
                    hs = rng.sample(hs, 250)
                for k, h in enumerate(hs):
                    geo.append({"case": "g_%s_%s_%d_%d" % (s, m, e, k), "blk": "geo", "setup": h[1], "model": h[2],
                                "eps": h[3], "iter": h[4], "hist": [list(p) for p in h[5]]})
    for s in "abcd":
        r = ctx.tlc("CrossSM", "MC_Cross_" + s, workers=1)
        if r.error or r.violated or r.rc != 0:
            raise Machinery("CrossSM %s: design-level check failed\n%s" % (s, r.out[-2000:]))
        hs = [t for t in r.tuples if t and t[0] == "X"]
        ctx.stages.append({"stage": "DESIGN+GEN CrossSM/" + s, "states": r.distinct, "behaviours": len(hs)})
        if ctx.tier == "quick" and len(hs) > 200:
            hs = rng.sample(hs, 200)
        for k, h in enumerate(hs):
            cross.append({"case": "x_%s_%d" % (s, k), "blk": "cross", "setup": h[1], "swaps": h[2],
                          "hist": [list(p) for p in h[3]]})
    seeded = []
    nseed = 10 if ctx.tier == "quick" else 60
    for j in range(nseed):
        n = 6 + (j % 7)
        for gen, m in (("ErdosRenyi_links", (n * (n - 1) // 2) * (1 + j % 3) // 4), ("BarabasiAlbert", 1 + j % 3),
                       ("BarabasiAlbert_igraph", 1 + j % 3), ("WattsStrogatz", 1 + j % 2),
                       ("ErdosRenyi_p0", 0), ("ErdosRenyi_p1", n * (n - 1) // 2),
                       ("Model_ErdosRenyi", [0, n * (n - 1) // 2, n][j % 3]), ("GeoModel_ErdosRenyi", n + j % 3),
                       ("randomly_rewire", 5 + j), ("chain", j), ("RandomlySetCrossLinks", 1 + j % 4),
                       ("RandomlySetCrossLinks_sparse", 1 + j % 4), ("set_random_links_by_distance", 0)):
            mode = ["count", "density", "null", "count0", "density0"][j % 5] if gen.startswith("RandomlySetCross") else "count"
            dens = [(1, 4), (1, 2), (1, 1)][j % 3] if mode == "density" else (0, 1)
            seeded.append({"case": "s_%s_%d" % (gen, j), "blk": "seeded", "gen": gen, "n": n,
                           "m": 0 if mode == "count0" else m, "mode": mode.rstrip("0"), "dn": dens[0], "dd": dens[1],
                           "rseed": ctx.seed * 1000 + j})
        deg = [1 + (j + i) % 3 for i in range(n)]
        if sum(deg) % 2:
            deg[0] += 1
        seeded.append({"case": "s_Configuration_%d" % j, "blk": "seeded", "gen": "Configuration", "n": n, "m": 0,
                       "deg": deg, "mode": "count", "dn": 0, "dd": 1, "rseed": ctx.seed * 1000 + j})
    ctx.exhaustive = ctx.tier == "thorough"
    ctx.extra["rule"] = (
        "DESIGN: TLC explores every sequence of random draws (accepted and rejected) of the geographical rewiring "
        "models I-III and of the cross-link rewiring on lattice set-ups and checks the documented invariants in "
        "every state.  GEN: every behaviour ending in an accepted draw is replayed on the real kernels with a "
        "scripted random source; VAL replays the draws through RewireCore and requires the same final network and "
        "exactly the scripted draws consumed.  Generators backed by igraph's RNG run over seeds with the "
        "before/after relation checked by TLC.  non-trivial = every case")
    recs = ctx.run_cases("props.c17.run_geo", geo) + ctx.run_cases("props.c17.run_cross", cross) \
        + ctx.run_cases("props.c17.run_seeded", seeded)
    ctx.validate("Val_C17", "Val_C17", recs, nontrivial=_nontrivial)


def replay(ctx, rep):
    rec = rep["record"]
    fn = {"geo": "run_geo", "cross": "run_cross", "seeded": "run_seeded"}[rec["blk"]]
    drop = ("edges0", "A0", "A1", "D", "exc", "used", "X0", "n1", "numbering", "extra", "N1", "shape1", "extra_links")
    case = {k: v for k, v in rec.items() if k not in drop}
    recs = ctx.run_cases("props.c17." + fn, [case], jobs=1)
    ctx.validate("Val_C17", "Val_C17", recs, nontrivial=_nontrivial)
