"""C18 - resistive-network quantities obey circuit laws."""
import os

import numpy as np

from vlib import enc


def _observe(net, diameter_first):
    o = {"exc": ""}
    try:
        n = net.N
        if diameter_first:
            o["der"] = enc.num(net.diameter_effective_resistance())
            o["aer"] = enc.num(net.average_effective_resistance())
        else:
            o["aer"] = enc.num(net.average_effective_resistance())
            o["der"] = enc.num(net.diameter_effective_resistance())
        o["er"] = [[enc.num(net.effective_resistance(a, b)) for b in range(n)] for a in range(n)]
        o["ercc"] = [enc.num(net.effective_resistance_closeness_centrality(a)) for a in range(n)]
        o["vcfb"] = [enc.num(net.vertex_current_flow_betweenness(a), 10**4) for a in range(n)]
        o["ecfb"] = enc.arr(net.edge_current_flow_betweenness(), 10**4)
        o["ad"] = enc.arr(net.admittive_degree())
        o["anad"] = enc.arr(net.average_neighbors_admittive_degree())
        o["lac"] = enc.arr(net.local_admittive_clustering())
        o["gac"] = enc.num(net.global_admittive_clustering())
        o["adm"] = enc.arr(net.get_admittance())
    except Exception as ex:
        o["exc"] = type(ex).__name__
    return o


def _observe_complex(net):
    """Effective impedances of a network with complex impedances (real and imaginary parts)."""
    o = {"exc": ""}
    try:
        n = net.N
        er = np.array([[complex(net.effective_resistance(a, b)) for b in range(n)] for a in range(n)])
        o["er_re"], o["er_im"] = enc.arr(er.real), enc.arr(er.imag)
        aer = complex(net.average_effective_resistance())
        o["aer_re"], o["aer_im"] = enc.num(aer.real), enc.num(aer.imag)
        cc = np.array([complex(net.effective_resistance_closeness_centrality(a)) for a in range(n)])
        o["ercc_re"], o["ercc_im"] = enc.arr(cc.real), enc.arr(cc.imag)
    except Exception as ex:
        o["exc"] = type(ex).__name__
    return o


def run_case(c):
    from pyunicorn.core import ResNetwork
    rec = dict(c)
    events = []
    net = None
    held = None
    # r4: back to the first assignment, written INTO the array the caller passed last time (the usual
    # "edit my resistance matrix, then tell the network" pattern)
    # r5: the second assignment rescaled by 3/2 (non-integral values, whatever type the network started with)
    for k, key in enumerate(("r", "r2", "r3", "r4", "r5")):
        R = np.array(c["r" if key == "r4" else "r2" if key == "r5" else key], dtype=float)
        if key == "r5":
            R = 1.5 * R
        try:
            if net is None:
                net = ResNetwork(enc.represent(R, c["case"])[0], silence_level=3)
                events.append({"op": "construct", "key": key})
            elif key == "r4":
                held[...] = R
                net.update_resistances(held)
                events.append({"op": "update_resistances_same_array", "key": key})
            else:
                held = R.copy()
                net.update_resistances(held)
                events.append({"op": "update_resistances", "key": key})
            obs = _observe(net, diameter_first=(k > 0))
            twin = _observe(ResNetwork(R.copy(), silence_level=3), diameter_first=False)
        except Exception as ex:
            obs = {"exc": "mutator:" + type(ex).__name__}
            twin = {"exc": ""}
        events.append({"op": "observe", "key": key, "obs": obs, "twin": twin})
    # all resistances of the second assignment multiplied by 2^24 (megaohm range): the current-flow
    # betweenness is dimensionless and must not change
    big = {"exc": ""}
    try:
        net.update_resistances(np.array(c["r2"], dtype=float) * 2.0**24)
        n = net.N
        big["vcfb"] = [enc.num(net.vertex_current_flow_betweenness(a), 10**4) for a in range(n)]
        big["ecfb"] = enc.arr(net.edge_current_flow_betweenness(), 10**4)
    except Exception as ex:
        big["exc"] = type(ex).__name__
    rec["big"] = big
    # gigaohm history: a second object constructed with r * 2^30, asked once, then updated to r2 * 2^30 - every
    # admittance is below 10^-8 before and after; effective resistances scale back exactly, betweenness is unchanged
    giga = {"exc": ""}
    try:
        gnet = ResNetwork(np.array(c["r"], dtype=float) * 2.0**30, silence_level=3)
        n = gnet.N
        gnet.average_effective_resistance(), gnet.vertex_current_flow_betweenness(0)
        gnet.update_resistances(np.array(c["r2"], dtype=float) * 2.0**30)
        giga["er"] = [[enc.num(gnet.effective_resistance(a, b) / 2.0**30) for b in range(n)] for a in range(n)]
        giga["vcfb"] = [enc.num(gnet.vertex_current_flow_betweenness(a), 10**4) for a in range(n)]
    except Exception as ex:
        giga["exc"] = type(ex).__name__
    rec["giga"] = giga
    # complex impedances: every impedance multiplied by z = 1 + 2i (construct from r, update to r2)
    z = 1 + 2j
    cobs = []
    try:
        cnet = ResNetwork((np.array(c["r"], dtype=float) * z).astype(complex), silence_level=3)
        cobs.append(_observe_complex(cnet))
        cnet.update_resistances((np.array(c["r2"], dtype=float) * z).astype(complex))
        cobs.append(_observe_complex(cnet))
    except Exception as ex:
        cobs = [{"exc": "mutator:" + type(ex).__name__}] * 2
    rec["complex"] = cobs
    rec["events"] = events
    return rec


def _family(kind, N):
    a, b = np.indices((N, N))
    if kind == "chain":
        A = np.abs(a - b) == 1
    elif kind == "ring":
        A = np.minimum(np.abs(a - b), N - np.abs(a - b)) == 1
    elif kind == "star":
        A = ((a == 0) | (b == 0)) & (a != b)
    else:
        A = a != b
    return A.astype(float)


def run_chain(c):
    """A chain / ring / star / complete graph of N unit resistors: every current-flow quantity has a closed form."""
    from pyunicorn.core import ResNetwork
    N = c["N"]
    kind = c.get("kind", "chain")
    R = _family(kind, N)
    rec = dict(c)
    o = {"exc": ""}
    try:
        net = ResNetwork(R, silence_level=3)
        o["vcfb"] = [enc.num(net.vertex_current_flow_betweenness(a)) for a in range(N)]
        E = np.asarray(net.edge_current_flow_betweenness())
        links = np.argwhere(np.triu(R) > 0)
        if len(links) > 400:                      # (complete graphs: every 53rd link and the last)
            links = np.concatenate([links[::53], links[-1:]])
        o["links"] = [[int(a), int(b)] for a, b in links]
        o["ecfb_links"] = [enc.num(E[a, b]) for a, b in links]
        off = np.abs(E[(R == 0)])
        o["ecfb_unlinked_max"] = enc.num(off.max() if off.size else 0.0)
        pairs = [(0, N - 1), (0, 1), (N // 3, N // 2), (N - 2, 1), (N // 2, N // 2), (1, N // 2), (2 % N, N - 1)]
        o["er_pairs"] = [[int(a), int(b)] for a, b in pairs]
        o["er"] = [enc.num(net.effective_resistance(a, b)) for a, b in pairs]
    except Exception as ex:
        o["exc"] = type(ex).__name__
    rec["obs"] = o
    return rec


def _families(tier):
    sizes = {"chain": (5, 150), "ring": (6, 151), "star": (5, 140), "complete": (4, 130)} if tier == "quick" else {
        "chain": (3, 4, 5, 6, 12, 129, 150, 300), "ring": (3, 4, 5, 6, 60, 129, 151, 300), "star": (3, 4, 5, 6, 129, 257, 300),
        "complete": (3, 4, 5, 6, 129, 200, 300)}
    return [{"case": "%s%d" % (k, N), "blk": "family", "kind": k, "N": N} for k in sizes for N in sizes[k]]


def _nontrivial(rec):
    return rec["n"] >= 3


def main(ctx):
    cfg = "Gen_C18_" + ctx.tier
    cases = ctx.gen_cached("Gen_C18", cfg)
    ctx.exhaustive = True
    ctx.extra["rule"] = (
        "GEN (TLC, Gen_C18): every connected undirected graph up to NU nodes with link resistances from {1,2,4} "
        "(all assignments up to NA nodes, content-derived ones beyond), then update_resistances to a second "
        "assignment and to its uniform rescaling by 2; after every step effective resistances of all pairs, "
        "average / diameter / closeness, vertex and edge current-flow betweenness, admittive degree and clustering "
        "are observed on the object (diameter queried BEFORE the average after an update) and on a fresh twin; "
        "TLC replays the history and decides ERDef (determinant ratio), Metric, PathBound, Foster, Scaling, "
        "the defining sums and Functional.  non-trivial = at least 3 nodes")
    ctx.extra["scope"] = open(os.path.join(os.path.dirname(__file__), "..", "spec", cfg + ".cfg")).read().split()
    recs = ctx.run_cases("props.c18.run_case", cases)
    ctx.validate("Val_C18", "Val_C18", recs, nontrivial=_nontrivial)
    # large circuits of unit resistors: chain, ring, star, complete graph (closed forms proved on the small members)
    crecs = ctx.run_cases("props.c18.run_chain", _families(ctx.tier))
    ctx.validate("Val_C18big", "Val_C18big", crecs, stage="Val_C18big", nontrivial=lambda r: True)


def replay(ctx, rep):
    rec = rep["record"]
    if rec.get("blk") == "family" or str(rec.get("case", "")).startswith("chain"):
        crecs = ctx.run_cases("props.c18.run_chain", [{k: v for k, v in rec.items() if k != "obs"}], jobs=1)
        ctx.validate("Val_C18big", "Val_C18big", crecs, stage="Val_C18big", nontrivial=lambda r: True)
        return
    case = {k: v for k, v in rec.items() if k not in ("events", "complex", "big")}
    recs = ctx.run_cases("props.c18.run_case", [case], jobs=1)
    ctx.validate("Val_C18", "Val_C18", recs, nontrivial=_nontrivial)
