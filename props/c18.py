"""C18 - resistive-network quantities obey circuit laws."""
import os

import numpy as np

from vlib import enc


def _observe(net, diameter_first):
    o = {"exc": ""}
    try:
        n = net.N
        if diameter_first:
            o["der"] = enc.num(net.diameter_effective_resistance())
            o["aer"] = enc.num(net.average_effective_resistance())
        else:
            o["aer"] = enc.num(net.average_effective_resistance())
            o["der"] = enc.num(net.diameter_effective_resistance())
        o["er"] = [[enc.num(net.effective_resistance(a, b)) for b in range(n)] for a in range(n)]
        o["ercc"] = [enc.num(net.effective_resistance_closeness_centrality(a)) for a in range(n)]
        o["vcfb"] = [enc.num(net.vertex_current_flow_betweenness(a), 10**4) for a in range(n)]
        o["ecfb"] = enc.arr(net.edge_current_flow_betweenness(), 10**4)
        o["ad"] = enc.arr(net.admittive_degree())
        o["anad"] = enc.arr(net.average_neighbors_admittive_degree())
        o["lac"] = enc.arr(net.local_admittive_clustering())
        o["gac"] = enc.num(net.global_admittive_clustering())
        o["adm"] = enc.arr(net.get_admittance())
    except Exception as ex:
        o["exc"] = type(ex).__name__
    return o


def _observe_complex(net):
    """Effective impedances of a network with complex impedances (real and imaginary parts)."""
    o = {"exc": ""}
    try:
        n = net.N
        er = np.array([[complex(net.effective_resistance(a, b)) for b in range(n)] for a in range(n)])
        o["er_re"], o["er_im"] = enc.arr(er.real), enc.arr(er.imag)
        aer = complex(net.average_effective_resistance())
        o["aer_re"], o["aer_im"] = enc.num(aer.real), enc.num(aer.imag)
        cc = np.array([complex(net.effective_resistance_closeness_centrality(a)) for a in range(n)])
        o["ercc_re"], o["ercc_im"] = enc.arr(cc.real), enc.arr(cc.imag)
    except Exception as ex:
        o["exc"] = type(ex).__name__
    return o


def run_case(c):
    from pyunicorn.core import ResNetwork
    rec = dict(c)
    events = []
    net = None
    held = None
    # r4: back to the first assignment, written INTO the array the caller passed last time (the usual
    # "edit my resistance matrix, then tell the network" pattern)
    # r5: the second assignment rescaled by 3/2 (non-integral values, whatever type the network started with)
    for k, key in enumerate(("r", "r2", "r3", "r4", "r5")):
        R = np.array(c["r" if key == "r4" else "r2" if key == "r5" else key], dtype=float)
        if key == "r5":
            R = 1.5 * R
        try:
            if net is None:
                net = ResNetwork(enc.represent(R, c["case"])[0], silence_level=3)
                events.append({"op": "construct", "key": key})
            elif key == "r4":
                held[...] = R
                net.update_resistances(held)
                events.append({"op": "update_resistances_same_array", "key": key})
            else:
                held = R.copy()
                net.update_resistances(held)
                events.append({"op": "update_resistances", "key": key})
            obs = _observe(net, diameter_first=(k > 0))
            twin = _observe(ResNetwork(R.copy(), silence_level=3), diameter_first=False)
        except Exception as ex:
            obs = {"exc": "mutator:" + type(ex).__name__}
            twin = {"exc": ""}
        events.append({"op": "observe", "key": key, "obs": obs, "twin": twin})
    # all resistances of the second assignment multiplied by 2^24 (megaohm range): the current-flow
    # betweenness is dimensionless and must not change
    big = {"exc": ""}
    try:
        net.update_resistances(np.array(c["r2"], dtype=float) * 2.0**24)
        n = net.N
        big["vcfb"] = [enc.num(net.vertex_current_flow_betweenness(a), 10**4) for a in range(n)]
        big["ecfb"] = enc.arr(net.edge_current_flow_betweenness(), 10**4)
    except Exception as ex:
        big["exc"] = type(ex).__name__
    rec["big"] = big
    # gigaohm history: a second object constructed with r * 2^30, asked once, then updated to r2 * 2^30 - every
    # admittance is below 10^-8 before and after; effective resistances scale back exactly, betweenness is unchanged
    giga = {"exc": ""}
    try:
        gnet = ResNetwork(np.array(c["r"], dtype=float) * 2.0**30, silence_level=3)
        n = gnet.N
        gnet.average_effective_resistance(), gnet.vertex_current_flow_betweenness(0)
        gnet.update_resistances(np.array(c["r2"], dtype=float) * 2.0**30)
        giga["er"] = [[enc.num(gnet.effective_resistance(a, b) / 2.0**30) for b in range(n)] for a in range(n)]
        giga["vcfb"] = [enc.num(gnet.vertex_current_flow_betweenness(a), 10**4) for a in range(n)]
    except Exception as ex:
        giga["exc"] = type(ex).__name__
    rec["giga"] = giga
    # complex impedances: every impedance multiplied by z = 1 + 2i (construct from r, update to r2)
    z = 1 + 2j
    cobs = []
    try:
        cnet = ResNetwork((np.array(c["r"], dtype=float) * z).astype(complex), silence_level=3)
        cobs.append(_observe_complex(cnet))
        cnet.update_resistances((np.array(c["r2"], dtype=float) * z).astype(complex))
        cobs.append(_observe_complex(cnet))
    except Exception as ex:
        cobs = [{"exc": "mutator:" + type(ex).__name__}] * 2
    rec["complex"] = cobs
    rec["events"] = events
    return rec


def run_chain(c):
    """A chain of N unit resistors: every current-flow quantity has a closed form."""
    from pyunicorn.core import ResNetwork
    N = c["N"]
    R = np.zeros((N, N))
    idx = np.arange(N - 1)
    R[idx, idx + 1] = R[idx + 1, idx] = 1.0
    rec = dict(c)
    o = {"exc": ""}
    try:
        net = ResNetwork(R, silence_level=3)
        o["vcfb"] = [enc.num(net.vertex_current_flow_betweenness(a), 10**4) for a in range(N)]
        E = np.asarray(net.edge_current_flow_betweenness())
        o["ecfb_chain"] = [enc.num(E[k, k + 1], 10**4) for k in range(N - 1)]
        pairs = [(0, N - 1), (0, 1), (N // 3, N // 2), (N - 2, 1), (N // 2, N // 2)]
        o["er_pairs"] = [[int(a), int(b)] for a, b in pairs]
        o["er"] = [enc.num(net.effective_resistance(a, b)) for a, b in pairs]
    except Exception as ex:
        o["exc"] = type(ex).__name__
    rec["obs"] = o
    return rec


def _nontrivial(rec):
    return rec["n"] >= 3


def main(ctx):
    cfg = "Gen_C18_" + ctx.tier
    cases = ctx.gen_cached("Gen_C18", cfg)
    ctx.exhaustive = True
    ctx.extra["rule"] = (
        "GEN (TLC, Gen_C18): every connected undirected graph up to NU nodes with link resistances from {1,2,4} "
        "(all assignments up to NA nodes, content-derived ones beyond), then update_resistances to a second "
        "assignment and to its uniform rescaling by 2; after every step effective resistances of all pairs, "
        "average / diameter / closeness, vertex and edge current-flow betweenness, admittive degree and clustering "
        "are observed on the object (diameter queried BEFORE the average after an update) and on a fresh twin; "
        "TLC replays the history and decides ERDef (determinant ratio), Metric, PathBound, Foster, Scaling, "
        "the defining sums and Functional.  non-trivial = at least 3 nodes")
    ctx.extra["scope"] = open(os.path.join(os.path.dirname(__file__), "..", "spec", cfg + ".cfg")).read().split()
    recs = ctx.run_cases("props.c18.run_case", cases)
    ctx.validate("Val_C18", "Val_C18", recs, nontrivial=_nontrivial)
    # large circuits: chains of unit resistors (closed forms)
    chains = [{"case": "chain%d" % N, "N": N} for N in ((5, 150) if ctx.tier == "quick" else (3, 5, 12, 129, 150, 300))]
    crecs = ctx.run_cases("props.c18.run_chain", chains)
    ctx.validate("Val_C18big", "Val_C18big", crecs, stage="Val_C18big", nontrivial=lambda r: True)


def replay(ctx, rep):
    rec = rep["record"]
    case = {k: v for k, v in rec.items() if k not in ("events", "complex", "big")}
    recs = ctx.run_cases("props.c18.run_case", [case], jobs=1)
    ctx.validate("Val_C18", "Val_C18", recs, nontrivial=_nontrivial)
