"""C19 - distributed computation returns the serial result."""
import os
import random

import numpy as np

from vlib import enc

MEASURES = ["newman_betweenness", "nsi_newman_betweenness", "nsi_arenas_betweenness"]
# documented argument patterns of the distributed measures ("name~variant")
VARIANTS = {"nsi_newman_betweenness~ends": ("nsi_newman_betweenness", {"add_local_ends": True}),
            "nsi_arenas_betweenness~twinness": ("nsi_arenas_betweenness", {"stopping_mode": "twinness"}),
            "nsi_arenas_betweenness~inclnb": ("nsi_arenas_betweenness", {"exclude_neighbors": False}),
            # (the spelling of the docstring: "twinnness")
            "nsi_arenas_betweenness~twinnness": ("nsi_arenas_betweenness", {"stopping_mode": "twinnness"})}
MEASURES_X = MEASURES + sorted(VARIANTS)


def _split(measure):
    return VARIANTS.get(measure, (measure, {}))


def make_graph(sizes, seed, shape="random"):
    """Seeded random graph whose components are connected and have the given sizes.  shape "hubmid": every
    component is a hub in the MIDDLE of its node range with all lower-numbered nodes as leaves, followed by a path
    (a degree distribution as uneven as it gets: any chunking that depends on the links sees it)."""
    rng = random.Random(seed)
    n = sum(sizes)
    A = np.zeros((n, n), dtype=int)
    off = 0
    if shape == "hubmid":
        for sz in sizes:
            hub = min(off + sz - 2, max(off + 1, off + (2 * sz) // 3 - 3 + (seed % 7)))
            for a in range(off, hub):
                A[a, hub] = A[hub, a] = 1
            for a in range(hub, off + sz - 1):
                A[a, a + 1] = A[a + 1, a] = 1
            if off + sz - hub > 3 and seed % 2 == 1:        # (every second one with a chord on the path)
                A[hub + 1, off + sz - 1] = A[off + sz - 1, hub + 1] = 1
            off += sz
        w = np.array([rng.choice([1.0, 2.0, 0.5, 1.5]) for _ in range(n)])
        return A, w
    for sz in sizes:
        nodes = list(range(off, off + sz))
        rng.shuffle(nodes)
        for k in range(1, sz):                       # random spanning tree
            a, b = nodes[k], nodes[rng.randrange(k)]
            A[a, b] = A[b, a] = 1
        extra = rng.randint(sz // 2, sz)
        for _ in range(extra):
            a, b = rng.sample(range(off, off + sz), 2) if sz >= 2 else (off, off)
            if a != b:
                A[a, b] = A[b, a] = 1
        off += sz
    w = np.array([rng.choice([1.0, 2.0, 0.5, 1.5]) for _ in range(n)])
    return A, w


def _tokens(hist):
    out = []
    for h in hist:
        out.append("M" if h[0] in ("submit", "get") else ("J", h[2]))
    return out


def _call(net, measure, silence):
    net.silence_level = silence
    name, kw = _split(measure)
    return getattr(net, name)(**kw)


def run_case(c):
    from pyunicorn.core import Network
    from vlib.mpistandin import World
    A, w = make_graph(c["sizes"], c["gseed"], c.get("shape", "random"))
    rec = dict(c)
    serial = Network(adjacency=A.copy(), node_weights=w.copy(), silence_level=3)
    try:
        rec["serial"] = enc.arr(_call(serial, c["measure"], 3))
        rec["serial_exc"] = ""
    except Exception as ex:
        rec["serial"] = []
        rec["serial_exc"] = type(ex).__name__
    net = Network(adjacency=A.copy(), node_weights=w.copy(), silence_level=c["silence"])
    sched = c.get("tokens")
    if sched is None:
        sched = _policy_tokens(c["policy"], c["sizes"], c["W"], c["gseed"])
    sched = [tuple(t) if isinstance(t, list) else t for t in sched]
    world = World(c["W"], sched)
    exc = ""
    try:
        with world:
            rec["dist"] = enc.arr(_call(net, c["measure"], c["silence"]))
    except (Exception, SystemExit) as ex:          # the master program may call sys.exit() when a job failed
        rec["dist"] = []
        exc = type(ex).__name__
    rec["exc"] = exc
    rec["events"] = world.events
    rec["forced"] = world.forced
    rec["skipped"] = world.skipped
    # jobs per round, as the master program ran them
    parts, cur, phase = [], 0, "submit"
    for ev in world.events:
        if ev["ev"] == "submit":
            if phase == "get":
                parts.append(cur)
                cur = 0
            phase = "submit"
            cur += 1
        elif ev["ev"] in ("get", "get_exc"):
            phase = "get"
    if cur:
        parts.append(cur)
    rec["parts"] = parts
    rec["leftover"] = sum(len(q) for q in world.inbox.values()) + sum(len(q) for q in world.outbox.values())
    return rec


def _policy_tokens(policy, sizes, W, seed):
    """Schedules for worker counts / sizes beyond the TLC-enumerated ones."""
    rng = random.Random(seed * 7 + W)
    toks = []
    nj = 64
    if policy == "lazy":
        return ["M"] * (4 * nj)
    if policy == "eager":
        for k in range(nj):
            toks += ["M", ("J", k)]
        return toks + ["M"] * (2 * nj)
    if policy == "reverse":
        toks = ["M"] * nj
        for k in reversed(range(nj)):
            toks.append(("J", k))
        return toks
    for k in range(6 * nj):                       # "random"
        toks.append("M" if rng.random() < 0.5 else ("J", rng.randrange(8)))
    return toks


# ------------------------------------------------------------------ chunk kernels
def run_chunks(c):
    """Call the chunk kernels directly on a contiguous partition of the node range."""
    from pyunicorn.core import Network
    from vlib.mpistandin import World
    A, w = make_graph([c["n"]], c["gseed"])
    net = Network(adjacency=A.copy(), node_weights=w.copy(), silence_level=3)
    captured = {}
    world = World(2, [])
    orig = world.master.submit_call

    def capture(name_to_call, args=(), kwargs={}, module="__main__", time_est=1, id=None, slave=None):
        captured.setdefault("calls", []).append((name_to_call, args))
        return orig(name_to_call, args, kwargs, module, time_est, id, slave)

    world.master.submit_call = capture
    rec = dict(c)
    rec["exc"] = ""
    try:
        base, kw = _split(c["measure"])
        with world:
            getattr(net, base)(**kw)
        name, args = captured["calls"][0]
        import pyunicorn
        fn = eval(name, pyunicorn.__dict__)
        n = c["n"]
        cuts = [0] + list(c["cuts"]) + [n]
        if base == "newman_betweenness":
            Afull = np.ascontiguousarray(A).astype(args[0].dtype)
            V = args[1]
            full = np.asarray(fn(Afull, V, n, 0, n)[0], dtype=float)
            asm = np.zeros(n)
            for a, b in zip(cuts[:-1], cuts[1:]):
                res, s, e = fn(np.ascontiguousarray(Afull[a:b, :]), V, n, a, b)
                asm[s:e] = res
        elif base == "nsi_newman_betweenness":
            Afull = np.ascontiguousarray(A).astype(args[0].dtype)
            V, ww = args[1], args[3]
            nae = (1 - A - np.identity(n)).astype(args[4].dtype)
            full = np.asarray(fn(Afull, V, n, ww, nae, 0, n)[0], dtype=float)
            asm = np.zeros(n)
            for a, b in zip(cuts[:-1], cuts[1:]):
                res, s, e = fn(np.ascontiguousarray(Afull[a:b, :]), V, n, ww,
                               np.ascontiguousarray(nae[a:b, :]), a, b)
                asm[s:e] = res
        else:
            N, sp_P, _, ww, _, _, _, excl, mode, _ = args
            Aplus = (A + np.identity(n)).astype(int)
            tw = np.asarray(Network(adjacency=A.copy(), node_weights=w.copy(), silence_level=3).nsi_twinness()) \
                if mode == "twinness" else None
            full = np.asarray(fn(N, sp_P, Aplus, ww, ww, 0, n, excl, mode, tw)[1][0], dtype=float)
            asm = np.zeros(n)
            for a, b in zip(cuts[:-1], cuts[1:]):
                err, res = fn(N, sp_P, Aplus[a:b, :], ww, ww[a:b], a, b, excl, mode,
                              None if tw is None else tw[a:b, :])
                asm += res[0]
        rec["full"] = enc.arr(full)
        rec["asm"] = enc.arr(asm)
    except Exception as ex:
        rec["exc"] = type(ex).__name__
        rec["full"] = []
        rec["asm"] = []
    return rec


def run_parallelize(c):
    """nsi_betweenness with the multiprocessing pool vs. serial."""
    from pyunicorn.core import Network
    A, w = make_graph(c["sizes"], c["gseed"], c.get("shape", "random"))
    rec = dict(c)
    rec["exc"] = ""
    try:
        a = Network(adjacency=A.copy(), node_weights=w.copy(), silence_level=3)
        b = Network(adjacency=A.copy(), node_weights=w.copy(), silence_level=3)
        kw = {}
        if c.get("st"):            # interregional: sources and targets differ
            n = A.shape[0]
            kw = {"sources": list(range(0, n, 3)), "targets": list(range(1, n, 2))}
        kw["nsi"] = bool(c.get("nsi", 1))
        rec["serial"] = enc.arr(a.nsi_betweenness(parallelize=False, **kw))
        rec["dist"] = enc.arr(b.nsi_betweenness(parallelize=True, **kw))
    except Exception as ex:
        rec["exc"] = type(ex).__name__
        rec["serial"] = rec["dist"] = []
    return rec


def _nontrivial(rec):
    return len(rec.get("events", [])) >= 4 or rec.get("blk") in ("chunks", "pool")


GEN_CFGS = {"quick": ["a", "b", "c"], "thorough": ["a", "b", "c", "d"]}
SIZES = {(2, (3,)): [25], (3, (3,)): [27], (2, (2, 2)): [15, 12], (3, (4,)): [35]}


def _apalache_chunks(ctx):
    """Unbounded design-level stage: Apalache (SMT) proves the chunk-partition invariant of spec/Apa_Chunks.tla for
    EVERY N >= 1, max_parts >= 1 and chunk index (constants constrained by CInit only, one-state system); a
    negative control (parts = max_parts, false for N = 2, max_parts = 3) must be refuted, otherwise the constant
    initialiser would be contradictory and the proof vacuous.  Apalache missing / timing out is recorded, not
    fatal: MC_Chunks has already decided N <= 64 with TLC."""
    import shutil
    import subprocess
    import tempfile
    import time
    from vlib.core import Machinery
    spec = os.path.join(os.path.dirname(os.path.abspath(__file__)), "..", "spec", "Apa_Chunks.tla")
    if shutil.which("apalache-mc") is None:
        ctx.stages.append({"stage": "DESIGN Apa_Chunks (Apalache)", "outcome": "skipped: apalache-mc not on PATH"})
        return
    work = tempfile.mkdtemp(prefix="apa_", dir=ctx.work)
    text = open(spec).read()
    out = {}
    t0 = time.time()
    for name, inv, body in (("proof", "Inv", text),
                            ("control", "NegParts", text.replace("Inv == ", "NegParts == Parts = MP\nInv == ", 1))):
        d = os.path.join(work, name)
        os.makedirs(d)
        with open(os.path.join(d, "Apa_Chunks.tla"), "w") as fh:
            fh.write(body)
        try:
            p = subprocess.run(["apalache-mc", "check", "--cinit=CInit", "--inv=" + inv, "--length=0",
                                "--out-dir=" + os.path.join(d, "o"), "Apa_Chunks.tla"], cwd=d, text=True,
                               stdout=subprocess.PIPE, stderr=subprocess.STDOUT, timeout=300)
            o = p.stdout
            out[name] = "NoError" if "The outcome is: NoError" in o else "Error" if "The outcome is: Error" in o \
                else "unknown:" + o[-300:]
        except subprocess.TimeoutExpired:
            out[name] = "timeout"
    shutil.rmtree(work, ignore_errors=True)
    if out["proof"] == "Error":
        raise Machinery("Apa_Chunks: Apalache refutes the chunk-partition invariant (spec arithmetic is wrong)")
    if out["proof"] == "NoError" and out["control"] != "Error":
        raise Machinery("Apa_Chunks: negative control not refuted (%s) - the proof would be vacuous" % out["control"])
    ctx.stages.append({"stage": "DESIGN Apa_Chunks (Apalache, SMT): chunks partition [0,N) for EVERY N >= 1, every "
                                "max_parts >= 1, every chunk index; negative control parts = max_parts refuted",
                       "outcome": out, "wall_s": round(time.time() - t0, 1)})


def main(ctx):
    from vlib.core import Machinery
    # ---- design level: the protocol and the chunk arithmetic
    for cfg in (["MC_Mpi_quick"] if ctx.tier == "quick" else ["MC_Mpi_quick", "MC_Mpi"]):
        r = ctx.tlc("MpiProtocol", cfg, workers=8)
        if r.error or r.violated or r.rc != 0:
            raise Machinery("MpiProtocol %s: design-level check failed\n%s" % (cfg, r.out[-3000:]))
        ctx.stages.append({"stage": "DESIGN MpiProtocol/" + cfg + " (ResultsRight, NoException, "
                           "QueueConsistent, CleanRound, Complete, NoDeadlock, Terminates)",
                           "states": r.distinct, "generated": r.generated, "wall_s": round(r.wall, 1)})
    r = ctx.tlc("MC_Chunks", "MC_Chunks")
    if r.error or r.rc != 0:
        raise Machinery("MC_Chunks failed\n" + r.out[-2000:])
    ctx.stages.append({"stage": "DESIGN MC_Chunks: chunk arithmetic partitions [0,N) for N<=64, workers 2..N+2, "
                       "and for every max_parts", "evaluated": [t for t in r.tuples if t and t[0] == "MC_Chunks"]})
    _apalache_chunks(ctx)
    # ---- GEN: every complete behaviour of the protocol with atomic worker steps
    cases = []
    k = 0
    for cfg in GEN_CFGS[ctx.tier]:
        r = ctx.tlc("MpiProtocol", "Gen_C19_" + cfg, workers=1)
        if r.error or r.rc != 0:
            raise Machinery("GEN MpiProtocol/%s failed\n%s" % (cfg, r.out[-2000:]))
        hs = [t for t in r.tuples if t and t[0] == "H"]
        ctx.stages.append({"stage": "GEN MpiProtocol/Gen_C19_" + cfg, "states": r.distinct,
                           "behaviours": len(hs)})
        for h in hs:
            W, parts, hist = h[1], tuple(h[2]), h[3]
            for mi, m in enumerate(MEASURES_X):
                if ctx.tier == "quick" and (k + mi) % len(MEASURES_X) != 0 and len(hs) > 30:
                    continue                      # quick: each behaviour on one measure
                cases.append({"case": "b%d_%s" % (k, m), "blk": "tlc", "W": W, "sizes": SIZES[(W, parts)],
                              "gseed": ctx.seed + (k % 5), "measure": m, "silence": (k + mi) % 4,
                              "tokens": _tokens(hist)})
            k += 1
    # ---- seeded schedules for other worker counts / sizes (2..N+2 workers)
    rng = random.Random(ctx.seed)
    nrand = 90 if ctx.tier == "quick" else 900
    for j in range(nrand):
        sizes = rng.choice([[12], [7, 6], [13, 5, 1], [21], [11, 11], [9, 3, 3, 2]])
        n = sum(sizes)
        W = rng.randint(2, n + 2) if j % 3 else rng.choice([2, n + 2])
        cases.append({"case": "p%d" % j, "blk": "policy", "W": W, "sizes": sizes, "gseed": ctx.seed + j,
                      "measure": MEASURES_X[j % len(MEASURES_X)], "silence": j % 4,
                      "policy": ["lazy", "eager", "reverse", "random"][j % 4]})
    # ... and hub-in-the-middle components (>= 21 nodes: at least three parts), every measure
    # (seven positions of the hub - the graph seed - for every measure)
    j = 0
    for sizes in ([[24]] if ctx.tier == "quick" else [[24], [33], [22, 9], [41]]):
        n = sum(sizes)
        for m in MEASURES_X:
            for hubpos in range(7):
                cases.append({"case": "h%d" % j, "blk": "policy", "W": [2, 3, n + 2][j % 3], "sizes": sizes,
                              "shape": "hubmid", "gseed": hubpos, "measure": m, "silence": (j + 1) % 4,
                              "policy": ["eager", "lazy", "random", "reverse"][j % 4]})
                j += 1
    # ... and a component beyond 100 nodes per worker (131 + 17 + 1 nodes, one or two workers): the regime in which
    # the number of parts is capped by the worker count
    # (W is the number of WORKERS, mpi.size - 1: a single worker with 131 nodes, two workers with 211)
    for j, m in enumerate(MEASURES if ctx.tier == "quick" else MEASURES_X):
        for W, sizes in ((1, [131, 17, 1]), (2, [211, 5])):
            cases.append({"case": "L%d_%d" % (j, W), "blk": "policy", "W": W, "sizes": sizes, "gseed": ctx.seed + j,
                          "measure": m, "silence": 3, "policy": ["eager", "random"][j % 2]})
    ctx.exhaustive = False
    ctx.extra["rule"] = (
        "DESIGN: TLC model-checks MpiProtocol (all interleavings of master and worker steps, liveness) and the chunk "
        "arithmetic.  GEN: TLC enumerates every complete behaviour of the protocol with atomic worker steps for the "
        "cfg worker/job counts; each is replayed on the real utils/mpi.py + core/network.py under the in-process MPI "
        "stand-in (workers 2..N+2 under lazy/eager/reverse/random schedules in addition), silence levels 0..3; VAL "
        "replays every recorded master/worker event through MpiCore and compares the assembled vector with the serial "
        "run.  Chunk kernels are called directly on every contiguous partition; multiprocessing pool once.  "
        "non-trivial = at least two jobs were distributed")
    recs = ctx.run_cases("props.c19.run_case", cases)
    ctx.validate("Val_C19", "Val_C19", recs, stage="protocol", nontrivial=_nontrivial)
    # ---- chunk kernels on all contiguous partitions
    nmax = 5 if ctx.tier == "quick" else 7
    chunk_cases = ctx.gen_cached("Gen_C19_chunks", "Gen_C19_chunks_" + ctx.tier)
    cc = []
    for i, g in enumerate(chunk_cases):
        for m in MEASURES_X:
            cc.append({"case": "k%d_%s" % (i, m), "blk": "chunks", "n": g["n"], "cuts": g["cuts"],
                       "gseed": ctx.seed + i % 3, "measure": m})
    recs2 = ctx.run_cases("props.c19.run_chunks", cc)
    pool = [{"case": "pool%d" % j, "blk": "pool", "sizes": s, "gseed": ctx.seed + j, "st": st, "nsi": nsi}
            for j, (s, st, nsi) in enumerate([([9, 4], 0, 1), ([14], 0, 1), ([14], 1, 1), ([9, 4], 1, 0)])]
    recs3 = ctx.run_cases("props.c19.run_parallelize", pool, jobs=1)
    ctx.validate("Val_C19b", "Val_C19b", recs2 + recs3, stage="chunks+pool", nontrivial=_nontrivial)


def replay(ctx, rep):
    rec = rep["record"]
    if rec.get("blk") in ("tlc", "policy"):
        case = {k: v for k, v in rec.items() if k not in ("serial", "dist", "events", "parts", "exc",
                                                            "serial_exc", "forced", "skipped", "leftover")}
        recs = ctx.run_cases("props.c19.run_case", [case], jobs=1)
        ctx.validate("Val_C19", "Val_C19", recs, stage="protocol", nontrivial=_nontrivial)
    else:
        fn = "props.c19.run_chunks" if rec.get("blk") == "chunks" else "props.c19.run_parallelize"
        case = {k: v for k, v in rec.items() if k not in ("full", "asm", "serial", "dist", "exc")}
        recs = ctx.run_cases(fn, [case], jobs=1)
        ctx.validate("Val_C19b", "Val_C19b", recs, stage="chunks+pool", nontrivial=_nontrivial)
