"""Binding of ObjectSM's abstract tokens to concrete pyunicorn objects, per class family.

Each family provides
  build(abs)          a fresh object for abstract state `abs` (this is also the twin)
  mutate(obj, m, v)   performs mutator call <<m, v>> of ObjectSM's alphabet on the object
  calls(obj)          extra (label, thunk) queries with argument patterns
The concrete arrays bound to tokens 1/2 are fixed small examples (6 nodes / 12 samples)."""
import os

import numpy as np

from props import netcommon

# ------------------------------------------------------------------ concrete values
A1 = np.array([[0, 0, 0, 1, 1, 1], [0, 0, 1, 1, 1, 0], [0, 1, 0, 0, 1, 0],
               [1, 1, 0, 0, 0, 0], [1, 1, 1, 0, 0, 0], [1, 0, 0, 0, 0, 0]])
# token 2 is a DISCONNECTED graph: a triangle with a pendant node {0,1,2,3}, an isolated node 4 ... and
# node 5 attached to 3 would connect it, so: component {0,1,2}, component {3,5}, isolated node 4
A2 = np.array([[0, 1, 1, 0, 0, 0], [1, 0, 1, 0, 0, 0], [1, 1, 0, 0, 0, 0],
               [0, 0, 0, 0, 0, 1], [0, 0, 0, 0, 0, 0], [0, 0, 0, 1, 0, 0]])
D1 = np.array([[0, 1, 0, 1, 0, 0], [0, 0, 1, 0, 1, 0], [0, 0, 0, 1, 0, 0],
               [0, 1, 0, 0, 0, 0], [1, 0, 0, 1, 0, 1], [0, 0, 0, 1, 1, 0]])
# directed token 2: a 3-cycle with a reciprocated link {0,1,2}, a one-way link 3->5, isolated node 4
D2 = np.array([[0, 1, 0, 0, 0, 0], [1, 0, 1, 0, 0, 0], [1, 0, 0, 0, 0, 0],
               [0, 0, 0, 0, 0, 1], [0, 0, 0, 0, 0, 0], [0, 0, 0, 0, 0, 0]])
ADJ = {False: {1: A1, 2: A2}, True: {1: D1, 2: D2}}
WEIGHTS = {0: None, 1: np.array([1.5, 1.7, 1.9, 2.1, 2.3, 2.5]), 2: np.array([2.0, 1.0, 0.5, 3.0, 1.0, 1.5])}


def link_attr(v, n=6):
    i, j = np.indices((n, n))
    base = 1.0 + ((i + 1) * (j + 1) + v * (i + j)) % 5 + 0.25 * v
    return (base + base.T) / 2.0


def edge_list(A, directed):
    idx = np.argwhere(A)
    if not directed:
        idx = idx[idx[:, 0] < idx[:, 1]]
    return idx.tolist()


def _grid(n=6, t=10):
    from pyunicorn.core import GeoGrid
    return GeoGrid(np.arange(float(t)), np.linspace(0.0, 75.0, n), np.linspace(2.5, 140.0, n),
                   silence_level=3)


def _ggrid(n=6, t=10):
    """Grid of the GeoNetwork family: no node on the equator or the zero meridian (node 0 in particular)."""
    from pyunicorn.core import GeoGrid
    return GeoGrid(np.arange(float(t)), np.linspace(-40.0, 75.0, n), np.linspace(20.0, 140.0, n), silence_level=3)


SERIES = np.array([0.0, 0.8, 1.5, 0.9, 0.1, -0.7, -1.4, -0.8, 0.2, 1.0, 1.3, 0.4])
SERIES_Y = np.array([0.3, 1.1, 0.6, -0.2, -1.0, -1.2, -0.1, 0.9, 1.4, 0.5, -0.6, -0.9])
RP_PARAM = {"threshold": {1: 0.6, 2: 1.1}, "threshold_std": {1: 0.5, 2: 1.0},
            "recurrence_rate": {1: 0.25, 2: 0.5}, "local_recurrence_rate": {1: 0.25, 2: 0.5},
            "adaptive_neighborhood_size": {1: 2, 2: 4}}
RES = {1: np.array([[0, 2, 0, 0, 0], [2, 0, 8, 2, 0], [0, 8, 0, 8, 0], [0, 2, 8, 0, 2], [0, 0, 0, 2, 0]], dtype=float),
       2: np.array([[0, 1, 0, 0, 0], [1, 0, 4, 3, 0], [0, 4, 0, 2, 0], [0, 3, 2, 0, 5], [0, 0, 0, 5, 0]], dtype=float)}
SIM = np.array([[1.0, 0.1, 0.2, 0.6, 0.7, 0.55], [0.1, 1.0, 0.25, 0.65, 0.75, 0.3],
                [0.2, 0.25, 1.0, 0.05, 0.45, 0.15], [0.6, 0.65, 0.05, 1.0, 0.02, 0.35],
                [0.7, 0.75, 0.45, 0.02, 1.0, 0.12], [0.55, 0.3, 0.15, 0.35, 0.12, 1.0]])
CLIM_PARAM = {"threshold": {1: 0.5, 2: 0.2}, "link_density": {1: 0.3, 2: 0.6}}
WINDOWS = {1: {"time_min": 1.0, "time_max": 6.0, "lat_min": 0.0, "lat_max": 45.0, "lon_min": 0.0, "lon_max": 90.0},
           2: {"time_min": 0.0, "time_max": 0.0, "lat_min": 15.0, "lat_max": 75.0, "lon_min": 30.0, "lon_max": 140.0}}


def _data(n=6, t=10):
    k = np.arange(t)[:, None]
    j = np.arange(n)[None, :]
    return np.sin(2 * np.pi * k / 5.0 + j) + 0.1 * ((k * (j + 2)) % 3)


# ------------------------------------------------------------------ families
HELD = {}      # id(object) -> {mutator: the caller-owned array passed last time}


class NetworkFamily:
    name = "network"
    directed = False

    def cls(self):
        from pyunicorn.core import Network
        return Network

    def build(self, a):
        net = self.cls()(adjacency=ADJ[self.directed][a["A"]].copy(), directed=self.directed,
                         node_weights=None if a["W"] == 0 else WEIGHTS[a["W"]].copy(), silence_level=3)
        if a["LA"]:
            net.set_link_attribute("w", link_attr(a["LA"]))
        return net

    def mutate(self, obj, m, v):
        held = HELD.setdefault(id(obj), {})
        if m == "node_weights~getset":        # take the array the object hands out, edit it, assign it back
            w = obj.node_weights
            w[...] = WEIGHTS[v]
            obj.node_weights = w
            return
        same = m.endswith("~same")
        m = m[:-5] if same else m

        def arr(new):
            """The caller's array: a fresh one, or (~same) the one passed last time, edited in place."""
            new = np.array(new)
            old = held.get(m)
            if same and old is not None and old.shape == new.shape:
                old[...] = new
                return old
            held[m] = new
            return new
        if m == "adjacency":
            obj.adjacency = arr(ADJ[self.directed][v])
        elif m == "set_edge_list":
            obj.set_edge_list(edge_list(ADJ[self.directed][v], self.directed), n_nodes=6)
        elif m == "node_weights":
            obj.node_weights = arr(WEIGHTS[v])
        elif m == "set_link_attribute":
            obj.set_link_attribute("w", arr(link_attr(v)))
        elif m == "del_link_attribute":
            obj.del_link_attribute("w")
        elif m == "randomly_rewire":
            # degree-preserving rewiring; token 3 is bound to whatever graph results (the twin is built from it)
            import random as pyrandom
            pyrandom.seed(7)
            np.random.seed(7)
            obj.randomly_rewire(4)
            ADJ[self.directed][3] = np.array(obj.adjacency)
        else:
            raise ValueError(m)

    def names(self, obj):
        # eigenvector centralities come from an iterative solver with a random start: they are a function
        # of the network only where the Perron vector is unique (undirected and connected)
        unique = (not self.directed) and len(obj.graph.connected_components(mode="weak")) == 1
        return [n for n in netcommon.discover(obj) if unique or "eigenvector" not in n]

    def calls(self, obj, a):
        c = [("N", lambda: obj.N), ("n_links", lambda: obj.n_links),
             ("link_density", lambda: obj.link_density),
             ("total_node_weight", lambda: obj.total_node_weight),
             ("mean_node_weight", lambda: obj.mean_node_weight),
             ("adjacency", lambda: obj.adjacency), ("node_weights", lambda: obj.node_weights),
             ("graph.degree", lambda: np.array(obj.graph.degree()))]
        for nm in ("nsi_degree", "nsi_indegree", "nsi_outdegree", "nsi_local_clustering"):
            c.append((nm + "(typical_weight=2)", lambda nm=nm: getattr(obj, nm)(typical_weight=2.0)))
        c.append(("interregional_betweenness(S,T)",
                  lambda: obj.interregional_betweenness(sources=[0, 1, 2], targets=[3, 4, 5])))
        c.append(("nsi_betweenness(S,T)", lambda: obj.nsi_betweenness(sources=[0, 1], targets=[2, 3, 4, 5])))
        c.append(("distance_based_measures(replace_inf_by=N)",
                  lambda: obj.distance_based_measures(replace_inf_by=obj.N)))
        c.append(("hamming_distance_from(token 2)", lambda: obj.hamming_distance_from(
            type(obj)(adjacency=ADJ[self.directed][2].copy(), directed=self.directed, silence_level=3))
            if type(obj).__name__ in ("Network", "InteractingNetworks") and obj.N == len(ADJ[self.directed][2]) else 0.0))
        c.append(("local_cliquishness(4)", lambda: obj.local_cliquishness(4)))
        c.append(("higher_order_transitivity(4)", lambda: obj.higher_order_transitivity(4)))
        if a.get("LA"):
            for nm in ("degree", "indegree", "outdegree", "bildegree", "nsi_degree", "nsi_indegree",
                       "nsi_outdegree", "local_cyclemotif_clustering", "local_midmotif_clustering",
                       "local_inmotif_clustering", "local_outmotif_clustering",
                       "nsi_local_cyclemotif_clustering", "nsi_local_midmotif_clustering",
                       "nsi_local_inmotif_clustering", "nsi_local_outmotif_clustering"):
                c.append((nm + "(key=w)", lambda nm=nm: getattr(obj, nm)("w")))
            for nm in ("path_lengths", "average_path_length", "closeness", "global_efficiency",
                       "local_vulnerability", "laplacian", "pagerank"):
                c.append((nm + "(link_attribute=w)", lambda nm=nm: getattr(obj, nm)(link_attribute="w")))
            c.append(("link_attribute(w)", lambda: obj.link_attribute("w")))
            c.append(("average_link_attribute(w)", lambda: obj.average_link_attribute("w")))
        return c


class DirNetworkFamily(NetworkFamily):
    name = "dirnetwork"
    directed = True


class InteractingFamily(NetworkFamily):
    name = "interacting"

    def cls(self):
        from pyunicorn.core import InteractingNetworks
        return InteractingNetworks

    def calls(self, obj, a):
        from props.c11 import PAIR, SINGLE
        c = NetworkFamily.calls(self, obj, a)
        for nm in PAIR:
            c.append((nm + "(G1,G2)", lambda nm=nm: getattr(obj, nm)([0, 3, 5], [1, 2, 4])))
        for nm in SINGLE:
            c.append((nm + "(G1)", lambda nm=nm: getattr(obj, nm)([0, 3, 5])))
        return c


class GeoNetworkFamily(NetworkFamily):
    name = "geonetwork"
    TYPES = {0: None, 1: "surface", 2: "irrigation"}

    def build(self, a):
        from pyunicorn.core import GeoNetwork
        net = GeoNetwork(_ggrid(), adjacency=ADJ[False][a["A"]].copy(), directed=False,
                         node_weight_type=self.TYPES[a["NWT"]], silence_level=3)
        if a["W"]:
            net.node_weights = WEIGHTS[a["W"]].copy()
        if a["LA"]:
            net.set_link_attribute("w", link_attr(a["LA"]))
        return net

    def calls(self, obj, a):
        return NetworkFamily.calls(self, obj, a) + netcommon.geo_calls(obj)

    def mutate(self, obj, m, v):
        if m == "set_node_weight_type":
            obj.set_node_weight_type(self.TYPES[v])
        elif m.startswith("randomly_rewire_geomodel") or m == "set_random_links_by_distance":
            import random as pyrandom
            pyrandom.seed(11)
            np.random.seed(11)
            if m == "set_random_links_by_distance":
                obj.set_random_links_by_distance(a=0.0, b=-2.0)
            else:
                getattr(obj, m)(obj.grid.distance(), 2, 1.0e6)     # any link length is acceptable: a swap always exists
            ADJ[False][3] = np.array(obj.adjacency)
        else:
            NetworkFamily.mutate(self, obj, m, v)


# tokens 3 / 4 of the resistive family: the resistances of tokens 1 / 2 in gigaohm (times 2^30)
RES[3] = RES[1] * 2.0**30
RES[4] = RES[2] * 2.0**30


class ResNetworkFamily:
    name = "resnetwork"

    def build(self, a):
        from pyunicorn.core import ResNetwork
        return ResNetwork(RES[a["R"]].copy(), silence_level=3)

    def mutate(self, obj, m, v):
        held = HELD.setdefault(id(obj), {})
        new = RES[v].copy()
        if m.endswith("~same") and "R" in held:
            held["R"][...] = new
            new = held["R"]
        held["R"] = new
        obj.update_resistances(new)

    def names(self, obj):
        return [n for n in netcommon.discover(obj)
                if n in ("admittive_degree", "average_neighbors_admittive_degree", "local_admittive_clustering",
                         "global_admittive_clustering", "average_effective_resistance",
                         "diameter_effective_resistance", "edge_current_flow_betweenness", "get_admittance",
                         "get_R", "admittance_lapacian", "degree", "nsi_degree", "betweenness", "closeness")]

    def calls(self, obj, a):
        c = [("effective_resistance(%d,%d)" % (i, j), lambda i=i, j=j: obj.effective_resistance(i, j))
             for i in range(5) for j in range(i + 1, 5)]
        c += [("vertex_current_flow_betweenness(%d)" % i, lambda i=i: obj.vertex_current_flow_betweenness(i))
              for i in range(5)]
        c += [("effective_resistance_closeness_centrality(%d)" % i,
               lambda i=i: obj.effective_resistance_closeness_centrality(i)) for i in range(5)]
        c.append(("resistances", lambda: obj.resistances))
        return c


RP_SKIP = ("twin_surrogates", "twins", "resample_diagline_dist", "resample_vertline_dist",
           "bootstrap_distance_matrix", "rejection_sampling", "legendre_coordinates",
           "embed_time_series", "normalize_time_series", "threshold_from_recurrence_rate",
           "threshold_from_recurrence_rate_fast", "distance_matrix", "permutation_entropy",
           "complexity_entropy")


class RpFamily:
    name = "rp"
    network = False

    def cls(self):
        from pyunicorn.timeseries import RecurrencePlot
        return RecurrencePlot

    def build(self, a):
        return self.cls()(SERIES.copy(), metric="supremum", silence_level=3,
                          **{a["MODE"]: RP_PARAM[a["MODE"]][a["P"]]})

    def mutate(self, obj, m, v):
        mode = m[len("set_"):].replace("fixed_", "")
        getattr(obj, m)(RP_PARAM[mode][v])

    def names(self, obj):
        # (recurrence networks may be disconnected: the eigenvector centralities are not unique there)
        return [n for n in netcommon.discover(obj, extra_skip=RP_SKIP) if "eigenvector" not in n]

    def calls(self, obj, a):
        c = [("N", lambda: obj.N), ("recurrence_matrix", lambda: obj.recurrence_matrix())]
        for nm in ("determinism", "average_diaglength", "diag_entropy", "laminarity", "trapping_time",
                   "vert_entropy"):
            c.append((nm + "(3)", lambda nm=nm: getattr(obj, nm)(3)))
        # twins of the CURRENT recurrence matrix (plain / cross plots only define them for square matrices)
        if type(obj).__name__ in ("RecurrencePlot", "RecurrenceNetwork"):
            c.append(("twins(1)~count", lambda: [len(t) for t in obj.twins(min_dist=1)[:obj.N]]))
            c.append(("recurrence_probability(1)", lambda: obj.recurrence_probability(1)))
        if self.network:
            c += [("adjacency", lambda: obj.adjacency), ("n_links", lambda: obj.n_links),
                  ("link_density", lambda: obj.link_density)]
        return c


class RnFamily(RpFamily):
    name = "rn"
    network = True

    def cls(self):
        from pyunicorn.timeseries import RecurrenceNetwork
        return RecurrenceNetwork


class CrpFamily(RpFamily):
    name = "crp"

    def build(self, a):
        from pyunicorn.timeseries import CrossRecurrencePlot
        return CrossRecurrencePlot(SERIES.copy(), SERIES_Y[:9].copy(), metric="supremum", silence_level=3,
                                   **{a["MODE"]: RP_PARAM[a["MODE"]][a["P"]]})

    def names(self, obj):
        return ["recurrence_rate", "cross_recurrence_rate", "balance", "manhattan_distance_matrix",
                "euclidean_distance_matrix", "supremum_distance_matrix"]

    def calls(self, obj, a):
        return [("N", lambda: obj.N), ("M", lambda: obj.M), ("recurrence_matrix", lambda: obj.recurrence_matrix())]


class JrpFamily(RpFamily):
    name = "jrp"

    def cls(self):
        from pyunicorn.timeseries import JointRecurrencePlot
        return JointRecurrencePlot

    @staticmethod
    def pair(mode, v):
        """(x, y) settings of a token; token 3 = x of token 1 with y of token 2."""
        if v == 3:
            return (RP_PARAM[mode][1], RP_PARAM[mode][2] * 1.25)
        return (RP_PARAM[mode][v], RP_PARAM[mode][v] * 1.25)

    def build(self, a):
        return self.cls()(SERIES.copy(), SERIES_Y.copy(), metric=("supremum", "supremum"), lag=1,
                          silence_level=3, **{a["MODE"]: self.pair(a["MODE"], a["P"])})

    def mutate(self, obj, m, v):
        mode = m[len("set_"):].replace("fixed_", "")
        getattr(obj, m)(self.pair(mode, v))

    def names(self, obj):
        return [n for n in netcommon.discover(obj, extra_skip=RP_SKIP)
                if not n.endswith("distance_matrix") and "eigenvector" not in n]


class JrnFamily(JrpFamily):
    name = "jrn"
    network = True

    def cls(self):
        from pyunicorn.timeseries import JointRecurrenceNetwork
        return JointRecurrenceNetwork


class ClimateFamily:
    name = "climate"

    def build(self, a):
        from pyunicorn.climate import ClimateNetwork
        return ClimateNetwork(_grid(), SIM.copy(), non_local=bool(a["NL"]), silence_level=3,
                              **{a["MODE"]: CLIM_PARAM[a["MODE"]][a["P"]]})

    def mutate(self, obj, m, v):
        if m == "set_non_local":
            obj.set_non_local(bool(v))
        else:
            getattr(obj, m)(CLIM_PARAM[m[len("set_"):]][v])

    def names(self, obj):
        return netcommon.discover(obj, extra_skip=("link_density_function", "inv_correlation_distance"))

    def calls(self, obj, a):
        return [("N", lambda: obj.N), ("n_links", lambda: obj.n_links), ("link_density", lambda: obj.link_density),
                ("adjacency", lambda: obj.adjacency), ("total_node_weight", lambda: obj.total_node_weight)] \
            + netcommon.geo_calls(obj)


def _data12(n=6, t=24):
    """Two years of monthly data (time cycle 12) - winter_only selects months 0, 1, 11."""
    k = np.arange(t)[:, None]
    j = np.arange(n)[None, :]
    return np.sin(2 * np.pi * k / 12.0 + 0.7 * j) + 0.3 * np.cos(2 * np.pi * k / 5.0 + j * j) \
        + 0.05 * ((k * (j + 3)) % 7)


class TsonisFamily(ClimateFamily):
    """Data-driven climate network: set_winter_only recomputes the similarity from the shared data."""
    name = "tsonis"
    extra = {"WO": "winter_only"}

    def cls(self):
        from pyunicorn.climate import TsonisClimateNetwork
        return TsonisClimateNetwork

    def data(self):
        return _data12()

    def build(self, a):
        from pyunicorn.climate import ClimateData
        cd = ClimateData(self.data(), _grid(t=24), 12, silence_level=3)
        kw = {a["MODE"]: CLIM_PARAM[a["MODE"]][a["P"]]}
        for key, arg in self.extra.items():
            kw[arg] = bool(a[key])
        return self.cls()(cd, non_local=bool(a["NL"]), silence_level=3, **kw)

    def mutate(self, obj, m, v):
        if m in ("set_winter_only", "set_directed"):
            getattr(obj, m)(bool(v))
        else:
            ClimateFamily.mutate(self, obj, m, v)

    def names(self, obj):
        return [n for n in ClimateFamily.names(self, obj) if "eigenvector" not in n]

    def calls(self, obj, a):
        c = ClimateFamily.calls(self, obj, a)
        c.append(("similarity_measure", obj.similarity_measure))
        for nm in ("correlation", "coherence", "phase_shift"):
            if hasattr(obj, nm):
                c.append((nm, getattr(obj, nm)))
        return c


class HilbertFamily(TsonisFamily):
    name = "hilbert"
    extra = {"DIR": "directed"}

    def data(self):
        """Two of the six series are bit-identical (a duplicated record): coherence 1, phase shift exactly 0 -
        a directed network has no link between them in either direction, an undirected one has."""
        # (values in quarters: for this data the rounding residue of the phase of the identical pair is not positive
        # in either direction, so the directed network has NO link between the two - the case a re-orientation of
        # existing links cannot recover)
        d = np.round(_data12() * 4.0) / 4.0
        d[:, 5] = d[:, 0]
        return d

    def cls(self):
        from pyunicorn.climate import HilbertClimateNetwork
        return HilbertClimateNetwork


class SpearmanFamily(TsonisFamily):
    name = "spearman"

    def cls(self):
        from pyunicorn.climate import SpearmanClimateNetwork
        return SpearmanClimateNetwork


class PartialCorrFamily(TsonisFamily):
    """Five years of data: the 15 winter samples keep the covariance of the 6 series regular (the inverse of a
    singular covariance matrix is not a partial correlation)."""
    name = "partialcorr"

    def cls(self):
        from pyunicorn.climate import PartialCorrelationClimateNetwork
        return PartialCorrelationClimateNetwork

    def build(self, a):
        from pyunicorn.climate import ClimateData
        k = np.arange(60)[:, None]
        j = np.arange(6)[None, :]
        data = _data12(t=60) + 0.4 * np.sin(0.9 * k * (j + 1) + j * j) + 0.2 * ((k * k + 3 * j * k) % 11) / 11.0
        cd = ClimateData(data, _grid(t=60), 12, silence_level=3)
        kw = {a["MODE"]: CLIM_PARAM[a["MODE"]][a["P"]], "winter_only": bool(a["WO"])}
        return self.cls()(cd, non_local=bool(a["NL"]), silence_level=3, **kw)


class MutualInfoFamily(TsonisFamily):
    """set_winter_only / mutual_information may write and read `mutual_information_*.data` in the current
    directory (documented file cache): every mutation runs in a scratch directory that is removed afterwards."""
    name = "mutualinfo"

    def cls(self):
        from pyunicorn.climate import MutualInfoClimateNetwork
        return MutualInfoClimateNetwork

    def mutate(self, obj, m, v):
        import shutil
        import tempfile
        here = os.getcwd()
        d = tempfile.mkdtemp(prefix="pyu_mi_", dir="/var/tmp")
        os.chdir(d)
        try:
            TsonisFamily.mutate(self, obj, m, v)
        finally:
            os.chdir(here)
            shutil.rmtree(d, ignore_errors=True)


class HavlinFamily(TsonisFamily):
    name = "havlin"
    extra = {}
    DELAY = {1: 2, 2: 3}

    def cls(self):
        from pyunicorn.climate import HavlinClimateNetwork
        return HavlinClimateNetwork

    def data(self):
        return _data12()

    def build(self, a):
        from pyunicorn.climate import ClimateData
        cd = ClimateData(self.data(), _grid(t=24), 12, silence_level=3)
        kw = {a["MODE"]: CLIM_PARAM[a["MODE"]][a["P"]]}
        return self.cls()(cd, self.DELAY[a["MD"]], non_local=bool(a["NL"]), silence_level=3, **kw)

    def mutate(self, obj, m, v):
        if m == "set_max_delay":
            obj.set_max_delay(self.DELAY[v])
        else:
            ClimateFamily.mutate(self, obj, m, v)


class IsrnFamily:
    """Inter-system recurrence network: both setters rebuild the whole network."""
    name = "isrn"
    PARAM = {"threshold": {1: (0.6, 0.7, 0.8), 2: (1.0, 0.9, 1.2), 3: (0.6, 1.1, 0.8), 4: (0.6, 0.7, 1.3)},
             "recurrence_rate": {1: (0.2, 0.3, 0.25), 2: (0.4, 0.35, 0.5), 3: (0.2, 0.45, 0.25), 4: (0.2, 0.3, 0.45)}}

    def build(self, a):
        from pyunicorn.timeseries import InterSystemRecurrenceNetwork
        return InterSystemRecurrenceNetwork(SERIES.copy(), SERIES_Y[:9].copy(), metric="supremum", silence_level=3,
                                            **{a["MODE"]: self.PARAM[a["MODE"]][a["P"]]})

    def mutate(self, obj, m, v):
        mode = m[len("set_fixed_"):]
        getattr(obj, m)(self.PARAM[mode][v])

    def names(self, obj):
        return [n for n in netcommon.discover(obj) if "eigenvector" not in n]

    def calls(self, obj, a):
        return [("N", lambda: obj.N), ("n_links", lambda: obj.n_links), ("adjacency", lambda: obj.adjacency),
                ("inter_system_recurrence_matrix", obj.inter_system_recurrence_matrix),
                ("internal_recurrence_rates", obj.internal_recurrence_rates),
                ("cross_recurrence_rate", obj.cross_recurrence_rate),
                ("cross_global_clustering_xy", obj.cross_global_clustering_xy),
                ("cross_global_clustering_yx", obj.cross_global_clustering_yx),
                ("cross_transitivity_xy", obj.cross_transitivity_xy),
                ("cross_transitivity_yx", obj.cross_transitivity_yx)]


class CcnFamily(ClimateFamily):
    """CoupledClimateNetwork: two layers of three nodes; the wrappers are part of the queries."""
    name = "ccn"
    WRAPPERS = ("cross_layer_adjacency", "adjacency_1", "adjacency_2", "path_lengths_1", "path_lengths_2",
                "cross_path_lengths", "number_cross_layer_links", "number_internal_links", "cross_link_density",
                "internal_link_density", "internal_global_clustering", "cross_global_clustering",
                "cross_transitivity", "cross_average_path_length", "internal_average_path_length",
                "cross_degree", "internal_degree", "cross_local_clustering", "cross_closeness",
                "internal_closeness", "cross_betweenness", "internal_betweenness_1", "internal_betweenness_2",
                "cross_link_distance", "cross_average_link_distance", "similarity_measure_1",
                "similarity_measure_2", "cross_similarity_measure")

    def build(self, a):
        from pyunicorn.core import GeoGrid
        from pyunicorn.climate import CoupledClimateNetwork
        g = _grid().grid()
        g1 = GeoGrid(np.arange(10.0), g["lat"][:3], g["lon"][:3], silence_level=3)
        g2 = GeoGrid(np.arange(10.0), g["lat"][3:], g["lon"][3:], silence_level=3)
        net = CoupledClimateNetwork(g1, g2, SIM.copy(), non_local=bool(a["NL"]), silence_level=3,
                                    **{a["MODE"]: CLIM_PARAM[a["MODE"]][a["P"]]})
        if a.get("LA"):
            net.set_link_attribute("w", link_attr(a["LA"]))
        return net

    def mutate(self, obj, m, v):
        if m == "set_link_attribute":
            obj.set_link_attribute("w", link_attr(v))
        elif m == "del_link_attribute":
            if "w" in obj.graph.es.attributes():
                obj.del_link_attribute("w")
        else:
            ClimateFamily.mutate(self, obj, m, v)

    def names(self, obj):
        return [n for n in ClimateFamily.names(self, obj) if "eigenvector" not in n]

    LA_WRAPPERS = ("path_lengths_1", "path_lengths_2", "cross_path_lengths", "cross_average_path_length",
                   "internal_average_path_length", "cross_closeness", "internal_closeness", "path_lengths",
                   "average_path_length", "closeness", "global_efficiency", "degree")

    def calls(self, obj, a):
        c = ClimateFamily.calls(self, obj, a)
        for nm in self.WRAPPERS:
            if hasattr(obj, nm):
                c.append((nm, getattr(obj, nm)))
        if a.get("LA"):
            for nm in self.LA_WRAPPERS:
                if hasattr(obj, nm):
                    c.append((nm + "(w)", lambda nm=nm: getattr(obj, nm)("w")))
        return c


class CtsonisFamily(CcnFamily):
    """CoupledTsonisClimateNetwork: two data sets (three nodes each), winter months selected."""
    name = "ctsonis"

    def build(self, a):
        from pyunicorn.core import GeoGrid
        from pyunicorn.climate import ClimateData, CoupledTsonisClimateNetwork
        g = _grid().grid()
        d = _data12()
        t = np.arange(24.0)
        cd1 = ClimateData(d[:, :3].copy(), GeoGrid(t, g["lat"][:3], g["lon"][:3], silence_level=3), 12, silence_level=3)
        cd2 = ClimateData(d[:, 3:].copy(), GeoGrid(t, g["lat"][3:], g["lon"][3:], silence_level=3), 12, silence_level=3)
        return CoupledTsonisClimateNetwork(cd1, cd2, non_local=bool(a["NL"]), selected_months=[0, 1, 11],
                                           silence_level=3, **{a["MODE"]: CLIM_PARAM[a["MODE"]][a["P"]]})

    def calls(self, obj, a):
        c = CcnFamily.calls(self, obj, a)
        c.append(("correlation", obj.correlation))
        return c


class EscnFamily(ClimateFamily):
    """EventSeriesClimateNetwork (event synchronisation of thresholded climate data)."""
    name = "escn"

    def build(self, a):
        from pyunicorn.climate import ClimateData, EventSeriesClimateNetwork
        cd = ClimateData(_data12(), _grid(t=24), 12, silence_level=3)
        net = EventSeriesClimateNetwork(cd, method="ES", taumax=4.0, symmetrization="mean",
                                        threshold_method="quantile", threshold_values=0.7,
                                        threshold_types="above", non_local=bool(a["NL"]), silence_level=3)
        if not (a["MODE"] == "threshold" and a["P"] == 0):
            getattr(net, "set_" + a["MODE"])(CLIM_PARAM[a["MODE"]][a["P"]])
        return net

    def names(self, obj):
        return [n for n in ClimateFamily.names(self, obj) if "eigenvector" not in n]

    def calls(self, obj, a):
        c = ClimateFamily.calls(self, obj, a)
        c.append(("similarity_measure", obj.similarity_measure))
        c.append(("get_event_matrix", obj.get_event_matrix))
        c.append(("ES(directed)", lambda: obj.event_series_analysis(method="ES", symmetrization="directed")))
        return c


class ClimateDataFamily:
    name = "climatedata"

    def build(self, a):
        from pyunicorn.climate import ClimateData
        cd = ClimateData(_data(), _grid(), 5, silence_level=3)
        if a["WIN"]:
            cd.set_window(dict(WINDOWS[a["WIN"]]))
        return cd

    def mutate(self, obj, m, v):
        if m == "set_window":
            obj.set_window(dict(WINDOWS[v]))
        else:
            obj.set_global_window()

    def names(self, obj):
        return ["observable", "phase_indices", "phase_mean", "anomaly"]

    def calls(self, obj, a):
        return [("grid.lat", lambda: obj.grid.grid()["lat"]), ("grid.time", lambda: obj.grid.grid()["time"]),
                ("grid.N", lambda: obj.grid.N),
                ("grid.angular_distance", lambda: obj.grid.angular_distance())]


class VisibilityFamily(NetworkFamily):
    name = "visibility"

    def build(self, a):
        from pyunicorn.timeseries import VisibilityGraph
        vg = VisibilityGraph(SERIES[:6].copy(), silence_level=3)
        if a["W"]:
            vg.node_weights = WEIGHTS[a["W"]].copy()
        if a["LA"]:
            vg.set_link_attribute("w", link_attr(a["LA"]))
        return vg


class SurrogatesFamily:
    """Surrogates: the only state change is normalize_original_data (in place on the stored data).  Random
    generators are observed through a deterministic functional of their result, or with a fixed seed."""
    name = "surrogates"

    def _data(self):
        t = np.arange(16)
        return np.array([2.0 + k + np.sin(t * 0.7 + k) * (1.0 + 0.5 * k) + 0.3 * np.cos(t * 1.9 + 2 * k)
                         for k in range(3)])

    def build(self, a):
        from pyunicorn.timeseries import Surrogates
        s = Surrogates(original_data=self._data(), silence_level=3)
        if a["NORM"]:
            s.normalize_original_data()
        if a.get("EMB"):
            s.embedding = self._foreign(s, a["EMB"])
        return s

    @staticmethod
    def _foreign(s, v):
        """An embedding other than the one the twin queries ask for: dimension 3 / delay 1, or dimension 2 / delay 3."""
        dim, tau = {1: (3, 1), 2: (2, 3)}[v]
        return s.embed_time_series_array(s.original_data, dim, tau)

    def mutate(self, obj, m, v):
        if m == "embedding":
            obj.embedding = self._foreign(obj, v)
            return
        if m != "normalize_original_data":
            raise ValueError(m)
        obj.normalize_original_data()

    def names(self, obj):
        return []

    def calls(self, obj, a):
        def seeded(fn):
            def run():
                np.random.seed(11)
                return fn()
            return run
        return [
            ("original_data", lambda: obj.original_data),
            ("original_data_fft~abs", lambda: np.abs(obj.original_data_fft())),
            ("correlated_noise_surrogates~fft-amplitudes",
             lambda: np.abs(np.fft.rfft(obj.correlated_noise_surrogates(), axis=1))[:, 1:-1]),
            ("AAFT_surrogates~sorted", lambda: np.sort(obj.AAFT_surrogates(), axis=1)),
            ("white_noise_surrogates~sorted", lambda: np.sort(obj.white_noise_surrogates(), axis=1)),
            # the SAME embedding parameters at every observation (a stale embedding shows)
            # (the twin walk draws from the C library's generator: only the shape is a function of the state;
            #  the twins and the embedding it leaves behind are observed next - labels sort in this order)
            ("twin_surrogates(2,1,0.6)~shape", lambda: np.array(obj.twin_surrogates(2, 1, 0.6, min_dist=2).shape)),
            ("twins(0.6)~count", lambda: [len(t) for row in obj.twins(0.6, min_dist=2) for t in row]),
            ("twins~embedding", lambda: obj.embedding),
        ]


FAMILIES = {f.name: f for f in (CtsonisFamily(), SpearmanFamily(), PartialCorrFamily(), MutualInfoFamily(), HavlinFamily(), CcnFamily(), EscnFamily(), TsonisFamily(), HilbertFamily(), IsrnFamily(), SurrogatesFamily(), NetworkFamily(), DirNetworkFamily(), InteractingFamily(), GeoNetworkFamily(),
                                ResNetworkFamily(), RpFamily(), RnFamily(), CrpFamily(), JrpFamily(),
                                JrnFamily(), ClimateFamily(), ClimateDataFamily(), VisibilityFamily())}


def apply_abs(a, m, v):
    """Python mirror of ObjectSM!Apply (used only to construct the twin; TLC checks it)."""
    a = dict(a)
    if m.endswith("~same"):
        m = m[:-5]
    if m.endswith("~getset"):
        m = m[:-7]
    if m in ("adjacency", "set_edge_list", "randomly_rewire", "randomly_rewire_geomodel_I",
             "randomly_rewire_geomodel_II", "randomly_rewire_geomodel_III", "set_random_links_by_distance"):
        a["A"], a["LA"] = v, 0
    elif m == "node_weights":
        a["W"] = v
    elif m == "set_link_attribute":
        a["LA"] = v
    elif m == "del_link_attribute":
        a["LA"] = 0
    elif m == "set_node_weight_type":
        a["NWT"], a["W"] = v, 0
    elif m == "update_resistances":
        a["R"] = v
    elif m.startswith("set_fixed_") or m == "set_adaptive_neighborhood_size":
        a["MODE"], a["P"] = m[len("set_"):].replace("fixed_", ""), v
    elif m in ("set_threshold", "set_link_density"):
        a["MODE"], a["P"] = m[len("set_"):], v
        if "LA" in a:
            a["LA"] = 0           # the graph is rebuilt: link attributes do not survive
    elif m == "set_non_local":
        if "LA" in a and a["NL"] != v:      # (a real change rebuilds the graph; the same value is a no-op)
            a["LA"] = 0
        a["NL"] = v
    elif m == "set_window":
        a["WIN"] = v
    elif m == "set_global_window":
        a["WIN"] = 0
    elif m == "normalize_original_data":
        a["NORM"] = 1
    elif m == "embedding":
        a["EMB"] = v
    elif m in ("set_winter_only", "set_directed", "set_max_delay"):
        a[{"set_winter_only": "WO", "set_directed": "DIR", "set_max_delay": "MD"}[m]] = v
        if a.get("MODE") in ("link_density", "kept_threshold"):
            a["MODE"] = "kept_threshold"      # the threshold derived from the old similarity is kept
    return a


def observable(a):
    """ObjectSM!Observable: does the abstract state determine the object?"""
    return a.get("MODE") != "kept_threshold"


INIT = {
    "surrogates": {"EMB": 0, "NORM": 0},
    "tsonis": {"MODE": "threshold", "P": 1, "NL": 0, "WO": 0},
    "hilbert": {"MODE": "threshold", "P": 1, "NL": 0, "DIR": 1},
    "spearman": {"MODE": "threshold", "P": 1, "NL": 0, "WO": 0},
    "partialcorr": {"MODE": "threshold", "P": 1, "NL": 0, "WO": 0},
    "mutualinfo": {"MODE": "threshold", "P": 1, "NL": 0, "WO": 0},
    "havlin": {"MODE": "threshold", "P": 1, "NL": 0, "MD": 1},
    "ctsonis": {"MODE": "threshold", "P": 1, "NL": 0},
    "isrn": {"MODE": "threshold", "P": 1},
    "ccn": {"MODE": "threshold", "P": 1, "NL": 0, "LA": 0}, "escn": {"MODE": "threshold", "P": 1, "NL": 0},
    "network": {"A": 1, "W": 0, "LA": 0}, "dirnetwork": {"A": 1, "W": 0, "LA": 0},
    "interacting": {"A": 1, "W": 0, "LA": 0}, "visibility": {"A": 1, "W": 0, "LA": 0},
    "geonetwork": {"A": 1, "W": 0, "LA": 0, "NWT": 1}, "resnetwork": {"R": 1},
    "rp": {"MODE": "threshold", "P": 1}, "rn": {"MODE": "threshold", "P": 1},
    "crp": {"MODE": "threshold", "P": 1}, "jrp": {"MODE": "threshold", "P": 1},
    "jrn": {"MODE": "threshold", "P": 1}, "climate": {"MODE": "threshold", "P": 1, "NL": 0},
    "climatedata": {"WIN": 0},
}
