"""Shared adapter code for the Network family: build a network from a GEN case and observe
its measures in the trace encoding."""
import numpy as np

from vlib import enc

# (name, callable taking (net, case)) -- every entry is one observed measure
PLAIN = [
    "degree", "indegree", "outdegree", "bildegree",
    "average_neighbors_degree", "max_neighbors_degree",
    "local_clustering", "global_clustering", "transitivity",
    "local_cyclemotif_clustering", "local_midmotif_clustering",
    "local_inmotif_clustering", "local_outmotif_clustering",
    "path_lengths", "average_path_length", "diameter", "closeness",
    "global_efficiency", "betweenness", "matching_index", "coreness",
    "laplacian", "link_betweenness", "local_vulnerability", "assortativity",
    "eigenvector_centrality", "newman_betweenness", "arenas_betweenness",
]
NSI = [
    "nsi_degree", "nsi_indegree", "nsi_outdegree", "nsi_bildegree",
    "nsi_average_neighbors_degree", "nsi_max_neighbors_degree",
    "nsi_local_clustering", "nsi_global_clustering", "nsi_transitivity",
    "nsi_local_soffer_clustering", "nsi_twinness",
    "nsi_local_cyclemotif_clustering", "nsi_local_midmotif_clustering",
    "nsi_local_inmotif_clustering", "nsi_local_outmotif_clustering",
    "nsi_average_path_length", "nsi_closeness", "nsi_harmonic_closeness",
    "nsi_exponential_closeness", "nsi_global_efficiency", "nsi_betweenness",
    "nsi_laplacian", "nsi_eigenvector_centrality", "nsi_newman_betweenness",
    "nsi_arenas_betweenness",
]


def build(c, cls=None, **kw):
    from pyunicorn.core import Network
    cls = cls or Network
    A = np.array(c["A"], dtype=int)
    return cls(adjacency=A, directed=bool(c["directed"]),
               node_weights=np.array(c["w"], dtype=float), silence_level=3, **kw)


def zero_based(lst):
    return [int(v) - 1 for v in lst]


def observe(net, c, names, extra=True):
    """Returns (m, x): m[name] = encoded value, x[name] = exception class name."""
    m, x = {}, {}

    def rec(name, fn):
        try:
            v = fn()
            if hasattr(v, "toarray"):
                v = v.toarray()
            m[name] = enc.arr(v)
        except Exception as ex:
            x[name] = type(ex).__name__

    for name in names:
        if hasattr(net, name):
            rec(name, getattr(net, name))
    if extra:
        src, tgt = zero_based(c["src"]), zero_based(c["tgt"])
        for o in (3, 4, 5):
            rec("local_cliquishness_%d" % o, lambda o=o: net.local_cliquishness(o))
        rec("higher_order_transitivity_4", lambda: net.higher_order_transitivity(4))
        if tgt:
            rec("interregional_betweenness", lambda: net.interregional_betweenness(
                sources=src, targets=tgt))
            rec("nsi_interregional_betweenness", lambda: net.nsi_interregional_betweenness(
                sources=src, targets=tgt))
        for meth in ("nsi_degree", "nsi_indegree", "nsi_outdegree", "nsi_local_clustering"):
            rec(meth + "_tw2", lambda meth=meth: getattr(net, meth)(typical_weight=2.0))
    return m, x
