"""Shared adapter code for the Network family: build a network from a GEN case and observe
its measures in the trace encoding."""
import numpy as np

from vlib import enc

# (name, callable taking (net, case)) -- every entry is one observed measure
PLAIN = [
    "degree", "indegree", "outdegree", "bildegree",
    "average_neighbors_degree", "max_neighbors_degree",
    "local_clustering", "global_clustering", "transitivity",
    "local_cyclemotif_clustering", "local_midmotif_clustering",
    "local_inmotif_clustering", "local_outmotif_clustering",
    "path_lengths", "average_path_length", "diameter", "closeness",
    "global_efficiency", "betweenness", "matching_index", "coreness",
    "laplacian", "link_betweenness", "local_vulnerability", "assortativity",
    "eigenvector_centrality", "newman_betweenness", "arenas_betweenness", "pagerank",
]
NSI = [
    "nsi_degree", "nsi_indegree", "nsi_outdegree", "nsi_bildegree",
    "nsi_average_neighbors_degree", "nsi_max_neighbors_degree",
    "nsi_local_clustering", "nsi_global_clustering", "nsi_transitivity",
    "nsi_local_soffer_clustering", "nsi_twinness",
    "nsi_local_cyclemotif_clustering", "nsi_local_midmotif_clustering",
    "nsi_local_inmotif_clustering", "nsi_local_outmotif_clustering",
    "nsi_average_path_length", "nsi_closeness", "nsi_harmonic_closeness",
    "nsi_exponential_closeness", "nsi_global_efficiency", "nsi_betweenness",
    "nsi_laplacian", "nsi_eigenvector_centrality", "nsi_newman_betweenness",
    "nsi_arenas_betweenness",
]


def build(c, cls=None, **kw):
    from pyunicorn.core import Network
    cls = cls or Network
    A = np.array(c["A"], dtype=int)
    return cls(adjacency=A, directed=bool(c["directed"]),
               node_weights=np.array(c["w"], dtype=float), silence_level=3, **kw)


def zero_based(lst):
    return [int(v) - 1 for v in lst]


def observe(net, c, names, extra=True, reverse=False, encode=None):
    """Returns (m, x): m[name] = encoded value, x[name] = exception class name.
    reverse=True evaluates the same queries in the opposite order."""
    m, x = {}, {}
    encode = encode or enc.arr
    todo = []

    def rec(name, fn):
        todo.append((name, fn))

    def run():
        for name, fn in (todo[::-1] if reverse else todo):
            try:
                v = fn()
                if hasattr(v, "toarray"):
                    v = v.toarray()
                v = encode(v)
                if v is not None:
                    m[name] = v
            except Exception as ex:
                x[name] = type(ex).__name__

    for name in names:
        if hasattr(net, name):
            rec(name, getattr(net, name))
    if extra:
        src, tgt = zero_based(c["src"]), zero_based(c["tgt"])
        for o in (3, 4, 5):
            rec("local_cliquishness_%d" % o, lambda o=o: net.local_cliquishness(o))
        rec("higher_order_transitivity_4", lambda: net.higher_order_transitivity(4))
        if tgt:
            rec("interregional_betweenness", lambda: net.interregional_betweenness(
                sources=src, targets=tgt))
            rec("nsi_interregional_betweenness", lambda: net.nsi_interregional_betweenness(
                sources=src, targets=tgt))
        for meth in ("nsi_degree", "nsi_indegree", "nsi_outdegree", "nsi_local_clustering"):
            rec(meth + "_tw2", lambda meth=meth: getattr(net, meth)(typical_weight=2.0))
        # link-weighted variants: weights are the cubes of Defs_Network!CubeRoot (1-based node numbers)
        import numpy as np
        n = net.N
        i, j = np.indices((n, n)) + 1
        root = ((i + 2 * j + (i * j) // 2) % 2) + 1 if net.directed else ((i * j + (i + j) // 2) % 2) + 1
        W = (root ** 3) * np.asarray(net.adjacency)

        def weighted(meth, **kw):
            def run_w():
                if "c" not in net.graph.es.attributes():
                    net.set_link_attribute("c", W.astype(float))
                return getattr(net, meth)("c", **kw)
            return run_w
        for meth in ("link_attribute", "outdegree", "indegree", "degree", "bildegree",
                     "local_cyclemotif_clustering", "local_midmotif_clustering", "local_inmotif_clustering",
                     "local_outmotif_clustering", "average_path_length", "closeness", "global_efficiency",
                     "path_lengths"):
            rec(meth + "(c)", weighted(meth))
    run()
    return m, x


SKIP = {
    # constructors / copies / io / mutators / plotting / random / printing
    "copy", "undirected_copy", "permuted_copy", "splitted_copy", "save", "Load", "FromIGraph",
    "SmallTestNetwork", "SmallDirectedTestNetwork", "Model", "ErdosRenyi", "BarabasiAlbert",
    "BarabasiAlbert_igraph", "Configuration", "WattsStrogatz", "GrowWeights", "randomly_rewire",
    "clear_cache", "cache_clear", "set_edge_list", "set_link_attribute", "set_node_attribute",
    "del_link_attribute", "del_node_attribute", "spreading", "nsi_spreading",
    "hamming_distance_from", "weighted_local_clustering",
    "edge_list", "method", "set_node_weight_type", "randomly_rewire_geomodel_I",
    "randomly_rewire_geomodel_II", "randomly_rewire_geomodel_III", "set_random_links_by_distance",
    "save_for_cgv", "shuffled_by_distance_copy", "ConfigurationModel", "update_resistances",
    "update_admittance", "update_R", "SmallComplexNetwork", "set_silence_level",
    "print_boundaries", "geographical_distribution", "geographical_cumulative_distribution",
    # sparse helper matrices (representation, not measures)
    "sp_Aplus", "sp_diag_w", "sp_diag_w_inv", "sp_diag_sqrt_w", "sp_nsi_diag_k", "sp_nsi_diag_k_inv",
}
GLOBAL_VECTOR_HINTS = ("distribution", "cdf", "histogram", "~list")


def discover(obj, extra_skip=()):
    """Names of public methods callable without arguments."""
    import inspect
    out = []
    for name in sorted(dir(obj)):
        if name.startswith("_") or name in SKIP or name in extra_skip:
            continue
        try:
            f = getattr(obj, name)
        except Exception:
            continue
        if not callable(f) or isinstance(f, type):
            continue
        g = getattr(f, "__wrapped__", f)
        try:
            sig = inspect.signature(g)
        except (TypeError, ValueError):
            continue
        req = [p for p in sig.parameters.values()
               if p.default is inspect.Parameter.empty and p.name != "self"
               and p.kind in (p.POSITIONAL_ONLY, p.POSITIONAL_OR_KEYWORD)]
        if req:
            continue
        out.append(name)
    return out


def geo_calls(obj, prefix=""):
    """(label, thunk) for the geographic queries of a SpatialNetwork / GeoNetwork that take arguments, and for
    what its grid reports (coordinates, both distance matrices): the EUCLIDEAN and the spherical variants."""
    calls = []
    if not hasattr(obj, "grid") or not hasattr(obj, "link_distance_distribution"):
        return calls
    g = obj.grid
    calls.append((prefix + "link_distance_distribution(4)~list", lambda: obj.link_distance_distribution(4)))
    if hasattr(g, "angular_distance"):
        calls.append((prefix + "link_distance_distribution(4,spherical)~list",
                      lambda: obj.link_distance_distribution(4, "spherical")))
        calls.append((prefix + "grid.angular_distance", g.angular_distance))
        calls.append((prefix + "grid.lat_sequence", g.lat_sequence))
        calls.append((prefix + "grid.lon_sequence", g.lon_sequence))
        calls.append((prefix + "grid.cos_lat", g.cos_lat))
    calls.append((prefix + "grid.euclidean_distance", g.euclidean_distance))
    for nm in ("average_link_distance", "total_link_distance", "inaverage_link_distance", "outaverage_link_distance"):
        if hasattr(obj, nm):
            calls.append((prefix + nm + "(True)", lambda nm=nm: getattr(obj, nm)(True)))
    calls.append((prefix + "grid.sequence(0)", lambda: g.sequence(0)))
    return calls


# ---- queries that need arguments: resolved from the parameter NAMES (documented meaning), so that a newly added
# measure with the usual parameters is driven without touching the machinery
ARG_SKIP = {
    # random / resampling (not functions of the object), static array helpers, constructors, callbacks, mutators
    "resample_diagline_dist", "resample_vertline_dist", "rejection_sampling", "bootstrap_distance_matrix",
    "twin_surrogates", "refined_AAFT_surrogates", "RandomlyRewireCrossLinks", "RandomlySetCrossLinks",
    "RandomlySetCrossLinks_sparse", "embed_time_series", "embed_time_series_array", "normalize_time_series",
    "normalize_time_series_array", "rescale", "zero_pad_data", "cos_window", "next_power_2", "legendre_coordinates",
    "latlon2cartesian", "cartesian2latlon", "eval_fast_code", "test_mutual_information", "test_pearson_correlation",
    "test_threshold_significance", "original_distribution", "recurrence_plot", "make_event_matrix",
    "event_coincidence_analysis", "event_synchronization", "subnetwork", "calculate_similarity_measure",
    "threshold_from_recurrence_rate", "threshold_from_recurrence_rate_fast", "node_attribute", "find_link_attribute",
    "twins", "link_density_function",
}


def arg_calls(obj, already=()):
    """(label, thunk) for every public method whose REQUIRED parameters all have a documented meaning the
    harness can supply (bin counts, clique order, node groups, a link attribute that exists, a metric, node
    numbers, a density, selected phases); methods in SKIP / ARG_SKIP and setters are left out."""
    import inspect
    n = getattr(obj, "N", None)
    if n is None or not isinstance(n, (int, np.integer)) or n < 2:
        n = 2
    half = max(1, int(n) // 2)
    g1, g2 = list(range(half)), list(range(half, int(n)))
    attrs = []
    try:
        attrs = list(obj.graph.es.attributes())
    except Exception:
        pass
    table = {"n_bins": [4], "order": [4], "node_list1": [g1], "node_list2": [g2], "node_list": [g1],
             "sources": [g1], "targets": [g2], # (only the attribute the harness itself sets: others are created lazily by queries, so the SET of queries
             # would depend on what was asked before)
             "attribute_name": (["w"] if "w" in attrs else None),
             "metric": ["manhattan", "euclidean"], "a": [0], "b": [int(n) - 1], "i": [1 % int(n)],
             "node1": [0], "node2": [int(n) - 1], "node": [1 % int(n)], "link_density": [0.4],
             "selected_months": [[0, 2]], "selected_phases": [[0, 2]]}
    calls = []
    for name in sorted(dir(obj)):
        if name.startswith("_") or name in SKIP or name in ARG_SKIP or name.startswith("set_"):
            continue
        try:
            f = getattr(obj, name)
        except Exception:
            continue
        if not callable(f) or isinstance(f, type):
            continue
        try:
            sig = inspect.signature(getattr(f, "__wrapped__", f))
        except (TypeError, ValueError):
            continue
        req = [p.name for p in sig.parameters.values()
               if p.default is inspect.Parameter.empty and p.name != "self"
               and p.kind in (p.POSITIONAL_ONLY, p.POSITIONAL_OR_KEYWORD)]
        if not req or any(table.get(r) is None for r in req):
            continue
        variants = max(len(table[r]) for r in req)
        for k in range(variants):
            vals = [table[r][min(k, len(table[r]) - 1)] for r in req]
            label = "%s(%s)" % (name, ",".join("%s=%s" % (r, "G" if isinstance(v, list) else v)
                                                for r, v in zip(req, vals)))
            if label in already:
                continue
            calls.append((label, lambda f=f, vals=vals: f(*[list(v) if isinstance(v, list) else v for v in vals])))
    return calls


def classify(obj_n, label, val, o):
    """Put an encoded value into o['s'|'v'|'m'|'g'] by shape."""
    if hasattr(val, "toarray"):
        val = val.toarray()
    if isinstance(val, dict):
        for k, v in sorted(val.items()):
            classify(obj_n, "%s[%s]" % (label, k), v, o)
        return
    if isinstance(val, tuple):
        for k, v in enumerate(val):
            classify(obj_n, "%s[%d]" % (label, k), v, o)
        return
    if val is None or isinstance(val, str):
        return
    a = np.asarray(val)
    if a.dtype == object or a.dtype.kind in "US":
        return
    if any(h in label for h in GLOBAL_VECTOR_HINTS):
        if a.ndim <= 1:
            o["g"][label] = enc.arr(np.atleast_1d(a))
        return
    if a.ndim == 0:
        o["s"][label] = enc.num(a[()])
    elif a.ndim == 1 and a.shape[0] == obj_n:
        o["v"][label] = enc.arr(a)
    elif a.ndim == 2 and a.shape == (obj_n, obj_n):
        o["m"][label] = enc.arr(a)
    elif a.ndim == 1:
        o["g"][label] = enc.arr(a)


def observe_all(obj, names, n=None, calls=()):
    """Observation in s/v/m/g/x form of the argument-free methods `names` plus extra
    (label, thunk) calls."""
    o = {"s": {}, "v": {}, "m": {}, "g": {}, "x": {}}
    n = obj.N if n is None else n
    todo = [(nm, getattr(obj, nm)) for nm in names] + list(calls)
    for label, thunk in todo:
        try:
            classify(n, label, thunk(), o)
        except Exception as ex:
            o["x"][label] = type(ex).__name__
    return o
