#!/bin/sh
# Offline setup after a fresh restore: parse every TLA+ module, prime the extension build cache.
cd "$(dirname "$0")" || exit 2
set -e
for f in spec/*.tla; do
  case "$f" in *_TTrace_*|*/Dbg_*) continue;; esac
  (cd spec && java -cp /opt/veriftools/tla/tla2tools.jar:/opt/veriftools/tla/CommunityModules-deps.jar tla2sany.SANY "$(basename "$f")" >/tmp/sany.$$ 2>&1) || { cat /tmp/sany.$$; rm -f /tmp/sany.$$; echo "SANY failed on $f"; exit 1; }
done
rm -f /tmp/sany.$$
/venv/bin/python -m vlib.overlay
echo "setup ok"
