---------------------------- MODULE Apa_Chunks ----------------------------
(* Unbounded version of MC_Chunks for Apalache (SMT, no bound on N):               *)
(* for EVERY component size N >= 1, EVERY max_parts >= 1 and every chunk index     *)
(* idx < parts the chunk [idx*step, min((idx+1)*step, N)) is non-empty, lies in     *)
(* [0, N], starts where its predecessor ends, the first starts at 0 and the last    *)
(* ends at N - i.e. the chunks of the distributed betweenness loops partition the   *)
(* node range whatever the worker count and whatever the rounding of 0.1*N.          *)
(* N, MP, IDX are CONSTANTS constrained only by CInit; the statement is a state     *)
(* invariant of a one-state system, checked with --length=0.                        *)
EXTENDS Integers

CONSTANTS
  \* @type: Int;
  N,
  \* @type: Int;
  MP,
  \* @type: Int;
  IDX

VARIABLE
  \* @type: Int;
  dummy

CeilDiv(a, b) == (a + b - 1) \div b
Min(a, b) == IF a <= b THEN a ELSE b
Step == CeilDiv(N, MP)
Parts == CeilDiv(N, Step)
Lo(i) == i * Step
Hi(i) == Min((i + 1) * Step, N)

CInit == /\ N \in Nat /\ N >= 1
         /\ MP \in Nat /\ MP >= 1
         /\ IDX \in Nat /\ IDX < Parts

Init == dummy = 0
Next == UNCHANGED dummy

Inv == /\ Step >= 1 /\ Parts >= 1
       /\ Lo(0) = 0
       /\ Hi(Parts - 1) = N
       /\ Lo(IDX) < Hi(IDX)                       \* never empty
       /\ Hi(IDX) <= N
       /\ (IDX + 1 < Parts => Hi(IDX) = Lo(IDX + 1))   \* contiguous
       \* the loop's early exit "if start_i >= end_i: break" is dead code
       /\ ~(Lo(IDX) >= Hi(IDX))
=============================================================================
