---------------------------- MODULE CacheProtocol ----------------------------
(* Design model of pyunicorn's memoisation mechanism (core/cache.py, class        *)
(* `Cached`) and of the DISCIPLINE the analysis classes must follow for cache      *)
(* coherence (property C01).                                                       *)
(*                                                                                 *)
(* Mechanism, as implemented:                                                      *)
(*   - one LRU table per decorated FUNCTION (shared by all instances), MaxSize      *)
(*     slots (lru_params maxsize = 32);                                             *)
(*   - a lookup key is <<object id, object-level state descriptor                   *)
(*     (__cache_state__), method-level attrs, argument pattern>>; state and attrs   *)
(*     are tuples of MUTATION COUNTERS of the object;                               *)
(*   - hit: the stored value is returned and the entry becomes most recent;         *)
(*     miss: the undecorated method is evaluated on the current state, the value    *)
(*     stored, the least recently used entry dropped beyond MaxSize;                *)
(*   - cache_clear empties a table.                                                 *)
(* Abstract object state: a version number per primary-input COMPONENT; the value   *)
(* of method m is the tuple of versions of the components it depends on (Deps[m]),  *)
(* so two evaluations are equal exactly when nothing m depends on was written.      *)
(*                                                                                 *)
(* Discipline (what every mutator of every class must do):                          *)
(*   Writes[u] \cap Deps[m] # {}  =>  Bumps[u] \cap KeyOf[m] # {}                    *)
(*   and counters only ever increase (no mutator in Resets).                        *)
(* TLC checks NoStaleHit / EntryCoherent for every interleaving of mutators,         *)
(* lookups and clears of several objects; MC_Cache_missingbump / _reset are the      *)
(* negative controls (the invariant MUST fail there).                               *)
EXTENDS Integers, Sequences, FiniteSets, TLC

CONSTANTS Objs, Comps, Counters, Methods, Mutators, ArgPats, MaxSize, MaxMut, MaxLook,
          KeyOf,     \* [Methods  -> SUBSET Counters]
          Deps,      \* [Methods  -> SUBSET Comps]
          Writes,    \* [Mutators -> SUBSET Comps]
          Bumps,     \* [Mutators -> SUBSET Counters]
          Resets     \* [Mutators -> SUBSET Counters]   counters set back to 0

VARIABLES ver,      \* [Objs -> [Comps -> Nat]]        true state (versions)
          cnt,      \* [Objs -> [Counters -> Nat]]     mutation counters
          cache,    \* [Methods -> Seq(entry)]          LRU order, most recent last
          nmut, nlook,
          last      \* the most recent lookup: [hit, val, fresh]

vars == <<ver, cnt, cache, nmut, nlook, last>>

Discipline == /\ \A u \in Mutators, m \in Methods :
                    Writes[u] \cap Deps[m] # {} => Bumps[u] \cap KeyOf[m] # {}
              /\ \A u \in Mutators : Resets[u] = {}

Fresh(o, m) == [c \in Deps[m] |-> ver[o][c]]
KeyNow(o, m, a) == <<o, [c \in KeyOf[m] |-> cnt[o][c]], a>>
Pos(m, key) == {k \in 1..Len(cache[m]) : cache[m][k].key = key}
Without(s, k) == [j \in 1..(Len(s) - 1) |-> IF j < k THEN s[j] ELSE s[j + 1]]

Init == /\ ver = [o \in Objs |-> [c \in Comps |-> 0]]
        /\ cnt = [o \in Objs |-> [c \in Counters |-> 0]]
        /\ cache = [m \in Methods |-> <<>>]
        /\ nmut = 0 /\ nlook = 0
        /\ last = [hit |-> FALSE, val |-> <<>>, fresh |-> <<>>]

Mutate(o, u) ==
  /\ nmut < MaxMut
  /\ ver' = [ver EXCEPT ![o] = [c \in Comps |-> IF c \in Writes[u] THEN @[c] + 1 ELSE @[c]]]
  /\ cnt' = [cnt EXCEPT ![o] = [c \in Counters |-> IF c \in Resets[u] THEN 0
                                                   ELSE IF c \in Bumps[u] THEN @[c] + 1 ELSE @[c]]]
  /\ nmut' = nmut + 1
  /\ UNCHANGED <<cache, nlook, last>>

Lookup(o, m, a) ==
  /\ nlook < MaxLook
  /\ nlook' = nlook + 1
  /\ LET key == KeyNow(o, m, a)  ps == Pos(m, key) IN
     IF ps # {}
     THEN LET k == CHOOSE k \in ps : TRUE  e == cache[m][k] IN
          /\ cache' = [cache EXCEPT ![m] = Append(Without(@, k), e)]
          /\ last' = [hit |-> TRUE, val |-> e.val, fresh |-> Fresh(o, m)]
     ELSE LET e == [key |-> key, o |-> o, a |-> a, val |-> Fresh(o, m)]
              s == Append(cache[m], e) IN
          /\ cache' = [cache EXCEPT ![m] = IF Len(s) > MaxSize THEN Tail(s) ELSE s]
          /\ last' = [hit |-> FALSE, val |-> e.val, fresh |-> e.val]
  /\ UNCHANGED <<ver, cnt, nmut>>

Clear(m) == /\ cache[m] # <<>>
            /\ cache' = [cache EXCEPT ![m] = <<>>]
            /\ UNCHANGED <<ver, cnt, nmut, nlook, last>>

Next == \/ \E o \in Objs, u \in Mutators : Mutate(o, u)
        \/ \E o \in Objs, m \in Methods, a \in ArgPats : Lookup(o, m, a)
        \/ \E m \in Methods : Clear(m)
Spec == Init /\ [][Next]_vars

\* ---- properties ---------------------------------------------------------------
TypeOK == /\ \A m \in Methods : Len(cache[m]) <= MaxSize
          /\ \A m \in Methods : \A j, k \in 1..Len(cache[m]) : j # k => cache[m][j].key # cache[m][k].key
\* the value a hit returns is what a fresh evaluation on the current state gives
NoStaleHit == last.hit => last.val = last.fresh
\* stronger, state-based: every entry that the CURRENT key of its (object, args) selects is fresh
EntryCoherent == \A m \in Methods : \A k \in 1..Len(cache[m]) :
                    LET e == cache[m][k] IN e.key = KeyNow(e.o, m, e.a) => e.val = Fresh(e.o, m)
\* entries of different objects never alias (the object id is part of the key)
NoCrossTalk == \A m \in Methods : \A k \in 1..Len(cache[m]) : cache[m][k].key[1] = cache[m][k].o
\* counters never decrease under the discipline
Monotone == [][\A o \in Objs, c \in Counters : cnt'[o][c] >= cnt[o][c]]_vars
=============================================================================
