------------------------------ MODULE ClimateSM ------------------------------
(* State machine of a similarity (climate) network.                            *)
(* Fixed inputs: S4 = 4*|similarity| (N x N integers; the library takes the      *)
(* absolute value at construction), directed flag.  Mutable abstract state:      *)
(*   st = [thr   |-> threshold times 10^6, or UNKNOWN after a density request    *)
(*                   until it has been observed,                                  *)
(*         rho   |-> <<n, d>> pending density request (or <<>>),                  *)
(*         nl    |-> 1 when spatially local links are suppressed,                 *)
(*         seen  |-> set of <<thr, nl, adjacency>> observed so far]               *)
(* Actions: Construct, SetThreshold, SetLinkDensity, SetNonLocal, Observe.        *)
EXTENDS Integers, Sequences, FiniteSets, Fx

UNKNOWN == 1999999999
T6(n, d) == (n * 1000000) \div d          \* exact for the dyadic thresholds used
\* similarity s4/4 exceeds threshold thr6/10^6
Above(s4, thr6) == s4 * 250000 > thr6
OffDiag(N) == {p \in (1..N) \X (1..N) : p[1] # p[2]}

\* links of the plain thresholded network
ThresholdAdj(S4, thr6) ==
  [a \in 1..Len(S4) |-> [b \in 1..Len(S4) |-> IF a # b /\ Above(S4[a][b], thr6) THEN 1 ELSE 0]]
Subset(A, B) == \A a \in 1..Len(A) : \A b \in 1..Len(A) : A[a][b] <= B[a][b]
Links(A) == Sum(LAMBDA a : Sum(LAMBDA b : A[a][b], 1..Len(A)), 1..Len(A))
IsSym(A) == \A a \in 1..Len(A) : \A b \in 1..Len(A) : A[a][b] = A[b][a]
ZeroDiag(A) == \A a \in 1..Len(A) : A[a][a] = 0

\* the density request rho = n/d: realised links never exceed it and miss it by at most
\* the pairs tied at the selected threshold
DensityBound(S4, n, d, thr6, A) ==
  LET M == Len(S4) * (Len(S4) - 1)
      ties == Card({p \in OffDiag(Len(S4)) : S4[p[1]][p[2]] * 250000 = thr6})
  IN /\ Links(A) * d <= n * M
     /\ n * M - Links(A) * d <= ties * d

\* ---- actions -----------------------------------------------------------------------
Init0 == [thr |-> UNKNOWN, rho |-> <<>>, nl |-> 0, seen |-> {}]
SetThreshold(st, n, d)   == [st EXCEPT !.thr = T6(n, d), !.rho = <<>>]
SetLinkDensity(st, n, d) == [st EXCEPT !.thr = UNKNOWN, !.rho = <<n, d>>]
SetNonLocal(st, b)       == [st EXCEPT !.nl = b, !.rho = <<>>]   \* threshold is kept
=============================================================================
