-------------------------------- MODULE CrossSM --------------------------------
(* State machine of the cross-link rewiring of two node groups: every sequence   *)
(* of random draws of two cross links until Swaps swaps were accepted (at most     *)
(* MaxDraws draws); invariants: cross degrees of both groups and the number of      *)
(* cross links are preserved, the link list stays consistent.                       *)
EXTENDS RewireCore
CONSTANTS XSetup, Swaps, MaxDraws
XMats == [a |-> << <<1, 0, 1>>, <<0, 1, 0>>, <<1, 0, 0>> >>,
          b |-> << <<1, 1, 0, 0>>, <<0, 0, 1, 0>> >>,
          c |-> << <<1, 0>>, <<0, 1>>, <<1, 1>> >>,
          \* two groups of four nodes whose cross-link rows all differ
          d |-> << <<1, 1, 0, 0>>, <<0, 0, 1, 0>>, <<0, 1, 0, 1>>, <<1, 0, 0, 0>> >>]
RECURSIVE NonZero(_, _, _)
\* row-major list of the non-zero entries (numpy.nonzero order)
NonZero(X, i, j) == IF i > Len(X) THEN <<>>
                    ELSE IF j > Len(X[1]) THEN NonZero(X, i + 1, 1)
                    ELSE (IF X[i][j] = 1 THEN << <<i, j>> >> ELSE <<>>) \o NonZero(X, i, j + 1)
C0 == [X |-> XMats[XSetup], links |-> NonZero(XMats[XSetup], 1, 1)]
VARIABLES c, acc, hist
Init == c = C0 /\ acc = 0 /\ hist = <<>>
Draw(e1, e2) == /\ acc < Swaps /\ Len(hist) < MaxDraws
                /\ c' = CrossDraw(c, e1, e2)
                /\ acc' = IF CrossGuard(c, e1, e2) THEN acc + 1 ELSE acc
                /\ hist' = Append(hist, <<e1, e2>>)
Next == \E e1 \in 1..Len(C0.links) : \E e2 \in 1..Len(C0.links) : Draw(e1, e2)
InvCrossDegrees == RowSums(c.X) = RowSums(C0.X) /\ ColSums(c.X) = ColSums(C0.X)
InvLinkList == CrossLinksMatch(c)
PrintDone == (acc = Swaps) => PrintT(<<"X", XSetup, Swaps, hist>>)
=============================================================================
