------------------------------- MODULE DataSM -------------------------------
(* State machine of Data / ClimateData: a fixed data set                      *)
(*   d = [obs (T x N integers), time (increasing), lat, lon, cycle, anom]      *)
(* and, as the only mutable abstract state, the current selection             *)
(*   st = [t |-> sequence of selected time indices, s |-> selected nodes].     *)
(* Mutators: SetWindow(w), SetGlobalWindow.  Every observation is a function   *)
(* of (d, st) - in particular not of the history of windows.                   *)
EXTENDS Integers, Sequences, FiniteSets, Fx

RECURSIVE Filter(_, _, _)
\* increasing sequence of the indices k in 1..n with P(k)
Filter(P(_), k, n) == IF k > n THEN <<>>
                      ELSE (IF P(k) THEN <<k>> ELSE <<>>) \o Filter(P, k + 1, n)

\* window w = [tmin, tmax, latmin, latmax, lonmin, lonmax]; closed intervals;
\* coinciding time bounds select the whole time axis; coinciding latitude OR longitude
\* bounds select every node (as documented)
TimeSel(d, w) == IF w.tmin = w.tmax THEN Filter(LAMBDA k : TRUE, 1, Len(d.time))
                 ELSE Filter(LAMBDA k : d.time[k] >= w.tmin /\ d.time[k] <= w.tmax, 1, Len(d.time))
SpaceSel(d, w) == IF w.latmin = w.latmax \/ w.lonmin = w.lonmax
                  THEN Filter(LAMBDA k : TRUE, 1, Len(d.lat))
                  ELSE Filter(LAMBDA k : /\ d.lat[k] >= w.latmin /\ d.lat[k] <= w.latmax
                                          /\ d.lon[k] >= w.lonmin /\ d.lon[k] <= w.lonmax,
                              1, Len(d.lat))
GlobalWindow == [tmin |-> 0, tmax |-> 0, latmin |-> 0, latmax |-> 0, lonmin |-> 0, lonmax |-> 0]

\* ---- actions (next-state functions of the abstract state) ------------------------
SetWindow(d, st, w) == [t |-> TimeSel(d, w), s |-> SpaceSel(d, w)]
SetGlobalWindow(d, st) == SetWindow(d, st, GlobalWindow)
Construct(d) == SetGlobalWindow(d, <<>>)
NonEmpty(st) == Len(st.t) > 0 /\ Len(st.s) > 0

\* ---- observations ----------------------------------------------------------------
Observable(d, st) == [a \in 1..Len(st.t) |-> [b \in 1..Len(st.s) |-> d.obs[st.t[a]][st.s[b]]]]
TimeSeq(d, st) == [a \in 1..Len(st.t) |-> d.time[st.t[a]]]
LatSeq(d, st)  == [b \in 1..Len(st.s) |-> d.lat[st.s[b]]]
LonSeq(d, st)  == [b \in 1..Len(st.s) |-> d.lon[st.s[b]]]
SeqMin(s) == MinOf(LAMBDA k : s[k], 1..Len(s), 0)
SeqMax(s) == MaxOf(LAMBDA k : s[k], 1..Len(s), 0)
Boundaries(d, st) == << SeqMin(TimeSeq(d, st)), SeqMax(TimeSeq(d, st)),
                        SeqMin(LatSeq(d, st)), SeqMax(LatSeq(d, st)),
                        SeqMin(LonSeq(d, st)), SeqMax(LonSeq(d, st)) >>
\* the window reported for the current view, handed back to set_window (data.set_window(data.window())):
\* the bounds lie exactly on the outermost selected samples / nodes; an axis on which the view is a single
\* value has coinciding bounds and is therefore selected completely
CurrentWindow(d, st) == LET b == Boundaries(d, st) IN
  [tmin |-> b[1], tmax |-> b[2], latmin |-> b[3], latmax |-> b[4], lonmin |-> b[5], lonmax |-> b[6]]
SetWindowCurrent(d, st) == SetWindow(d, st, CurrentWindow(d, st))
\* phases of the annual cycle: sample a (1-based position in the view) is in phase
\* ((a-1) mod cycle) + 1; only complete years are listed by phase_indices (0-based)
Years(d, st) == Len(st.t) \div d.cycle
PhaseIndices(d, st) == [p \in 1..d.cycle |-> [y \in 1..Years(d, st) |-> (p - 1) + (y - 1) * d.cycle]]
PhaseOf(d, a) == ((a - 1) % d.cycle) + 1
InPhase(d, st, p) == {a \in 1..Len(st.t) : PhaseOf(d, a) = p}
PhaseSum(d, st, p, b) == Sum(LAMBDA a : d.obs[st.t[a]][st.s[b]], InPhase(d, st, p))
=============================================================================
