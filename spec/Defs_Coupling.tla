---------------------------- MODULE Defs_Coupling ----------------------------
(* Reference statistics on integer data, as exact rationals:                     *)
(*   Pearson r = C / sqrt(Vx Vy),  C = n Sxy - Sx Sy,  V = n Sxx - Sx^2            *)
(* so sign(r) = sign(C) and r^2 = C^2 / (Vx Vy); lagged cross-correlation           *)
(* rho(X^i_{t-L}, X^j_t) with per-window standardisation; Spearman = Pearson of      *)
(* mid-ranks; Gaussian mutual information -1/2 ln(1 - r^2) through the ln table.      *)
EXTENDS Integers, Sequences, FiniteSets, TLC, Fx, Tables

SumS(x) == SumN(LAMBDA t : x[t], 1, Len(x))
Cov(x, y) == Len(x) * SumN(LAMBDA t : x[t] * y[t], 1, Len(x)) - SumS(x) * SumS(y)
Var(x) == Cov(x, x)
\* r^2 scaled by 10^6 (0 by convention when a series is constant)
RSq6(x, y) == IF Var(x) = 0 \/ Var(y) = 0 THEN 0 ELSE FxDiv(Cov(x, y) * Cov(x, y), Var(x) * Var(y), 1000000)
RSign(x, y) == IF Var(x) = 0 \/ Var(y) = 0 THEN 0 ELSE Sgn(Cov(x, y))
\* recorded r (scaled 10^6) is consistent with the exact r^2 and sign; tol on r is 10^-3
RIs(r6, x, y) ==
  LET r3 == RDiv(r6, 1000) IN
  /\ IsNum(r6) /\ Abs(r6) <= 2000000        \* (a NaN / infinite / absurd estimate is not the statistic: total verdict)
  /\ Abs(r3 * r3 - RSq6(x, y)) <= 2 * Abs(r3) * 2 + 2500
  /\ (RSq6(x, y) > 10000 => Sgn(r6) = RSign(x, y))
\* column i of a data matrix (sequence of rows), rows a..b
Window(data, i, a, b) == [t \in 1..(b - a + 1) |-> data[a + t - 1][i]]
\* rho(X^i_{t-L}, X^j_t) on the common window of length T - taumax
LagX(data, i, L, taumax) == Window(data, i, taumax - L + 1, Len(data) - L)
LagY(data, j, taumax) == Window(data, j, taumax + 1, Len(data))
\* mid-ranks times 2 (ties share the mean rank)
Rank2(x) == [t \in 1..Len(x) |-> 2 * Cardinality({s \in 1..Len(x) : x[s] < x[t]})
                                  + Cardinality({s \in 1..Len(x) : x[s] = x[t]}) + 1]
\* Gaussian mutual information -1/2 ln(1 - r^2), scaled 10^6, where the ln table reaches
GaussMIDefined(x, y) == /\ Var(x) > 0 /\ Var(y) > 0
                        /\ Var(x) * Var(y) <= 4096 /\ Var(x) * Var(y) - Cov(x, y) * Cov(x, y) >= 1
GaussMI6(x, y) == (Ln6(Var(x) * Var(y)) - Ln6(Var(x) * Var(y) - Cov(x, y) * Cov(x, y))) \div 2
\* ---- mutual information with aequi-quantile bins (CouplingAnalysis, estimator "binning") ----------------
\* the lower bin edges are every ceil(M/bins)-th value of the sorted series; the symbol of a sample is the
\* number of edges not above it, minus one; I = sum p ln p over the joint cells minus the marginal ones,
\* with counts n:  M I = sum_xy n ln n - sum_x n ln n - sum_y n ln n + M ln M     (M samples)
OrderStat(x, p) == CHOOSE v \in {x[t] : t \in 1..Len(x)} :
                      /\ Cardinality({t \in 1..Len(x) : x[t] < v}) <= p
                      /\ p < Cardinality({t \in 1..Len(x) : x[t] <= v})
BinStep(M, bins) == (M + bins - 1) \div bins
NEdges(M, bins) == (M + BinStep(M, bins) - 1) \div BinStep(M, bins)
QSym(x, bins, t) == Cardinality({k \in 1..NEdges(Len(x), bins) :
                                   OrderStat(x, (k - 1) * BinStep(Len(x), bins)) <= x[t]}) - 1
NLnN(n) == IF n = 0 THEN 0 ELSE n * Ln6(n)
QuantileMINumerator(x, y, bins) ==
  LET M == Len(x)
      sx == [t \in 1..M |-> QSym(x, bins, t)]  sy == [t \in 1..M |-> QSym(y, bins, t)]
      syms == 0..(NEdges(M, bins) - 1)
      cxy(a, b) == Cardinality({t \in 1..M : sx[t] = a /\ sy[t] = b})
      cx(a) == Cardinality({t \in 1..M : sx[t] = a})
      cy(b) == Cardinality({t \in 1..M : sy[t] = b})
  IN SumN(LAMBDA a : SumN(LAMBDA b : NLnN(cxy(a, b)), 0, NEdges(M, bins) - 1), 0, NEdges(M, bins) - 1)
     - SumN(LAMBDA a : NLnN(cx(a)), 0, NEdges(M, bins) - 1) - SumN(LAMBDA b : NLnN(cy(b)), 0, NEdges(M, bins) - 1)
     + NLnN(M)
\* ---- partial correlation of three series (given the third): -P_ab / sqrt(P_aa P_bb), P the inverse of
\* the covariance matrix, i.e. with the cofactors K of the (integer) matrix of Cov values:
\*   r_ab.c ^ 2 = K_ab^2 / (K_aa K_bb),   sign = -sign(K_ab)          (K_ab = -(C_ab C_cc - C_ac C_bc))
Third3(a, b) == CHOOSE c \in 1..3 : c # a /\ c # b
CofDiag(C, a) == LET p == CHOOSE q \in (1..3) \X (1..3) : q[1] < q[2] /\ q[1] # a /\ q[2] # a
                 IN C[p[1]][p[1]] * C[p[2]][p[2]] - C[p[1]][p[2]] * C[p[1]][p[2]]
CofOff(C, a, b) == LET c == Third3(a, b) IN -(C[a][b] * C[c][c] - C[a][c] * C[b][c])
Det3(C) == C[1][1] * CofDiag(C, 1) + C[1][2] * CofOff(C, 1, 2) + C[1][3] * CofOff(C, 1, 3)
PartialSq6(C, a, b) == FxDiv(CofOff(C, a, b) * CofOff(C, a, b), CofDiag(C, a) * CofDiag(C, b), 1000000)
PartialDefined(C, a, b) == /\ CofDiag(C, a) > 0 /\ CofDiag(C, b) > 0 /\ Det3(C) # 0
                           /\ CofDiag(C, a) * CofDiag(C, b) < 200000000
                           /\ Abs(CofOff(C, a, b)) < 46000

\* ---- surrogate test matrices (Surrogates.test_pearson_correlation / test_mutual_information) ----
\* entry (i, j), i # j: original series i against surrogate series j; the diagonal is left at 0
MeanProduct6(x, y) == FxDiv(SumN(LAMBDA t : x[t] * y[t], 1, Len(x)), Len(x), 1000000)
\* equal-width bins over the COMMON range [mn, mx] of both arrays; the maximum falls into the last bin
BinOf(v, mn, mx, nb) == IF v - mn >= mx - mn THEN nb - 1 ELSE ((v - mn) * nb) \div (mx - mn)
Count1(x, mn, mx, nb, l) == Cardinality({t \in 1..Len(x) : BinOf(x[t], mn, mx, nb) = l})
Count2(x, y, mn, mx, nb, l, m) ==
  Cardinality({t \in 1..Len(x) : BinOf(x[t], mn, mx, nb) = l /\ BinOf(y[t], mn, mx, nb) = m})
\* sum_{l,m} p_lm ln(p_lm / (p_l p_m)) with p = count / T, scaled 10^6
BinnedMI6(x, y, mn, mx, nb) ==
  LET T == Len(x) IN
  SumN(LAMBDA l : SumN(LAMBDA m :
        LET c == Count2(x, y, mn, mx, nb, l, m) IN
        IF c = 0 THEN 0
        ELSE (c * (Ln6(c * T) - Ln6(Count1(x, mn, mx, nb, l) * Count1(y, mn, mx, nb, m)))) \div T,
      0, nb - 1), 0, nb - 1)
=============================================================================
