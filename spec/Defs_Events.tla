---------------------------- MODULE Defs_Events ----------------------------
(* Event synchronisation (Quiroga et al. 2002, with the double-count          *)
(* correction of Odenweller & Donner 2020) and event coincidence analysis      *)
(* (Donges et al. 2016; Odenweller & Donner 2020) by their counting formulas.  *)
(* All times are integers (dyadic times are scaled by their denominator).      *)
(* A coincidence window "taumax" of INF means unbounded.                       *)
EXTENDS Integers, Sequences, FiniteSets, Fx, Tables

RECURSIVE EvFrom(_, _, _)
EvFrom(b, ts, k) == IF k > Len(b) THEN <<>>
                    ELSE (IF b[k] = 1 THEN <<ts[k]>> ELSE <<>>) \o EvFrom(b, ts, k + 1)
\* event times of the 0/1 sequence b observed at times ts
Events(b, ts) == EvFrom(b, ts, 1)
Shift(s, c) == [k \in 1..Len(s) |-> s[k] + c]
Min4(a, b, c, d) == Min2(Min2(a, b), Min2(c, d))

\* --- event synchronisation --------------------------------------------------------
\* Only inner events (neither first nor last of their series) take part.  Twice the
\* distance and twice the dynamic delay are used so that everything stays integral.
\*   J_ij = 1 if 0 < tx_i - ty_j <= tau_ij,  1/2 if tx_i = ty_j,
\*   tau_ij = min(tx_{i+1}-tx_i, tx_i-tx_{i-1}, ty_{j+1}-ty_j, ty_j-ty_{j-1}) / 2, capped by taumax;
\* a coincidence one of whose events also coincides in the other direction counts 1/2.
\* Returns twice the two counts <<c(x|y), c(y|x)>>.
ESCounts2(ex, ey, taumax) ==
  LET In  == (2..(Len(ex) - 1)) \X (2..(Len(ey) - 1))
      D2(p)   == 2 * (ex[p[1]] - ey[p[2]])
      Dyn(p)  == Min4(ex[p[1] + 1] - ex[p[1]], ex[p[1]] - ex[p[1] - 1],
                      ey[p[2] + 1] - ey[p[2]], ey[p[2]] - ey[p[2] - 1])
      Tau2(p) == IF taumax = INF THEN Dyn(p) ELSE Min2(Dyn(p), 2 * taumax)
      Axy == {p \in In : D2(p) > 0 /\ D2(p) <= Tau2(p)}
      Ayx == {p \in In : D2(p) < 0 /\ -D2(p) <= Tau2(p)}
      Eq  == {p \in In : D2(p) = 0}
      Shares(p, q) == p[1] = q[1] \/ p[2] = q[2]
      Dxy == {p \in Axy : \E q \in Ayx : Shares(p, q)}
      Dyx == {p \in Ayx : \E q \in Axy : Shares(p, q)}
  IN << 2 * Card(Axy) + Card(Eq) - Card(Dxy), 2 * Card(Ayx) + Card(Eq) - Card(Dyx) >>

\* strengths scaled by 10^6: count / sqrt((lx-2)(ly-2)); nan without events, 0 when a
\* series has fewer than three events
ESDefined(ex, ey) == Len(ex) > 0 /\ Len(ey) > 0
ES6(ex, ey, taumax) ==
  IF ~ESDefined(ex, ey) THEN <<NAN, NAN>>
  ELSE IF Len(ex) <= 2 \/ Len(ey) <= 2 THEN <<0, 0>>
  ELSE LET c == ESCounts2(ex, ey, taumax)
           m == (Len(ex) - 2) * (Len(ey) - 2)
       IN << (c[1] * InvSqrt6(m)) \div 2, (c[2] * InvSqrt6(m)) \div 2 >>

\* --- event coincidence analysis ---------------------------------------------------
\* Indicator of the coincidence window [lo, hi] for the delay a - b - lag.
InWin(a, b, lag, lo, hi) == a - b - lag >= lo /\ a - b - lag <= hi
\* Boundary convention of the library: events of a series that lie within lag + width
\* of its first (for precursor rates) / last (for trigger rates) event cannot be
\* coincided and are left out of the count and of the normalisation; nothing is left
\* out for instantaneous coincidence (lag = 0 and taumax = 0).
HeadCut(e, lag, w, inst) == IF inst THEN {} ELSE {k \in 1..Len(e) : e[k] <= e[1] + lag + w}
TailCut(e, lag, w, inst) == IF inst THEN {} ELSE {k \in 1..Len(e) : e[k] >= e[Len(e)] - lag - w}
\* rate as <<numerator, denominator>>
\* precursor rate of A given B: fraction of admissible A-events preceded by a B-event
Prec(ea, eb, lag, lo, hi, cut) ==
  LET adm == (1..Len(ea)) \ cut
  IN << Card({k \in adm : \E m \in 1..Len(eb) : InWin(ea[k], eb[m], lag, lo, hi)}), Card(adm) >>
\* trigger rate: fraction of admissible B-events followed by an A-event
Trig(ea, eb, lag, lo, hi, cut) ==
  LET adm == (1..Len(eb)) \ cut
  IN << Card({m \in adm : \E k \in 1..Len(ea) : InWin(ea[k], eb[m], lag, lo, hi)}), Card(adm) >>

ECADefined(e1, e2) == Len(e1) > 0 /\ Len(e2) > 0
\* the four rates of event_coincidence_analysis: <<prec12, trig12, prec21, trig21>>
ECA(e1, e2, taumax, lag) ==
  LET inst == lag = 0 /\ taumax = 0
  IN << Prec(e1, e2, lag, 0, taumax, HeadCut(e1, lag, taumax, inst)),
        Trig(e1, e2, lag, 0, taumax, TailCut(e2, lag, taumax, inst)),
        Prec(e2, e1, lag, 0, taumax, HeadCut(e2, lag, taumax, inst)),
        Trig(e2, e1, lag, 0, taumax, TailCut(e1, lag, taumax, inst)) >>
\* pairwise rates used for the analysis matrix, per window type: <<r12, r21>>
ECAWindow(e1, e2, taumax, lag, wt) ==
  LET inst == lag = 0 /\ taumax = 0
  IN IF wt = "advanced"
     THEN << Prec(e1, e2, lag, 0, taumax, HeadCut(e1, lag, taumax, inst)),
             Prec(e2, e1, lag, 0, taumax, HeadCut(e2, lag, taumax, inst)) >>
     ELSE IF wt = "retarded"
     THEN << Trig(e1, e2, lag, 0, taumax, TailCut(e2, lag, taumax, inst)),
             Trig(e2, e1, lag, 0, taumax, TailCut(e1, lag, taumax, inst)) >>
     ELSE << Prec(e1, e2, lag, -taumax, taumax,
                  HeadCut(e1, lag, taumax, inst) \cup TailCut(e1, lag, taumax, inst)),
             Prec(e2, e1, lag, -taumax, taumax,
                  HeadCut(e2, lag, taumax, inst) \cup TailCut(e2, lag, taumax, inst)) >>
\* a recorded rate r (scaled 10^6) equals num/den; with no admissible event the rate is undefined
RateIs(r, q, tol) == IF q[2] = 0 THEN TRUE ELSE Close(r, FxDiv(q[1], q[2], 1000000), tol)

\* --- symmetrisations of a directed matrix M (sequence of rows), scaled ints ----------
Sym(M, opt) == [a \in 1..Len(M) |-> [b \in 1..Len(M) |->
   LET u == M[a][b]  v == M[b][a] IN
   IF opt = "directed" THEN u
   ELSE IF ~(IsNum(u) /\ IsNum(v)) THEN NAN
   ELSE IF opt = "symmetric" THEN u + v
   ELSE IF opt = "antisym" THEN u - v
   ELSE IF opt = "mean" THEN (u + v) \div 2
   ELSE IF opt = "max" THEN Max2(u, v)
   ELSE Min2(u, v)]]

\* --- thresholding continuous data ------------------------------------------------
\* value threshold: strictly beyond; quantile q = qa/qb by linear interpolation between
\* order statistics: thr*qb = s[k]*qb + r*(s[k+1]-s[k]) with k = floor(q(T-1)), r the rest
SortedSeq(s) == CHOOSE t \in [1..Len(s) -> {s[k] : k \in 1..Len(s)}] :
                   /\ \A k \in 1..(Len(s) - 1) : t[k] <= t[k + 1]
                   /\ \A v \in {s[k] : k \in 1..Len(s)} :
                        Card({k \in 1..Len(s) : t[k] = v}) = Card({k \in 1..Len(s) : s[k] = v})
QuantileTimes(s, qa, qb) ==   \* returns thr * qb
  LET t == SortedSeq(s)
      pos == qa * (Len(s) - 1)
      k == pos \div qb
      r == pos % qb
  IN IF r = 0 THEN t[k + 1] * qb ELSE t[k + 1] * qb + r * (t[k + 2] - t[k + 1])
Beyond(v, thrq, qb, type) == IF type = "above" THEN v * qb > thrq ELSE v * qb < thrq
=============================================================================
