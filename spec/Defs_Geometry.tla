---------------------------- MODULE Defs_Geometry ----------------------------
(* Closed-form geometry on the exact sub-domain of integer-degree coordinates.   *)
(* Great-circle angle in whole degrees for pairs on a common meridian circle,     *)
(* on the equator, involving a pole, coincident or antipodal; squared Euclidean    *)
(* distances on integer lattices; cosine of integer latitudes via SinDeg.          *)
EXTENDS Integers, Sequences, FiniteSets, TLC, Fx, Tables

Mod360(x) == ((x % 360) + 360) % 360
LonDiff(a, b) == LET d == Mod360(a - b) IN IF d > 180 THEN 360 - d ELSE d      \* 0..180
\* is the great-circle angle of the pair a whole number of degrees we can state exactly?
ExactPair(la1, lo1, la2, lo2) ==
  \/ Abs(la1) = 90 \/ Abs(la2) = 90                 \* a pole
  \/ LonDiff(lo1, lo2) = 0 \/ LonDiff(lo1, lo2) = 180  \* common meridian circle
  \/ (la1 = 0 /\ la2 = 0)                             \* both on the equator
AngleDeg(la1, lo1, la2, lo2) ==
  IF Abs(la1) = 90 THEN (IF la1 = 90 THEN 90 - la2 ELSE 90 + la2)
  ELSE IF Abs(la2) = 90 THEN (IF la2 = 90 THEN 90 - la1 ELSE 90 + la1)
  ELSE IF LonDiff(lo1, lo2) = 0 THEN Abs(la1 - la2)
  ELSE IF LonDiff(lo1, lo2) = 180 THEN 180 - Abs(la1 + la2)
  ELSE LonDiff(lo1, lo2)
\* degrees to radians, scaled by 10^6  (pi/180 = 0.017453292...)
Rad6(deg) == deg * 17453 + RDiv(deg * 293, 1000)
Pi6 == 3141593
\* cos(lat) times 10^4 for an integer latitude
CosLat4(lat) == SinDeg4(90 - Abs(lat))
\* squared Euclidean distance of integer lattice points
SqDist(p, q) == SumN(LAMBDA k : (p[k] - q[k]) * (p[k] - q[k]), 1, Len(p))
\* d3 = round(10^3 * distance) is consistent with the squared distance sq
SqrtOK(d3, sq) == (IF d3 >= 2 THEN (d3 - 2) * (d3 - 2) ELSE 0) <= sq * 1000000 /\ sq * 1000000 <= (d3 + 2) * (d3 + 2)

\* ---- general position: the haversine of the great-circle angle, scale 10^8 -------------------------------
\* hav(theta) = sin^2(theta/2) = sin^2(dlat/2) + cos(lat1) cos(lat2) sin^2(dlon/2)  is a polynomial in sines of
\* half-degree multiples for integer-degree coordinates (table SinHalfDeg8), and a monotone function of theta
\* on [0, pi]; the recorded angle is taken through the same function with a sine evaluated from a table at
\* 10^-3 rad steps and the addition theorem (sin d = d, cos d = 1 - d^2/2 for d < 10^-3: error < 2 10^-10).
\* All products stay inside 32 bits (limbs of 10^4).  Measured against double precision on 2 10^5 pairs:
\* HavTrue8 within 4 units, HavAng8 within 6 units of 10^-8 (tools: see DESIGN section 18).
S8 == 100000000
Mul8(a, b) == LET a1 == a \div 10000  a0 == a % 10000  b1 == b \div 10000  b0 == b % 10000
              IN a1 * b1 + (a1 * b0 + a0 * b1 + 5000) \div 10000 + (a0 * b0 + 50000000) \div S8
Sin8(x8) == LET k == x8 \div 100000  d == x8 % 100000  d2 == Mul8(d, d) \div 2
            IN Mul8(SinMil8(k), S8 - d2) + Mul8(CosMil8(k), d)
Pi8 == 314159265
HavAng8(t8) == LET t == Max2(0, Min2(Pi8, t8))
                   s == IF t % 2 = 0 THEN Sin8(t \div 2) ELSE (Sin8(t \div 2) + Sin8(t \div 2 + 1)) \div 2
               IN Mul8(s, s)
HavTrue8(la1, lo1, la2, lo2) ==
  LET sp == SinHalfDeg8(Abs(la1 - la2))  sl == SinHalfDeg8(LonDiff(lo1, lo2))
      c1 == SinHalfDeg8(2 * (90 - Abs(la1)))  c2 == SinHalfDeg8(2 * (90 - Abs(la2)))
  IN Mul8(sp, sp) + Mul8(Mul8(c1, c2), Mul8(sl, sl))
\* the recorded angle t8 (10^-8 rad) is within tol8 of the true angle: by monotonicity, exactly when the true
\* haversine lies between the haversines of t8 -/+ tol8 (slack: the fixed-point error of both sides)
HavSlack == 15
AngleWithin(t8, tol8, la1, lo1, la2, lo2) ==
  LET h == HavTrue8(la1, lo1, la2, lo2)
  IN HavAng8(t8 - tol8) - HavSlack <= h /\ h <= HavAng8(t8 + tol8) + HavSlack
\* single-precision accuracy: the error of the angle is that of its cosine (1 - 2 hav), a few float32 ulps:
\* |hav(recorded) - hav(true)| <= HTol units of 10^-8, i.e. |error| <= 2 HTol 10^-8 / sin(theta) - about
\* 2^-19 rad at a right angle, 2^-10 rad next to coincident / antipodal pairs
HavClose(t8, htol, la1, lo1, la2, lo2) == Abs(HavAng8(t8) - HavTrue8(la1, lo1, la2, lo2)) <= htol + HavSlack
=============================================================================
