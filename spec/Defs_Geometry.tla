---------------------------- MODULE Defs_Geometry ----------------------------
(* Closed-form geometry on the exact sub-domain of integer-degree coordinates.   *)
(* Great-circle angle in whole degrees for pairs on a common meridian circle,     *)
(* on the equator, involving a pole, coincident or antipodal; squared Euclidean    *)
(* distances on integer lattices; cosine of integer latitudes via SinDeg.          *)
EXTENDS Integers, Sequences, FiniteSets, TLC, Fx, Tables

Mod360(x) == ((x % 360) + 360) % 360
LonDiff(a, b) == LET d == Mod360(a - b) IN IF d > 180 THEN 360 - d ELSE d      \* 0..180
\* is the great-circle angle of the pair a whole number of degrees we can state exactly?
ExactPair(la1, lo1, la2, lo2) ==
  \/ Abs(la1) = 90 \/ Abs(la2) = 90                 \* a pole
  \/ LonDiff(lo1, lo2) = 0 \/ LonDiff(lo1, lo2) = 180  \* common meridian circle
  \/ (la1 = 0 /\ la2 = 0)                             \* both on the equator
AngleDeg(la1, lo1, la2, lo2) ==
  IF Abs(la1) = 90 THEN (IF la1 = 90 THEN 90 - la2 ELSE 90 + la2)
  ELSE IF Abs(la2) = 90 THEN (IF la2 = 90 THEN 90 - la1 ELSE 90 + la1)
  ELSE IF LonDiff(lo1, lo2) = 0 THEN Abs(la1 - la2)
  ELSE IF LonDiff(lo1, lo2) = 180 THEN 180 - Abs(la1 + la2)
  ELSE LonDiff(lo1, lo2)
\* degrees to radians, scaled by 10^6  (pi/180 = 0.017453292...)
Rad6(deg) == deg * 17453 + RDiv(deg * 293, 1000)
Pi6 == 3141593
\* cos(lat) times 10^4 for an integer latitude
CosLat4(lat) == SinDeg4(90 - Abs(lat))
\* squared Euclidean distance of integer lattice points
SqDist(p, q) == SumN(LAMBDA k : (p[k] - q[k]) * (p[k] - q[k]), 1, Len(p))
\* d3 = round(10^3 * distance) is consistent with the squared distance sq
SqrtOK(d3, sq) == (IF d3 >= 2 THEN (d3 - 2) * (d3 - 2) ELSE 0) <= sq * 1000000 /\ sq * 1000000 <= (d3 + 2) * (d3 + 2)
=============================================================================
