-------------------------- MODULE Defs_Interacting --------------------------
(* Cross / internal measures of two node groups of one network, evaluated by   *)
(* definition on the sub-blocks A[G1,G2], D[G1,G2], w[G1], w[G2] taken IN THE    *)
(* ORDER OF THE GIVEN LISTS.  G is the context record of Defs_Network, L1 and    *)
(* L2 are sequences of node numbers.  Per-node results are indexed by the        *)
(* position in L1.                                                               *)
EXTENDS Defs_Network

N1(L) == Len(L)
CrossAdj(G, L1, L2) == [a \in 1..Len(L1) |-> [b \in 1..Len(L2) |-> G.A[L1[a]][L2[b]]]]
CrossDist(G, L1, L2) == [a \in 1..Len(L1) |-> [b \in 1..Len(L2) |->
                           IF Reach(G.D, L1[a], L2[b]) THEN S * G.D[L1[a]][L2[b]] ELSE INF]]
\* degrees towards the other group
CrossOutDeg(G, L1, L2, a) == SumN(LAMBDA b : G.A[L1[a]][L2[b]], 1, Len(L2))
CrossInDeg(G, L1, L2, a)  == SumN(LAMBDA b : G.A[L2[b]][L1[a]], 1, Len(L2))
CrossDeg(G, L1, L2, a) == IF G.dir = 1 THEN CrossInDeg(G, L1, L2, a) + CrossOutDeg(G, L1, L2, a)
                          ELSE CrossOutDeg(G, L1, L2, a)
NumCrossLinks(G, L1, L2) == SumN(LAMBDA a : CrossOutDeg(G, L1, L2, a), 1, Len(L1))
\* internal: links inside one group (each undirected link once)
InternalSum(G, L) == SumN(LAMBDA a : CrossOutDeg(G, L, L, a), 1, Len(L))
NumInternalLinks(G, L) == IF G.dir = 1 THEN InternalSum(G, L) ELSE InternalSum(G, L) \div 2

\* cross clustering of v = L1[a] (undirected): linked pairs among its neighbours in G2
CrossTri(G, L1, L2, a) ==
  SumN(LAMBDA p : SumN(LAMBDA q : G.A[L1[a]][L2[p]] * G.A[L1[a]][L2[q]] * G.A[L2[p]][L2[q]], p + 1, Len(L2)), 1, Len(L2))
CrossLocalClustering(G, L1, L2, a) ==
  LET k == CrossOutDeg(G, L1, L2, a) IN IF k < 2 THEN 0 ELSE Q(CrossTri(G, L1, L2, a), Choose2(k))
CrossGlobalClustering(G, L1, L2) ==
  RDiv(SumN(LAMBDA a : CrossLocalClustering(G, L1, L2, a), 1, Len(L1)), Len(L1))
CrossTriples(G, L1, L2) == SumN(LAMBDA a : Choose2(CrossOutDeg(G, L1, L2, a)), 1, Len(L1))
CrossTransitivity(G, L1, L2) ==
  IF CrossTriples(G, L1, L2) = 0 THEN 0
  ELSE Q(SumN(LAMBDA a : CrossTri(G, L1, L2, a), 1, Len(L1)), CrossTriples(G, L1, L2))

\* paths between the groups (shortest paths may run through the whole network)
CrossReachPairs(G, L1, L2) == SumN(LAMBDA a : SumN(LAMBDA b : IF Reach(G.D, L1[a], L2[b]) THEN 1 ELSE 0, 1, Len(L2)), 1, Len(L1))
CrossDistSum(G, L1, L2) == SumN(LAMBDA a : SumN(LAMBDA b : IF Reach(G.D, L1[a], L2[b]) THEN G.D[L1[a]][L2[b]] ELSE 0, 1, Len(L2)), 1, Len(L1))
CrossAPLDefined(G, L1, L2) == CrossReachPairs(G, L1, L2) > 0
CrossAvgPathLength(G, L1, L2) == Q(CrossDistSum(G, L1, L2), CrossReachPairs(G, L1, L2))
\* internal: pairs of distinct nodes of the group
InternalAPLDefined(G, L) == CrossReachPairs(G, L, L) - Len(L) > 0
InternalAvgPathLength(G, L) == Q(CrossDistSum(G, L, L), CrossReachPairs(G, L, L) - Len(L))
\* closeness: unreachable pairs count with the largest possible distance (whole network
\* size - 1 across groups, group size - 1 inside a group)
DTilde(G, i, j, cap) == IF Reach(G.D, i, j) THEN G.D[i][j] ELSE cap
CrossCloseness(G, L1, L2, a) ==
  LET sm == SumN(LAMBDA b : DTilde(G, L1[a], L2[b], G.n - 1), 1, Len(L2))
  IN IF sm = 0 THEN 0 ELSE Q(Len(L2), sm)
InternalCloseness(G, L, a) ==
  LET sm == SumN(LAMBDA b : DTilde(G, L[a], L[b], Len(L) - 1), 1, Len(L))
  IN IF sm = 0 THEN 0 ELSE Q(Len(L) - 1, sm)
\* mean over G2 of 1/d (0 for unreachable pairs)
LocalEfficiency(G, L1, L2, a) ==
  RDiv(SumN(LAMBDA b : IF Reach(G.D, L1[a], L2[b]) THEN InvD(G.D[L1[a]][L2[b]]) ELSE 0, 1, Len(L2)), Len(L2))

\* ---- n.s.i. variants ----------------------------------------------------------------
ApL(G, i, j) == IF i = j THEN 1 ELSE G.A[i][j]
W1(G, L) == SumN(LAMBDA a : G.w[L[a]], 1, Len(L))
NsiCrossDeg(G, L1, L2, a) == SumN(LAMBDA b : ApL(G, L1[a], L2[b]) * G.w[L2[b]], 1, Len(L2))
NsiCrossMeanDegNum(G, L1, L2) == SumN(LAMBDA a : G.w[L1[a]] * NsiCrossDeg(G, L1, L2, a), 1, Len(L1))
NsiCrossMeanDeg(G, L1, L2) == Q(NsiCrossMeanDegNum(G, L1, L2), W1(G, L1))
NsiCrossEdgeDensity(G, L1, L2) == Q(NsiCrossMeanDegNum(G, L1, L2), W1(G, L1) * W1(G, L2))
NsiCrossTri(G, L1, L2, a) ==
  SumN(LAMBDA p : IF ApL(G, L1[a], L2[p]) = 0 THEN 0 ELSE
      G.w[L2[p]] * SumN(LAMBDA q : ApL(G, L2[p], L2[q]) * G.w[L2[q]] * ApL(G, L2[q], L1[a]), 1, Len(L2)), 1, Len(L2))
NsiCrossLocalClusteringDefined(G, L1, L2, a) == NsiCrossDeg(G, L1, L2, a) > 0
NsiCrossLocalClustering(G, L1, L2, a) ==
  Q(NsiCrossTri(G, L1, L2, a), NsiCrossDeg(G, L1, L2, a) * NsiCrossDeg(G, L1, L2, a))
NsiCrossTransitivityDefined(G, L1, L2) ==
  SumN(LAMBDA a : G.w[L1[a]] * NsiCrossDeg(G, L1, L2, a) * NsiCrossDeg(G, L1, L2, a), 1, Len(L1)) > 0
NsiCrossTransitivity(G, L1, L2) ==
  Q(SumN(LAMBDA a : G.w[L1[a]] * NsiCrossTri(G, L1, L2, a), 1, Len(L1)),
    SumN(LAMBDA a : G.w[L1[a]] * NsiCrossDeg(G, L1, L2, a) * NsiCrossDeg(G, L1, L2, a), 1, Len(L1)))
NsiCrossCloseness(G, L1, L2, a) ==
  Q(W1(G, L2), SumN(LAMBDA b : G.w[L2[b]] * (IF L1[a] = L2[b] THEN 1 ELSE DTilde(G, L1[a], L2[b], G.n - 1)), 1, Len(L2)))
\* documented form: weighted mean of d* over connected pairs of G1 x G2
NsiCrossAvgPathLength(G, L1, L2) ==
  Q(SumN(LAMBDA a : SumN(LAMBDA b : IF Reach(G.D, L1[a], L2[b]) THEN G.w[L1[a]] * G.w[L2[b]] * DStar(G.D, L1[a], L2[b]) ELSE 0, 1, Len(L2)), 1, Len(L1)),
    SumN(LAMBDA a : SumN(LAMBDA b : IF Reach(G.D, L1[a], L2[b]) THEN G.w[L1[a]] * G.w[L2[b]] ELSE 0, 1, Len(L2)), 1, Len(L1)))
=============================================================================
