----------------------------- MODULE Defs_Lines -----------------------------
(* RQA line statistics as run-length counts of a recurrence matrix.          *)
(* A matrix is a sequence of rows R[i][j] in {0,1}; mv[i] = 1 marks a        *)
(* missing state.  A line is a MAXIMAL run of cells of one colour inside one *)
(* line subspace (a row for vertical lines, an off-main diagonal for         *)
(* diagonal lines).  With missing-value handling a cell (i,j) is missing     *)
(* when mv[i] or mv[j]; a line is counted only if it neither contains nor    *)
(* touches (is directly preceded / followed by) a missing cell.              *)
EXTENDS Integers, Sequences, FiniteSets, Fx, Tables

\* cell colour: 0 white, 1 black, 2 missing
Cell(R, mv, i, j) == IF mv[i] = 1 \/ mv[j] = 1 THEN 2 ELSE R[i][j]
NoMv(n) == [k \in 1..n |-> 0]

\* --- line subspaces -----------------------------------------------------------
Row(R, mv, i)      == [j \in 1..Len(R) |-> Cell(R, mv, i, j)]
Column(R, mv, j)   == [i \in 1..Len(R) |-> Cell(R, mv, i, j)]
LowerDiag(R, mv, k) == [m \in 1..(Len(R) - k) |-> Cell(R, mv, k + m, m)]   \* k = 1..N-1
UpperDiag(R, mv, k) == [m \in 1..(Len(R) - k) |-> Cell(R, mv, m, k + m)]

\* --- declarative definition: maximal runs ------------------------------------
\* the set of <<start, end>> of maximal runs of colour col in line c that do not
\* touch a missing cell
RunsDecl(c, col) ==
  {se \in (1..Len(c)) \X (1..Len(c)) :
      /\ se[1] <= se[2]
      /\ \A p \in se[1]..se[2] : c[p] = col
      /\ (se[1] = 1 \/ c[se[1] - 1] # col)
      /\ (se[2] = Len(c) \/ c[se[2] + 1] # col)
      /\ (se[1] = 1 \/ c[se[1] - 1] # 2)
      /\ (se[2] = Len(c) \/ c[se[2] + 1] # 2)}
CountDecl(c, col, l) == Cardinality({se \in RunsDecl(c, col) : se[2] - se[1] + 1 = l})

\* --- the same as a single left-to-right scan (used for large matrices; TLC     --
\* --- checks ScanEqDecl on every line of length <= 7 over {0,1,2}, MC_Lines)   --
RECURSIVE Scan(_, _, _, _, _, _)
Scan(c, col, p, k, bad, acc) ==
  IF p > Len(c) THEN (IF k > 0 /\ ~bad THEN Append(acc, k) ELSE acc)
  ELSE IF c[p] = col THEN Scan(c, col, p + 1, k + 1, bad, acc)
  ELSE IF c[p] = 2 THEN Scan(c, col, p + 1, 0, TRUE, acc)
  ELSE Scan(c, col, p + 1, 0, FALSE, IF k > 0 /\ ~bad THEN Append(acc, k) ELSE acc)
RunLens(c, col) == Scan(c, col, 1, 0, FALSE, <<>>)
CountIn(s, l) == Cardinality({p \in 1..Len(s) : s[p] = l})
ScanEqDecl(c, col) == \A l \in 1..Len(c) : CountIn(RunLens(c, col), l) = CountDecl(c, col, l)

\* --- histograms: Hist[l] = number of lines of length l, l = 1..N --------------
RECURSIVE Concat(_, _, _)
Concat(F(_), k, n) == IF k > n THEN <<>> ELSE F(k) \o Concat(F, k + 1, n)

HistOf(lens, n) == [l \in 1..n |-> CountIn(lens, l)]

VertHist(R, mv, col) ==
  LET n == Len(R) IN HistOf(Concat(LAMBDA i : RunLens(Row(R, mv, i), col), 1, n), n)
VertHistCols(R, mv, col) ==
  LET n == Len(R) IN HistOf(Concat(LAMBDA j : RunLens(Column(R, mv, j), col), 1, n), n)
DiagHist(R, mv) ==
  LET n == Len(R)
  IN HistOf(Concat(LAMBDA k : RunLens(LowerDiag(R, mv, k), 1) \o RunLens(UpperDiag(R, mv, k), 1),
                   1, n - 1), n)
LowerDiagHist(R, mv) ==
  LET n == Len(R) IN HistOf(Concat(LAMBDA k : RunLens(LowerDiag(R, mv, k), 1), 1, n - 1), n)
\* --- rectangular (cross recurrence) matrices: N rows, M columns, no missing cells ------------------------
\* diagonal with offset k (column = row + k), k = -(N-1) .. M-1
XDiagLine(R, k) == LET N == Len(R)  M == Len(R[1])
                       lo == IF k < 0 THEN 1 - k ELSE 1
                       hi == IF N < M - k THEN N ELSE M - k
                   IN [m \in 1..(hi - lo + 1) |-> R[lo + m - 1][lo + m - 1 + k]]
XDiagLens(R, withmain) == LET N == Len(R)  M == Len(R[1]) IN
  Concat(LAMBDA q : IF q = N /\ ~withmain THEN <<>> ELSE RunLens(XDiagLine(R, q - N), 1), 1, N + M - 1)
XRowLens(R, col) == Concat(LAMBDA a : RunLens(R[a], col), 1, Len(R))
XColLens(R, col) == Concat(LAMBDA b : RunLens([a \in 1..Len(R) |-> R[a][b]], col), 1, Len(R[1]))
\* a histogram of any length holds exactly these run lengths
HistHolds(h, lens) == /\ \A l \in 1..Len(h) : h[l] = CountIn(lens, l)
                      /\ \A p \in 1..Len(lens) : lens[p] <= Len(h)
\* declarative variants (small matrices)
VertHistDecl(R, mv, col) ==
  LET n == Len(R) IN [l \in 1..n |-> Sum(LAMBDA i : CountDecl(Row(R, mv, i), col, l), 1..n)]
DiagHistDecl(R, mv) ==
  LET n == Len(R) IN [l \in 1..n |->
      Sum(LAMBDA k : CountDecl(LowerDiag(R, mv, k), 1, l) + CountDecl(UpperDiag(R, mv, k), 1, l),
          1..(n - 1))]

\* --- conservation: every point is on exactly one line --------------------------
Points(R, col)     == Sum(LAMBDA i : Sum(LAMBDA j : IF R[i][j] = col THEN 1 ELSE 0, 1..Len(R)), 1..Len(R))
OffDiagBlack(R)    == Points(R, 1) - Sum(LAMBDA i : R[i][i], 1..Len(R))
Mass(h)            == Sum(LAMBDA l : l * h[l], 1..Len(h))

\* --- scalar measures as functions of a histogram h (all scaled by S = 10^6) -----
S6 == 1000000
PartSum(h, lmin) == Sum(LAMBDA l : l * h[l], lmin..Len(h))
PartCnt(h, lmin) == Sum(LAMBDA l : h[l], lmin..Len(h))
MaxLen(h) == IF \A l \in 1..Len(h) : h[l] = 0 THEN 0
             ELSE CHOOSE l \in 1..Len(h) : h[l] # 0 /\ \A m \in (l + 1)..Len(h) : h[m] = 0
\* fraction of points on lines of length >= lmin (DET, LAM); 0 when there is no point
Fraction(h, lmin) == IF Mass(h) = 0 THEN 0 ELSE FxDiv(PartSum(h, lmin), Mass(h), S6)
\* average length of lines of length >= lmin (L, TT, mean recurrence time)
AvgLen(h, lmin) == IF PartCnt(h, lmin) = 0 THEN 0 ELSE FxDiv(PartSum(h, lmin), PartCnt(h, lmin), S6)
\* Shannon entropy of the distribution of line lengths >= lmin:
\*   -sum p ln p  with  p = h[l]/T  =  ln T - (1/T) sum h[l] ln h[l]
Entropy(h, lmin) ==
  LET T == PartCnt(h, lmin)
  IN IF T = 0 THEN 0
     ELSE Ln6(T) - Sum(LAMBDA l : IF h[l] = 0 THEN 0
                                   ELSE IF h[l] <= 200 THEN RDiv(h[l] * Ln6(h[l]), T)
                                   ELSE RDiv(h[l] * (Ln6(h[l]) \div 100), T) * 100,
                       lmin..Len(h))
=============================================================================
