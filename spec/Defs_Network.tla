---------------------------- MODULE Defs_Network ----------------------------
(* Structural network measures by their published definitions, evaluated      *)
(* directly on the adjacency matrix.  A[i][j] = 1 is a link i -> j            *)
(* (sequence of rows, nodes 1..N); w = integer node weights.  Real results     *)
(* are scaled by S = 10^6 (fixed point, see Fx).  Nothing here follows the     *)
(* library's algorithms (no BFS queues, no sparse algebra): distances are a    *)
(* min-plus closure, path counts a recursion over distance layers,             *)
(* betweenness a sum over pairs of path-count ratios.                          *)
(* For speed every definition works on a context record G = Ctx(A, dir, w)     *)
(* that holds the matrix together with once-evaluated derived tables.          *)
EXTENDS Integers, Sequences, FiniteSets, TLC, Fx, Tables

S == 1000000
Q(p, q) == FxDiv(p, q, S)
Frac0(p, q) == IF q = 0 THEN 0 ELSE Q(p, q)
INFD == 1000000                    \* "no path"

\* -------------------------------------------------------------- distances ---
\* shortest-path lengths as the min-plus closure of the one-step matrix
RECURSIVE Closure(_, _, _)
Closure(D, k, n) ==
  IF k > n THEN D
  ELSE Closure(TLCEval([i \in 1..n |-> TLCEval([j \in 1..n |-> Min2(D[i][j], D[i][k] + D[k][j])])]), k + 1, n)
DistMat(A) == Closure(TLCEval([i \in 1..Len(A) |-> TLCEval([j \in 1..Len(A) |->
                         IF i = j THEN 0 ELSE IF A[i][j] = 1 THEN 1 ELSE INFD])]), 1, Len(A))
\* with positive integer link lengths L[i][j] (only where A[i][j] = 1)
WDistMat(A, L) == Closure(TLCEval([i \in 1..Len(A) |-> TLCEval([j \in 1..Len(A) |->
                         IF i = j THEN 0 ELSE IF A[i][j] = 1 THEN L[i][j] ELSE INFD])]), 1, Len(A))
\* number of shortest paths, by distance layers: sigma(s,s) = 1,
\* sigma(s,t) = sum over predecessors u of t (A[u][t] = 1, d(s,u) = d(s,t) - 1) of sigma(s,u);
\* the n.s.i. variant weights every path by the product of the weights of its interior
\* nodes (pass unit weights for plain counts)
RECURSIVE SigLayers(_, _, _, _, _)
SigLayers(A, D, w, P, d) ==
  IF d > Len(A) THEN P
  ELSE SigLayers(A, D, w,
         TLCEval([s \in 1..Len(A) |-> TLCEval([t \in 1..Len(A) |->
            IF D[s][t] = d
            THEN SumN(LAMBDA u : IF A[u][t] = 1 /\ D[s][u] = d - 1
                                 THEN P[s][u] * (IF u = s THEN 1 ELSE w[u]) ELSE 0, 1, Len(A))
            ELSE P[s][t]])]), d + 1)
SigmaWMat(A, D, w) == SigLayers(A, D, w, TLCEval([s \in 1..Len(A) |-> TLCEval([t \in 1..Len(A) |->
                                                   IF s = t THEN 1 ELSE 0])]), 1)
SigmaMat(A, D) == SigmaWMat(A, D, [k \in 1..Len(A) |-> 1])

\* ---------------------------------------------------------------- context ---
\* (Strict: the tables are bound as values, see Fx; a lazily bound LET would be re-evaluated at
\* every reference made under a bound variable)
CtxFrom(A, dir, w, Um, Dm) ==
  LET n == Len(A) IN
  [A |-> A, n |-> n, dir |-> dir, w |-> w, U |-> Um,
   ko |-> TLCEval([i \in 1..n |-> SumN(LAMBDA j : A[i][j], 1, n)]),
   ki |-> TLCEval([i \in 1..n |-> SumN(LAMBDA j : A[j][i], 1, n)]),
   ku |-> TLCEval([i \in 1..n |-> SumN(LAMBDA j : Um[i][j], 1, n)]),
   \* n.s.i. degrees k*_i = sum_j A+_ij w_j  (A+ = A + identity)
   ks |-> TLCEval([i \in 1..n |-> w[i] + SumN(LAMBDA j : A[i][j] * w[j], 1, n)]),
   ksi |-> TLCEval([i \in 1..n |-> w[i] + SumN(LAMBDA j : A[j][i] * w[j], 1, n)]),
   W |-> SumN(LAMBDA j : w[j], 1, n),
   D |-> Dm, Sg |-> SigmaMat(A, Dm), Sw |-> SigmaWMat(A, Dm, w)]
Ctx(A, dir, w) ==
  Strict(TLCEval([i \in 1..Len(A) |-> TLCEval([j \in 1..Len(A) |-> IF A[i][j] = 1 \/ A[j][i] = 1 THEN 1 ELSE 0])]),
         LAMBDA Um : Strict(DistMat(A), LAMBDA Dm : CtxFrom(A, dir, w, Um, Dm)))
Ap(G, i, j) == IF i = j THEN 1 ELSE G.A[i][j]
Nb(G, i) == {j \in 1..G.n : j # i /\ G.U[i][j] = 1}

\* ---------------------------------------------------------------- degrees ---
OutDeg(G, i) == G.ko[i]
InDeg(G, i)  == G.ki[i]
Deg(G, i) == IF G.dir = 1 THEN G.ki[i] + G.ko[i] ELSE G.ko[i]
BilDeg(G, i) == SumN(LAMBDA j : G.A[i][j] * G.A[j][i], 1, G.n)
NsiOutDeg(G, i) == G.ks[i]
NsiInDeg(G, i)  == G.ksi[i]
NsiDeg(G, i) == IF G.dir = 1 THEN G.ksi[i] + G.ks[i] ELSE G.ks[i]
NsiBilDeg(G, i) == SumN(LAMBDA j : Ap(G, i, j) * G.w[j] * Ap(G, j, i), 1, G.n)
\* Laplacians: diag(k) - A and diag(k*) - A+ diag(w)
Laplacian(G, i, j) == (IF i = j THEN G.ko[i] ELSE 0) - G.A[i][j]
NsiLaplacian(G, i, j) == (IF i = j THEN G.ks[i] ELSE 0) - Ap(G, i, j) * G.w[j]

\* ------------------------------------------------------- neighbourhoods ---
AvgNbDeg(G, i) == Q(SumN(LAMBDA j : G.U[i][j] * G.ku[j], 1, G.n), G.ku[i])     \* ku[i] > 0
MaxNbDeg(G, i) == MaxN(LAMBDA j : G.U[i][j] * G.ku[j], 1, G.n, 0)
NsiAvgNbDeg(G, i) == Q(SumN(LAMBDA j : Ap(G, i, j) * G.w[j] * G.ks[j], 1, G.n), G.ks[i])
NsiMaxNbDeg(G, i) == MaxN(LAMBDA j : Ap(G, i, j) * G.ks[j], 1, G.n, 0)

\* ------------------------------------------------------------ clustering ---
Triangles(G, i) == SumN(LAMBDA a : SumN(LAMBDA b : G.U[i][a] * G.U[i][b] * G.U[a][b], a + 1, G.n), 1, G.n)
LocalClustering(G, i) == IF G.ku[i] < 2 THEN 0 ELSE Q(Triangles(G, i), Choose2(G.ku[i]))
GlobalClustering(G) == RDiv(SumN(LAMBDA i : LocalClustering(G, i), 1, G.n), G.n)
Triples(G) == SumN(LAMBDA i : Choose2(G.ku[i]), 1, G.n)
TransitivityDefined(G) == Triples(G) > 0
Transitivity(G) == Q(SumN(LAMBDA i : Triangles(G, i), 1, G.n), Triples(G))
\* n.s.i.: n_i = sum_{j,l} A+_ij w_j A+_jl w_l A+_li ;  C*_i = n_i / k*_i^2
NsiTri(G, i) == SumN(LAMBDA j : IF Ap(G, i, j) = 0 THEN 0
                                ELSE G.w[j] * SumN(LAMBDA l : Ap(G, j, l) * G.w[l] * Ap(G, l, i), 1, G.n), 1, G.n)
NsiLocalClustering(G, i) == Q(NsiTri(G, i), G.ks[i] * G.ks[i])
NsiGlobalClustering(G) == RDiv(SumN(LAMBDA i : G.w[i] * NsiLocalClustering(G, i), 1, G.n), G.W)
NsiTransitivity(G) == Q(SumN(LAMBDA i : G.w[i] * NsiTri(G, i), 1, G.n),
                        SumN(LAMBDA i : G.w[i] * G.ks[i] * G.ks[i], 1, G.n))
NsiSoffer(G, i) == Q(NsiTri(G, i), SumN(LAMBDA j : Ap(G, i, j) * G.w[j] * Min2(G.ks[i], G.ks[j]), 1, G.n))
NsiTwinness(G, i, j) ==
  IF Ap(G, i, j) = 0 THEN 0
  ELSE Q(SumN(LAMBDA l : Ap(G, i, l) * G.w[l] * Ap(G, l, j), 1, G.n), Max2(G.ks[i], G.ks[j]))

\* motif clustering (directed): closed motifs at i over the possible ones;
\* sum_{j,l} X1_ij X2_jl X3_li with Xk = A (f = 0) or A^T (f = 1)
Mat3(G, i, f1, f2, f3) ==
  SumN(LAMBDA j : SumN(LAMBDA l : (IF f1 = 0 THEN G.A[i][j] ELSE G.A[j][i]) * (IF f2 = 0 THEN G.A[j][l] ELSE G.A[l][j])
                                  * (IF f3 = 0 THEN G.A[l][i] ELSE G.A[i][l]), 1, G.n), 1, G.n)
CycleMotif(G, i) == Frac0(Mat3(G, i, 0, 0, 0), G.ki[i] * G.ko[i] - BilDeg(G, i))
MidMotif(G, i)   == Frac0(Mat3(G, i, 0, 1, 0), G.ki[i] * G.ko[i] - BilDeg(G, i))
InMotif(G, i)    == Frac0(Mat3(G, i, 1, 0, 0), G.ki[i] * (G.ki[i] - 1))
OutMotif(G, i)   == Frac0(Mat3(G, i, 0, 0, 1), G.ko[i] * (G.ko[i] - 1))

\* ---- spectral centralities, as RESIDUAL conditions on a reported vector v (scaled 10^6) -------------
\* eigenvector centrality (undirected, connected): v >= 0, max v = 1, and A v = lambda v with lambda read off
\* at a node where v is maximal
EigenResidualOK(G, v, tol) ==
  LET n == G.n
      Av(i) == SumN(LAMBDA j : G.U[i][j] * v[j], 1, n)
      top == CHOOSE i \in 1..n : \A j \in 1..n : v[i] >= v[j]
      lam == Av(top)                                   \* lambda * 10^6 (v[top] = 10^6)
  IN /\ \A i \in 1..n : v[i] >= -tol
     /\ Close(v[top], 1000000, tol)
     /\ \A i \in 1..n : Close(Av(i), FxMul(lam, Max2(v[i], 0)), tol + lam \div 100000)
\* PageRank with damping 85/100: a probability vector with
\*   p_i = 15/(100 n) + 85/100 (sum_j A_ji p_j / out_j + sum_{out_j = 0} p_j / n)
PageRankResidualOK(G, p, tol) ==
  LET n == G.n
      out(j) == SumN(LAMBDA k : G.A[j][k], 1, n)
      flow(i) == SumN(LAMBDA j : IF G.A[j][i] = 1 THEN p[j] \div out(j) ELSE 0, 1, n)
      dangling == SumN(LAMBDA j : IF out(j) = 0 THEN p[j] ELSE 0, 1, n)
  IN /\ Close(SumN(LAMBDA i : p[i], 1, n), 1000000, tol + n)
     /\ \A i \in 1..n : Close(p[i], 150000 \div n + (85 * (flow(i) + dangling \div n)) \div 100, tol + n)

\* ---- degree assortativity (Newman 2002), undirected: Pearson correlation of the degrees at the two ends of
\* a link; with sums over the m links {s,t}:  r = (4m S_dd - S_+^2) / (2m S_sq - S_+^2),
\* S_dd = sum d_s d_t, S_+ = sum (d_s + d_t), S_sq = sum (d_s^2 + d_t^2); undefined (0/0) on regular graphs
LinkSum(G, F(_, _)) == SumN(LAMBDA a : SumN(LAMBDA b : IF a < b /\ G.U[a][b] = 1 THEN F(a, b) ELSE 0, 1, G.n), 1, G.n)
AssortNum(G) == LET m == LinkSum(G, LAMBDA a, b : 1)  sp == LinkSum(G, LAMBDA a, b : G.ku[a] + G.ku[b])
                IN 4 * m * LinkSum(G, LAMBDA a, b : G.ku[a] * G.ku[b]) - sp * sp
AssortDen(G) == LET m == LinkSum(G, LAMBDA a, b : 1)  sp == LinkSum(G, LAMBDA a, b : G.ku[a] + G.ku[b])
                IN 2 * m * LinkSum(G, LAMBDA a, b : G.ku[a] * G.ku[a] + G.ku[b] * G.ku[b]) - sp * sp
Assortativity(G) == Q(AssortNum(G), AssortDen(G))

\* ---- link-weighted variants (a link attribute W given as key) ----------------------------
\* The harness uses weights that are perfect cubes, W[i][j] = R[i][j]^3 on links (0 elsewhere), with the
\* cube roots R fixed by the node numbers, so that Fagiolo's W^[1/3] is an integer matrix.
\* (roots 1 and 2 only: the bilateral strength sum W_ij W_ji must stay below 2^31 / 10^6)
CubeRoot(dir, i, j) == IF dir = 1 THEN ((i + 2 * j + (i * j) \div 2) % 2) + 1 ELSE ((i * j + (i + j) \div 2) % 2) + 1
RootMat(A, dir) == [i \in 1..Len(A) |-> [j \in 1..Len(A) |-> A[i][j] * CubeRoot(dir, i, j)]]
CubeMat(R) == [i \in 1..Len(R) |-> [j \in 1..Len(R) |-> R[i][j] * R[i][j] * R[i][j]]]
OutStrength(W, i) == SumN(LAMBDA j : W[i][j], 1, Len(W))
InStrength(W, i) == SumN(LAMBDA j : W[j][i], 1, Len(W))
BilStrength(W, i) == SumN(LAMBDA j : W[i][j] * W[j][i], 1, Len(W))
\* Fagiolo (2007): the numerator uses W^[1/3], the denominator the BINARY degrees
WMat3(R, i, f1, f2, f3) ==
  SumN(LAMBDA j : SumN(LAMBDA l : (IF f1 = 0 THEN R[i][j] ELSE R[j][i]) * (IF f2 = 0 THEN R[j][l] ELSE R[l][j])
                                  * (IF f3 = 0 THEN R[l][i] ELSE R[i][l]), 1, Len(R)), 1, Len(R))
WCycleMotif(G, R, i) == Frac0(WMat3(R, i, 0, 0, 0), G.ki[i] * G.ko[i] - BilDeg(G, i))
WMidMotif(G, R, i)   == Frac0(WMat3(R, i, 0, 1, 0), G.ki[i] * G.ko[i] - BilDeg(G, i))
WInMotif(G, R, i)    == Frac0(WMat3(R, i, 1, 0, 0), G.ki[i] * (G.ki[i] - 1))
WOutMotif(G, R, i)   == Frac0(WMat3(R, i, 0, 0, 1), G.ko[i] * (G.ko[i] - 1))

\* cliques
IsClique(G, C) == \A a \in C : \A b \in C : a = b \/ G.U[a][b] = 1
KSub(T, k) == {C \in SUBSET T : Cardinality(C) = k}
Binom(n, k) == IF k = 2 THEN Choose2(n) ELSE IF k = 3 THEN (n * (n - 1) * (n - 2)) \div 6
               ELSE (n * (n - 1) * (n - 2) * (n - 3)) \div 24
\* order o = 3, 4, 5: (o-1)-cliques among the neighbours over the possible ones
LocalCliquishness(G, o, i) ==
  IF G.ku[i] < o - 1 THEN 0
  ELSE Q(Cardinality({C \in KSub(Nb(G, i), o - 1) : IsClique(G, C)}), Binom(G.ku[i], o - 1))
\* 4 * #K4 / #3-stars
Stars3(G) == SumN(LAMBDA i : Binom(G.ku[i], 3), 1, G.n)
HigherOrderTransitivity4(G) ==
  IF Stars3(G) = 0 THEN 0
  ELSE Q(4 * Cardinality({C \in KSub(1..G.n, 4) : IsClique(G, C)}), Stars3(G))
MatchingIndex(G, i, j) ==
  LET c == SumN(LAMBDA l : IF l # i /\ l # j THEN G.U[i][l] * G.U[j][l] ELSE 0, 1, G.n)
      ci == SumN(LAMBDA l : IF l # i THEN G.U[i][l] ELSE 0, 1, G.n)
      cc == Cardinality(Nb(G, i) \cap Nb(G, j))
      d == G.ku[i] + G.ku[j] - cc
  IN IF d = 0 THEN 0 ELSE Q(cc, d)

\* ------------------------------------------------------------------ paths ---
Reach(D, i, j) == D[i][j] < INFD
Connected(D) == \A i \in 1..Len(D) : \A j \in 1..Len(D) : Reach(D, i, j)
\* sum of F(i, j) over ordered pairs i # j
SumPairs(F(_, _), n) == SumN(LAMBDA i : SumN(LAMBDA j : IF i = j THEN 0 ELSE F(i, j), 1, n), 1, n)
SumAll(F(_, _), n) == SumN(LAMBDA i : SumN(LAMBDA j : F(i, j), 1, n), 1, n)
\* mean of d over ordered pairs i # j with a path (undefined without such a pair)
NReach(D) == SumPairs(LAMBDA i, j : IF Reach(D, i, j) THEN 1 ELSE 0, Len(D))
APLDefined(D) == NReach(D) > 0
AvgPathLength(D) == Q(SumPairs(LAMBDA i, j : IF Reach(D, i, j) THEN D[i][j] ELSE 0, Len(D)), NReach(D))
Diameter(D) == MaxN(LAMBDA i : MaxN(LAMBDA j : IF Reach(D, i, j) THEN D[i][j] ELSE 0, 1, Len(D), 0), 1, Len(D), 0)
\* closeness on connected undirected graphs: (N-1) / sum_j d_ij
Closeness(D, i) == Q(Len(D) - 1, SumN(LAMBDA j : D[i][j], 1, Len(D)))
\* sum over pairs of 1/d, as a fixed-point sum of unit fractions
InvD(d) == RDiv(S, d)
GlobalEfficiency(D) ==
  RDiv(SumPairs(LAMBDA i, j : IF Reach(D, i, j) THEN InvD(D[i][j]) ELSE 0, Len(D)), Len(D) * (Len(D) - 1))
\* n.s.i. path measures use d* = d + identity (a node is at distance 1 from itself)
DStar(D, i, j) == IF i = j THEN 1 ELSE D[i][j]
NsiAvgPathLength(D, w) ==
  Q(SumAll(LAMBDA i, j : IF Reach(D, i, j) THEN w[i] * w[j] * DStar(D, i, j) ELSE 0, Len(D)),
    SumAll(LAMBDA i, j : IF Reach(D, i, j) THEN w[i] * w[j] ELSE 0, Len(D)))
NsiCloseness(D, w, i) ==
  IF \E j \in 1..Len(D) : ~Reach(D, i, j) THEN 0
  ELSE Q(SumN(LAMBDA j : w[j], 1, Len(D)), SumN(LAMBDA j : w[j] * DStar(D, i, j), 1, Len(D)))
NsiHarmonicCloseness(D, w, i) ==
  RDiv(SumN(LAMBDA j : IF Reach(D, i, j) THEN w[j] * InvD(DStar(D, i, j)) ELSE 0, 1, Len(D)),
       SumN(LAMBDA j : w[j], 1, Len(D)))
NsiExpCloseness(D, w, i) ==
  RDiv(SumN(LAMBDA j : IF Reach(D, i, j) THEN w[j] * Pow2Neg6(DStar(D, i, j)) ELSE 0, 1, Len(D)),
       SumN(LAMBDA j : w[j], 1, Len(D)))
NsiGlobalEfficiency(D, w) ==
  LET W == SumN(LAMBDA j : w[j], 1, Len(D))
  IN RDiv(SumAll(LAMBDA i, j : IF Reach(D, i, j) THEN w[i] * w[j] * InvD(DStar(D, i, j)) ELSE 0, Len(D)), W * W)

\* ----------------------------------------------------------- betweenness ---
LCM == 2520           \* common multiple of the path counts (guarded by Divides)
Divides(Sg) == \A s \in 1..Len(Sg) : \A t \in 1..Len(Sg) : Sg[s][t] = 0 \/ LCM % Sg[s][t] = 0
InSet(T, k) == k \in T
\* LCM * sum over ordered pairs (s,t) in Src x Tgt, s # t, v not in {s,t}, of sigma_st(v) / sigma_st
BetwLCM(G, v, Src, Tgt) ==
  SumN(LAMBDA s : IF s = v \/ s \notin Src THEN 0 ELSE
     SumN(LAMBDA t : IF t = v \/ t = s \/ t \notin Tgt \/ ~Reach(G.D, s, t) \/ G.D[s][v] + G.D[v][t] # G.D[s][t]
                     THEN 0 ELSE G.Sg[s][v] * G.Sg[v][t] * (LCM \div G.Sg[s][t]), 1, G.n), 1, G.n)
\* shortest-path betweenness: halved on undirected networks
Betweenness(G, v) == Q(BetwLCM(G, v, 1..G.n, 1..G.n), LCM * (IF G.dir = 1 THEN 1 ELSE 2))
\* interregional: ordered pairs in Src x Tgt, not halved
InterregionalBetweenness(G, v, Src, Tgt) == Q(BetwLCM(G, v, Src, Tgt), LCM)
\* betweenness of the link (a,b): shortest paths using the step a -> b, over ordered pairs
LinkLCM(G, a, b) ==
  IF G.A[a][b] = 0 THEN 0 ELSE
  SumN(LAMBDA s : SumN(LAMBDA t : IF s = t \/ ~Reach(G.D, s, t) \/ G.D[s][a] + 1 + G.D[b][t] # G.D[s][t] THEN 0
                                  ELSE G.Sg[s][a] * G.Sg[b][t] * (LCM \div G.Sg[s][t]), 1, G.n), 1, G.n)
LinkBetweenness(G, a, b) ==
  IF G.dir = 1 THEN Q(LinkLCM(G, a, b), LCM) ELSE Q(LinkLCM(G, a, b) + LinkLCM(G, b, a), 2 * LCM)
\* n.s.i. betweenness: (1/w_v) sum_{s in Src, t in Tgt} w_s w_t sigma*_st(v) / sigma*_st, where
\* sigma* weights each path by its interior nodes; a path through v splits at v:
\* sigma*_st(v) = Sw[s][v] * w_v * Sw[v][t]  =>  the factor w_v cancels
NsiBetweenness(G, v, Src, Tgt) ==
  SumN(LAMBDA s : IF s = v \/ s \notin Src THEN 0 ELSE
     SumN(LAMBDA t : IF t = v \/ t = s \/ t \notin Tgt \/ ~Reach(G.D, s, t) \/ G.D[s][v] + G.D[v][t] # G.D[s][t]
                     THEN 0 ELSE Q(G.w[s] * G.w[t] * G.Sw[s][v] * G.Sw[v][t], G.Sw[s][t]), 1, G.n), 1, G.n)

\* k-cores: KCore(k) = the union of all node sets whose induced degrees are >= k; the
\* coreness of i is the largest k with i in KCore(k)
KCoreTable(G) ==
  TLCEval([k \in 0..G.n |-> UNION {C \in SUBSET (1..G.n) : \A a \in C : Cardinality(Nb(G, a) \cap C) >= k}])
CorenessFrom(T, n, i) == MaxN(LAMBDA k : IF i \in T[k] THEN k ELSE 0, 0, n, 0)

\* sub-matrix without node i
Without(A, i) == LET idx == [k \in 1..(Len(A) - 1) |-> IF k < i THEN k ELSE k + 1]
                 IN [a \in 1..(Len(A) - 1) |-> [b \in 1..(Len(A) - 1) |-> A[idx[a]][idx[b]]]]
=============================================================================
