--------------------------- MODULE Defs_RandomWalk ---------------------------
(* Newman's random-walk (current-flow) betweenness of a connected undirected     *)
(* graph by its electrical definition, in exact integer arithmetic:               *)
(*   tau      = number of spanning trees = det L(1)  (L the Laplacian, L(a) without *)
(*              row / column a)                                                    *)
(*   E[a][b]  = tau * R_eff(a, b) = det L(a, b)        (Kirchhoff)                  *)
(*   a unit current from s to t puts the potential difference                       *)
(*       V_i - V_j = (R(i,t) + R(j,s) - R(i,s) - R(j,t)) / 2                        *)
(*   across the link i-j; the current through a node i other than s, t is           *)
(*       I_i(s,t) = 1/2 sum_j A_ij |V_i - V_j|,   I_s = I_t = 1                     *)
(*   Newman (2005):  b_i = sum_{s<t} I_i(s,t) / (n (n-1) / 2); the library reports   *)
(*   n * b_i = 2 + 2 / (n-1) * sum_{s<t, i not in {s,t}} I_i(s,t).                   *)
(* Nothing here inverts a matrix without its last row: the definition does not       *)
(* depend on which node is grounded.                                                *)
EXTENDS LinAlg

Lap(A) == TLCEval([i \in 1..Len(A) |-> TLCEval([j \in 1..Len(A) |->
             IF i = j THEN SumN(LAMBDA k : A[i][k], 1, Len(A)) ELSE -A[i][j]])])
TreeCount(A) == Det(Minor(Lap(A), 1, 1))
\* E[a][b] = det L(a, b)
ERNum(A) == LET L == Lap(A) IN
  TLCEval([a \in 1..Len(A) |-> TLCEval([b \in 1..Len(A) |->
     IF a = b THEN 0 ELSE LET La == Minor(L, a, a)  bb == IF b < a THEN b ELSE b - 1 IN Det(Minor(La, bb, bb))])])
\* sum over s < t (both different from i) and over the neighbours j of i of |2 tau (V_i - V_j)|
NewmanNum(A, E, i) ==
  LET n == Len(A) IN
  SumN(LAMBDA t : SumN(LAMBDA s : IF s = i \/ t = i THEN 0
         ELSE SumN(LAMBDA j : A[i][j] * Abs(E[i][t] + E[j][s] - E[i][s] - E[j][t]), 1, n), 1, t - 1), 1, n)
\* n * b_i scaled by 10^6:   2 + NewmanNum / (2 tau (n - 1))
NewmanRWB6(A, E, tau, i) == 2000000 + FxDiv(NewmanNum(A, E, i), 2 * tau * (Len(A) - 1), 1000000)

\* ---- Arenas-type random-walk betweenness ------------------------------------------------------------------
\* A walker starts at a source s and moves to a uniformly chosen neighbour until it ARRIVES at the target i, where
\* it is absorbed.  b_j = sum over all targets i and all sources s of the expected number of arrivals at j
\* (arrivals, not the start: the walk s -> i arrives at i exactly once).  With P the transition matrix and P(i) the
\* same matrix with row i set to zero, the arrivals are the entries of  sum_{m >= 1} P(i)^m = (1 - P(i))^-1 P(i);
\* multiplying out the degrees,  (1 - P(i))^-1 P(i) = M(i)^-1 A(i)  with the INTEGER matrix M(i) = D - A(i)
\* (A(i) = A with row i zero, D the degrees), whose inverse is its adjugate over its determinant.
AbsorbM(A, i) == TLCEval([a \in 1..Len(A) |-> TLCEval([b \in 1..Len(A) |->
                   IF a = b THEN SumN(LAMBDA c : A[a][c], 1, Len(A)) ELSE IF a = i THEN 0 ELSE -A[a][b]])])
Cof(M, r, c) == (IF (r + c) % 2 = 0 THEN 1 ELSE -1) * Det(Minor(M, r, c))
\* det M(i) * sum_s [M(i)^-1]_{s l}:  the inverse's entry (s, l) is the cofactor of (l, s) over the determinant
ColSumAdj(M, l) == SumN(LAMBDA s : Cof(M, l, s), 1, Len(M))
\* expected arrivals at j, summed over all sources, for the target i: <<numerator, denominator>>
ArenasTarget(A, i, j) ==
  LET M == AbsorbM(A, i) IN
  <<SumN(LAMBDA l : IF l = i \/ A[l][j] = 0 THEN 0 ELSE ColSumAdj(M, l), 1, Len(A)), Det(M)>>
ArenasRWB6(A, j) == SumN(LAMBDA i : LET q == ArenasTarget(A, i, j) IN
                                     IF q[2] > 0 THEN FxDiv(q[1], q[2], 1000000) ELSE -FxDiv(q[1], -q[2], 1000000),
                         1, Len(A))
=============================================================================
