-------------------------- MODULE Defs_Recurrence --------------------------
(* Recurrence matrices as thresholded distance matrices.                      *)
(* A trajectory is a sequence of state vectors (sequences of integers: the    *)
(* real values times the common denominator den).  mv[i] = 1 marks a state    *)
(* with a missing component.  A threshold is a rational tn/td (td > 0).       *)
EXTENDS Integers, Sequences, FiniteSets, Fx

\* delay embedding of a scalar series s (sequence of integers)
EmbLen(n, dim, tau) == n - (dim - 1) * tau
Embed(s, dim, tau) ==
  [i \in 1..EmbLen(Len(s), dim, tau) |-> [k \in 1..dim |-> s[i + (k - 1) * tau]]]
\* a state of the embedding is missing when one of its components is
EmbedMask(m, dim, tau) ==
  [i \in 1..EmbLen(Len(m), dim, tau) |->
      IF \E k \in 1..dim : m[i + (k - 1) * tau] = 1 THEN 1 ELSE 0]
Scalar(s) == [i \in 1..Len(s) |-> <<s[i]>>]

\* --- the three metrics on integer vectors ("euclidean" is kept squared) ---------
Manhattan(a, b) == Sum(LAMBDA k : Abs(a[k] - b[k]), 1..Len(a))
Supremum(a, b)  == MaxOf(LAMBDA k : Abs(a[k] - b[k]), 1..Len(a), 0)
EuclidSq(a, b)  == Sum(LAMBDA k : (a[k] - b[k]) * (a[k] - b[k]), 1..Len(a))
\* a monotone image of the distance: comparisons between Dist values of one metric
\* are comparisons between distances
Dist(metric, a, b) == IF metric = "manhattan" THEN Manhattan(a, b)
                      ELSE IF metric = "supremum" THEN Supremum(a, b) ELSE EuclidSq(a, b)
\* distance (real: Dist/den, euclid: sqrt(Dist)/den) strictly below tn/td
Below(metric, d, den, tn, td) ==
  IF tn <= 0 THEN FALSE
  ELSE IF metric = "euclidean" THEN d * td * td < tn * tn * den * den
  ELSE d * td < tn * den

DistMat(metric, X, Y) == [i \in 1..Len(X) |-> [j \in 1..Len(Y) |-> Dist(metric, X[i], Y[j])]]

\* --- thresholded matrices --------------------------------------------------------
\* fixed threshold; missing states recur with nothing
RecFixed(metric, X, Y, mx, my, den, tn, td) ==
  [i \in 1..Len(X) |-> [j \in 1..Len(Y) |->
     IF mx[i] = 0 /\ my[j] = 0 /\ Below(metric, Dist(metric, X[i], Y[j]), den, tn, td)
     THEN 1 ELSE 0]]
Zeros(n) == [k \in 1..n |-> 0]
\* threshold in units of the standard deviation of the (scalar) series s: eps = (tn/td) sigma with
\* sigma^2 = V / n^2, V = n sum s^2 - (sum s)^2.  d < eps  <=>  d^2 td^2 n^2 < tn^2 V  (d, eps >= 0).
\* Returns 1 / 0, and 2 where d = eps exactly (the floating-point comparison may go either way).
VarN2(s) == Len(s) * SumN(LAMBDA t : s[t] * s[t], 1, Len(s)) - SumN(LAMBDA t : s[t], 1, Len(s)) * SumN(LAMBDA t : s[t], 1, Len(s))
RecStd(metric, X, s, tn, td) ==
  LET n == Len(s)  V == VarN2(s) IN
  [i \in 1..Len(X) |-> [j \in 1..Len(X) |->
     LET d == Dist(metric, X[i], X[j])
         lhs == (IF metric = "euclidean" THEN d ELSE d * d) * td * td * n * n
         rhs == tn * tn * V
     IN IF lhs < rhs THEN 1 ELSE IF lhs = rhs /\ rhs > 0 THEN 2 ELSE 0]]
AgreesUpToTies(R, E) == /\ Len(R) = Len(E)
                        /\ \A a \in 1..Len(E) : Len(R[a]) = Len(E[a]) /\ \A b \in 1..Len(E[a]) : E[a][b] = 2 \/ R[a][b] = E[a][b]

\* k-th order statistic (k counted from 0) of a finite family of numbers D over index
\* set I: v with  #{< v} <= k < #{<= v};  "x is below the k-th order statistic"  <=>
\* #{y : y <= x} <= k
BelowOrderStat(x, Dvals, k) == Card({p \in DOMAIN Dvals : Dvals[p] <= x}) <= k
\* global fixed recurrence rate rr = rn/rd: the threshold is the floor(rr*(n*m-1))-th
\* order statistic of ALL n*m distances
RecRate(metric, X, Y, rn, rd) ==
  LET n == Len(X)  m == Len(Y)
      D == [p \in (1..n) \X (1..m) |-> Dist(metric, X[p[1]], Y[p[2]])]
      k == (rn * (n * m - 1)) \div rd
  IN [i \in 1..n |-> [j \in 1..m |-> IF BelowOrderStat(D[<<i, j>>], D, k) THEN 1 ELSE 0]]
\* local rate: per state i the floor(rr*(n-1))-th order statistic of its own distances
RecLocalRate(metric, X, rn, rd) ==
  LET n == Len(X)
      k == (rn * (n - 1)) \div rd
  IN [i \in 1..n |-> LET Di == [j \in 1..n |-> Dist(metric, X[i], X[j])]
                     IN [j \in 1..n |-> IF BelowOrderStat(Di[j], Di, k) THEN 1 ELSE 0]]
\* the cut of row i is free of ties: then exactly k states are below it
TieFreeRow(metric, X, i, rn, rd) ==
  LET n == Len(X)  k == (rn * (n - 1)) \div rd
      Di == [j \in 1..n |-> Dist(metric, X[i], X[j])]
  IN \E j \in 1..n : Card({b \in 1..n : Di[b] < Di[j]}) = k

\* --- compositions ----------------------------------------------------------------
\* joint recurrence with lag: JR[i][j] = RX[i][j] * RY[i+lag][j+lag]  (lag >= 0)
\*                                      = RY[i][j] * RX[i-lag][j-lag]  (lag < 0), size n - |lag|
Joint(RX, RY, lag) ==
  LET n == Len(RX)  a == Abs(lag)
  IN [i \in 1..(n - a) |-> [j \in 1..(n - a) |->
       IF lag >= 0 THEN RX[i][j] * RY[i + a][j + a] ELSE RY[i][j] * RX[i + a][j + a]]]
\* inter-system matrix: [[RX, CR], [CR^T, RY]]
InterSystem(RX, RY, CR) ==
  LET nx == Len(RX)  ny == Len(RY)
  IN [i \in 1..(nx + ny) |-> [j \in 1..(nx + ny) |->
       IF i <= nx /\ j <= nx THEN RX[i][j]
       ELSE IF i <= nx THEN CR[i][j - nx]
       ELSE IF j <= nx THEN CR[j][i - nx]
       ELSE RY[i - nx][j - nx]]]
NoDiag(R) == [i \in 1..Len(R) |-> [j \in 1..Len(R) |-> IF i = j THEN 0 ELSE R[i][j]]]
\* sub-matrix on the states that are not missing, in order
Kept(mv) == {i \in 1..Len(mv) : mv[i] = 0}
RECURSIVE SeqOfSet(_)
SeqOfSet(S) == IF S = {} THEN <<>>
               ELSE LET x == CHOOSE y \in S : \A z \in S : y <= z IN <<x>> \o SeqOfSet(S \ {x})
SubMat(R, mv) == LET idx == SeqOfSet(Kept(mv))
                 IN [a \in 1..Len(idx) |-> [b \in 1..Len(idx) |-> R[idx[a]][idx[b]]]]
IsSymM(R) == \A a \in 1..Len(R) : \A b \in 1..Len(R) : R[a][b] = R[b][a]
RowSumOff(R, i) == Sum(LAMBDA j : IF j = i THEN 0 ELSE R[i][j], 1..Len(R))
Total(R) == Sum(LAMBDA i : Sum(LAMBDA j : R[i][j], 1..Len(R[i])), 1..Len(R))
=============================================================================
