--------------------------- MODULE Defs_Resistive ---------------------------
(* Resistor networks with integer conductances.  r[i][j] = resistance of the    *)
(* link i-j (0 = no link), taken from {1, 2, 4, 8} so that G8 = 8/r is an integer *)
(* conductance (times 8).  Effective resistance by Kirchhoff's matrix-tree form:  *)
(*    R_eff(a,b) = det L(a,b) / det L(a)                                          *)
(* with L the conductance Laplacian, L(a) without row/column a, L(a,b) without     *)
(* rows/columns a and b.  Values scaled by S = 10^6.                               *)
EXTENDS LinAlg, Defs_Network

G8(r, i, j) == IF r[i][j] = 0 THEN 0 ELSE 8 \div r[i][j]
Lap8(r) == TLCEval([i \in 1..Len(r) |-> TLCEval([j \in 1..Len(r) |->
              IF i = j THEN SumN(LAMBDA k : G8(r, i, k), 1, Len(r)) ELSE -G8(r, i, j)])])
\* <<numerator, denominator>> of R_eff(a, b)   (a # b); the factor 8 undoes the scaling of L
EffRes(r, a, b) ==
  LET L == Lap8(r)
      La == Minor(L, a, a)
      bb == IF b < a THEN b ELSE b - 1
  IN <<8 * Det(Minor(La, bb, bb)), Det(La)>>
EffRes6(r, a, b) == IF a = b THEN 0 ELSE LET q == EffRes(r, a, b) IN FxDiv(q[1], q[2], 1000000)
AdjOf(r) == TLCEval([i \in 1..Len(r) |-> TLCEval([j \in 1..Len(r) |-> IF r[i][j] # 0 THEN 1 ELSE 0])])
\* resistance of the cheapest connecting path (link lengths = resistances)
PathResistance(r) == WDistMat(AdjOf(r), r)
\* Foster's theorem: sum over links of R_eff * conductance = n - 1; checked on recorded er6:
\* sum_{i<j} er6[i][j] * G8[i][j] = 8 * (n - 1) * 10^6
FosterSum(r, er6) == SumN(LAMBDA i : SumN(LAMBDA j : er6[i][j] * G8(r, i, j), i + 1, Len(r)), 1, Len(r))
\* admittive degree (times 8) and clustering
AdmDeg8(r, i) == SumN(LAMBDA j : G8(r, i, j), 1, Len(r))
DegOf(r, i) == SumN(LAMBDA j : IF r[i][j] # 0 THEN 1 ELSE 0, 1, Len(r))
AvgNbAdmDeg6(r, i) == FxDiv(SumN(LAMBDA j : IF r[i][j] # 0 THEN AdmDeg8(r, j) ELSE 0, 1, Len(r)), AdmDeg8(r, i), 1000000)
LocalAdmClustering6(r, i) ==
  IF DegOf(r, i) = 1 THEN 0
  ELSE FxDiv(SumN(LAMBDA j : SumN(LAMBDA k : G8(r, i, j) * G8(r, i, k) * G8(r, j, k), 1, Len(r)), 1, Len(r)),
             64 * AdmDeg8(r, i) * (DegOf(r, i) - 1), 1000000)
\* current-flow betweenness from the (recorded) effective resistances e4 (scaled 10^4):
\* potential difference V_i - V_j for a unit current s -> t = (e(i,t) + e(j,s) - e(i,s) - e(j,t)) / 2
PotDiff2(e4, i, j, s, t) == Abs(e4[i][t] + e4[j][s] - e4[i][s] - e4[j][t])      \* twice |V_i - V_j|
\* VCFB_i = 2/(n(n-1)) sum_{s<t, i not in {s,t}} 1/2 sum_j g_ij |V_i - V_j|   (scaled 10^4)
Vcfb4(r, e4, i) ==
  LET n == Len(r) IN
  RDiv(SumN(LAMBDA t : SumN(LAMBDA s : IF s = i \/ t = i THEN 0
                ELSE SumN(LAMBDA j : G8(r, i, j) * PotDiff2(e4, i, j, s, t), 1, n), 1, t - 1), 1, n),
       16 * n * (n - 1))
\* ECFB_ij = 2/(n(n-1)) sum_{s<t} g_ij |V_i - V_j|
Ecfb4(r, e4, i, j) ==
  LET n == Len(r) IN
  RDiv(SumN(LAMBDA t : SumN(LAMBDA s : G8(r, i, j) * PotDiff2(e4, i, j, s, t), 1, t - 1), 1, n), 8 * n * (n - 1))
=============================================================================
