--------------------------- MODULE Defs_Surrogates ---------------------------
(* What each surrogate method promises (Schreiber & Schmitz 2000; Thiel et al.   *)
(* 2006), on integer / fixed-point data rows (sequences).                         *)
EXTENDS Integers, Sequences, FiniteSets, TLC, Fx, Tables

\* ---- permutation: same multiset of values -----------------------------------------
CountOf(s, v) == Cardinality({k \in 1..Len(s) : s[k] = v})
IsPermutation(a, b) == Len(a) = Len(b) /\ \A k \in 1..Len(a) : CountOf(a, a[k]) = CountOf(b, a[k])

\* ---- power spectrum in fixed point ------------------------------------------------
\* x holds values times 10^3; Re/Im of the DFT at frequency f are scaled down by 10^5 so that
\* their squares fit: P(f) = Re^2 + Im^2 in units of (10^2 * value)^2
Re5(x, f) == SumN(LAMBDA t : x[t] * Cos4(f * (t - 1), Len(x)), 1, Len(x)) \div 100000
Im5(x, f) == SumN(LAMBDA t : x[t] * Sin4(f * (t - 1), Len(x)), 1, Len(x)) \div 100000
Power(x, f) == Re5(x, f) * Re5(x, f) + Im5(x, f) * Im5(x, f)
\* the frequencies that are neither zero nor Nyquist
InnerFreqs(n) == {f \in 1..(n - 1) : 2 * f < n}
\* finer scale (Re/Im scaled down by 10^4 only) for small amplitudes
Re4(x, f) == RDiv(SumN(LAMBDA t : x[t] * Cos4(f * (t - 1), Len(x)), 1, Len(x)), 10000)
Im4(x, f) == RDiv(SumN(LAMBDA t : x[t] * Sin4(f * (t - 1), Len(x)), 1, Len(x)), 10000)
PowerHi(x, f) == Re4(x, f) * Re4(x, f) + Im4(x, f) * Im4(x, f)
Small(x, f) == Abs(Re5(x, f)) <= 3000 /\ Abs(Im5(x, f)) <= 3000
\* same amplitude spectrum up to 2 % + rounding
SamePower(p, q, slack) == Abs(p - q) * 50 <= Max2(p, q) + slack
SameSpectrum(x, y) ==
  \A f \in InnerFreqs(Len(x)) :
     IF Small(x, f) /\ Small(y, f) THEN SamePower(PowerHi(x, f), PowerHi(y, f), 4000)
     ELSE SamePower(Power(x, f), Power(y, f), 400)

\* ---- twins ------------------------------------------------------------------------
\* X: sequence of state vectors (integers); j, k recurrent iff the supremum distance <= thr
RecS(X, thr) == TLCEval([j \in 1..Len(X) |-> TLCEval([k \in 1..Len(X) |->
                   IF \A l \in 1..Len(X[j]) : Abs(X[j][l] - X[k][l]) <= thr THEN 1 ELSE 0])])
Embed(s, dim, tau) == [t \in 1..(Len(s) - (dim - 1) * tau) |-> [l \in 1..dim |-> s[t + (l - 1) * tau]]]
IsTwin(R, j, k, md) == /\ Abs(j - k) > md /\ R[j] = R[k]
                       /\ SumN(LAMBDA l : R[j][l], 1, Len(R)) # 1          \* more than just itself
\* the twins of state j (0-based indices, ascending)
RECURSIVE TwinList(_, _, _, _)
TwinList(R, j, md, k) == IF k > Len(R) THEN <<>>
                         ELSE (IF IsTwin(R, j, k, md) THEN <<k - 1>> ELSE <<>>) \o TwinList(R, j, md, k + 1)
Twins(R, md) == [j \in 1..Len(R) |-> TwinList(R, j, md, 1)]
\* twin walk on 0-based state indices idx: each state is followed by its own successor or the
\* successor of one of its twins; when that successor does not exist the walk restarts anywhere
StepOK(tw, n, k, nk) ==
  LET cands == {k + 1} \cup {tw[k + 1][m] + 1 : m \in 1..Len(tw[k + 1])}
  IN nk \in cands \/ (\E c \in cands : c >= n)
TwinWalk(tw, n, idx) == \A j \in 1..(Len(idx) - 1) : StepOK(tw, n, idx[j], idx[j + 1])
=============================================================================
