-------------------------- MODULE Defs_Visibility --------------------------
(* Visibility graphs by their geometric criterion (Lacasa et al. 2008;       *)
(* Luque et al. 2009), on integer samples: x values, t strictly increasing   *)
(* times, mv[k] = 1 marks a missing sample.  No division: slopes are         *)
(* compared by cross-multiplication, so ties (collinear triples, plateaus)   *)
(* are decided exactly.                                                      *)
EXTENDS Integers, Sequences, Fx

NatVisible(x, t, mv, a, b) ==   \* a < b
  /\ mv[a] = 0 /\ mv[b] = 0
  /\ \A k \in (a + 1)..(b - 1) :
       /\ mv[k] = 0
       /\ (x[k] - x[a]) * (t[b] - t[a]) < (x[b] - x[a]) * (t[k] - t[a])

HorVisible(x, mv, a, b) ==
  /\ mv[a] = 0 /\ mv[b] = 0
  /\ \A k \in (a + 1)..(b - 1) : mv[k] = 0 /\ x[k] < Min2(x[a], x[b])

Visible(kind, x, t, mv, i, j) ==
  IF i = j THEN FALSE
  ELSE LET a == Min2(i, j)  b == Max2(i, j)
       IN IF kind = "nat" THEN NatVisible(x, t, mv, a, b) ELSE HorVisible(x, mv, a, b)

VisAdj(kind, x, t, mv) ==
  [i \in 1..Len(x) |-> [j \in 1..Len(x) |->
      IF Visible(kind, x, t, mv, i, j) THEN 1 ELSE 0]]

\* Time-directed measures on an adjacency matrix A (sequence of rows).
RetDeg(A, i) == Sum(LAMBDA j : A[i][j], 1..(i - 1))
AdvDeg(A, i) == Sum(LAMBDA j : A[i][j], (i + 1)..Len(A))
Deg(A, i)    == Sum(LAMBDA j : A[i][j], 1..Len(A))

TriAmong(A, i, D) == Card({p \in D \X D : p[1] < p[2] /\ A[i][p[1]] = 1 /\ A[i][p[2]] = 1
                                            /\ A[p[1]][p[2]] = 1})
\* clustering restricted to the past / future neighbours, scaled by S; 0 when fewer
\* than two such neighbours
DirClust(A, i, D, S) ==
  LET k == Sum(LAMBDA j : A[i][j], D)
  IN IF k < 2 THEN 0 ELSE FxDiv(TriAmong(A, i, D), Choose2(k), S)
RetClust(A, i, S) == DirClust(A, i, 1..(i - 1), S)
AdvClust(A, i, S) == DirClust(A, i, (i + 1)..Len(A), S)

\* Derivations (metamorphic actions on the abstract input)
AffineSeq(x, mul, add) == [k \in 1..Len(x) |-> mul * x[k] + add]
ReverseTimes(t) == [k \in 1..Len(t) |-> t[Len(t)] - t[Len(t) + 1 - k]]
MirrorMat(A) == [i \in 1..Len(A) |-> [j \in 1..Len(A) |-> A[Len(A) + 1 - i][Len(A) + 1 - j]]]
=============================================================================
