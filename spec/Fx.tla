------------------------------- MODULE Fx -------------------------------
(* Fixed-point helpers on TLC's 32-bit integers.  Recorded real results are *)
(* integers round(v * Scale); nan / +inf / -inf are the sentinels below.     *)
EXTENDS Integers, Sequences, FiniteSets

NAN  == 2000000001
INF  == 2000000002
NINF == -2000000002
IsNum(x) == x > -2000000000 /\ x < 2000000000

Abs(x) == IF x < 0 THEN -x ELSE x
Max2(a, b) == IF a >= b THEN a ELSE b
Min2(a, b) == IF a <= b THEN a ELSE b
Sgn(x) == IF x > 0 THEN 1 ELSE IF x < 0 THEN -1 ELSE 0

\* Close: both numbers and within tol, or the same sentinel.
Close(a, b, tol) == IF IsNum(a) /\ IsNum(b) THEN Abs(a - b) <= tol ELSE a = b

\* Rounded division p*S/q for q > 0, safe as long as |p|*S < 2^31.
RDiv(p, q) == IF p >= 0 THEN (2 * p + q) \div (2 * q) ELSE -((2 * (-p) + q) \div (2 * q))

\* p/q scaled by S = 10^k and rounded, by long division digit by digit: needs only
\* q * 10 < 2^31 and |p \div q| * S < 2^31.
RECURSIVE LongDiv(_, _, _)
LongDiv(rem, q, S) == IF S = 1 THEN 0
                      ELSE ((rem * 10) \div q) * (S \div 10) + LongDiv((rem * 10) % q, q, S \div 10)
FxDivPos(p, q, S) == (p \div q) * S + (LongDiv(p % q, q, S * 10) + 5) \div 10
FxDiv(p, q, S) == IF p >= 0 THEN FxDivPos(p, q, S) ELSE -FxDivPos(-p, q, S)

\* product of two non-negative fixed-point numbers (scale 10^6) without leaving 32 bits:
\* a = a1 10^3 + a0, b = b1 10^3 + b0  =>  a b / 10^6 = a1 b1 + (a1 b0 + a0 b1) / 10^3 + a0 b0 / 10^6
FxMul(a, b) == LET a1 == a \div 1000  a0 == a % 1000  b1 == b \div 1000  b0 == b % 1000
               IN a1 * b1 + (a1 * b0 + a0 * b1) \div 1000 + (a0 * b0) \div 1000000

RECURSIVE SumSeq(_)
SumSeq(s) == IF s = <<>> THEN 0 ELSE Head(s) + SumSeq(Tail(s))

\* Sum / max / min of Op(k) over the integer interval a..b (plain recursion, linear)
RECURSIVE SumN(_, _, _)
SumN(Op(_), a, b) == IF a > b THEN 0 ELSE Op(a) + SumN(Op, a + 1, b)
RECURSIVE MaxN(_, _, _, _)
MaxN(Op(_), a, b, acc) == IF a > b THEN acc ELSE LET v == Op(a) IN MaxN(Op, a + 1, b, IF v > acc THEN v ELSE acc)
RECURSIVE MinN(_, _, _, _)
MinN(Op(_), a, b, acc) == IF a > b THEN acc ELSE LET v == Op(a) IN MinN(Op, a + 1, b, IF v < acc THEN v ELSE acc)

\* Sum of Op(x) over a finite set D (Op may be any operator); linear for intervals
RECURSIVE SumSetRec(_, _)
SumSetRec(Op(_), D) == IF D = {} THEN 0
                       ELSE LET x == CHOOSE y \in D : TRUE IN Op(x) + SumSetRec(Op, D \ {x})
Sum(Op(_), D) == SumSetRec(Op, D)
SumF(f, D) == Sum(LAMBDA x : f[x], D)

\* max / min of Op over a finite set, each Op(x) evaluated once
RECURSIVE MaxSetRec(_, _, _)
MaxSetRec(Op(_), D, acc) == IF D = {} THEN acc
                            ELSE LET x == CHOOSE y \in D : TRUE  v == Op(x)
                                 IN MaxSetRec(Op, D \ {x}, IF v > acc THEN v ELSE acc)
MaxOf(Op(_), D, dflt) == IF D = {} THEN dflt
                         ELSE LET x == CHOOSE y \in D : TRUE IN MaxSetRec(Op, D \ {x}, Op(x))
MinOf(Op(_), D, dflt) == IF D = {} THEN dflt
                         ELSE -MaxOf(LAMBDA x : -Op(x), D, 0)

\* names of a finite set of strings joined by ";" (arbitrary but fixed order)
RECURSIVE JoinSet(_)
JoinSet(T) == IF T = {} THEN ""
              ELSE LET x == CHOOSE y \in T : TRUE
                   IN IF T \ {x} = {} THEN x ELSE x \o ";" \o JoinSet(T \ {x})
\* Strict let: evaluate x ONCE and apply F to the value.  (TLC passes operator arguments
\* and LET definitions lazily and, depending on the evaluation context, re-evaluates them
\* at every reference; a bound variable always holds a value.)
Strict(x, F(_)) == CHOOSE r \in {F(v) : v \in {x}} : TRUE
\* names of the failing entries of a sequence of checks <<name, holds>>, with a prefix
FailsOf(cs, pre) == Strict(cs, LAMBDA v : {pre \o v[k][1] : k \in {kk \in 1..Len(v) : ~v[kk][2]}})
Card(S) == Cardinality(S)
Choose2(n) == (n * (n - 1)) \div 2

\* All entries of two equally long sequences are Close.
CloseSeq(a, b, tol) == Len(a) = Len(b) /\ \A k \in 1..Len(a) : Close(a[k], b[k], tol)
CloseMat(a, b, tol) == Len(a) = Len(b) /\ \A k \in 1..Len(a) : CloseSeq(a[k], b[k], tol)

RevSeq(s) == [k \in 1..Len(s) |-> s[Len(s) + 1 - k]]

\* First failing clause of a list <<name, bool>>, "" if all hold.  Evaluated lazily:
\* clause k is only evaluated when clauses 1..k-1 hold, so later clauses may rely on
\* earlier ones (e.g. shapes).
=============================================================================
