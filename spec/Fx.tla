------------------------------- MODULE Fx -------------------------------
(* Fixed-point helpers on TLC's 32-bit integers.  Recorded real results are *)
(* integers round(v * Scale); nan / +inf / -inf are the sentinels below.     *)
EXTENDS Integers, Sequences, FiniteSets

NAN  == 2000000001
INF  == 2000000002
NINF == -2000000002
IsNum(x) == x > -2000000000 /\ x < 2000000000

Abs(x) == IF x < 0 THEN -x ELSE x
Max2(a, b) == IF a >= b THEN a ELSE b
Min2(a, b) == IF a <= b THEN a ELSE b
Sgn(x) == IF x > 0 THEN 1 ELSE IF x < 0 THEN -1 ELSE 0

\* Close: both numbers and within tol, or the same sentinel.
Close(a, b, tol) == IF IsNum(a) /\ IsNum(b) THEN Abs(a - b) <= tol ELSE a = b

\* Rounded division p*S/q for q > 0, safe as long as |p|*S < 2^31.
RDiv(p, q) == IF p >= 0 THEN (2 * p + q) \div (2 * q) ELSE -((2 * (-p) + q) \div (2 * q))

\* p/q scaled by S, computed without overflowing: (p \div q)*S + RDiv((p % q)*S, q).
\* Requires q > 0, q*S < 2^31/2 and |p \div q| * S < 2^31.
FxDiv(p, q, S) ==
  IF p >= 0 THEN (p \div q) * S + RDiv((p % q) * S, q)
  ELSE -(((-p) \div q) * S + RDiv(((-p) % q) * S, q))

RECURSIVE SumSeq(_)
SumSeq(s) == IF s = <<>> THEN 0 ELSE Head(s) + SumSeq(Tail(s))

SumF(f, D) == LET RECURSIVE go(_)
                  go(S) == IF S = {} THEN 0
                           ELSE LET x == CHOOSE y \in S : TRUE IN f[x] + go(S \ {x})
              IN go(D)

\* Sum of Op(x) over a finite set D (Op may be any operator).
Sum(Op(_), D) == LET RECURSIVE go(_)
                     go(S) == IF S = {} THEN 0
                              ELSE LET x == CHOOSE y \in S : TRUE IN Op(x) + go(S \ {x})
                 IN go(D)

MaxOf(Op(_), D, dflt) == IF D = {} THEN dflt
                         ELSE LET x == CHOOSE y \in D : \A z \in D : Op(y) >= Op(z) IN Op(x)
MinOf(Op(_), D, dflt) == IF D = {} THEN dflt
                         ELSE LET x == CHOOSE y \in D : \A z \in D : Op(y) <= Op(z) IN Op(x)

Card(S) == Cardinality(S)
Choose2(n) == (n * (n - 1)) \div 2

\* All entries of two equally long sequences are Close.
CloseSeq(a, b, tol) == Len(a) = Len(b) /\ \A k \in 1..Len(a) : Close(a[k], b[k], tol)
CloseMat(a, b, tol) == Len(a) = Len(b) /\ \A k \in 1..Len(a) : CloseSeq(a[k], b[k], tol)

RevSeq(s) == [k \in 1..Len(s) |-> s[Len(s) + 1 - k]]

\* First failing clause of a list <<name, bool>>, "" if all hold.  Evaluated lazily:
\* clause k is only evaluated when clauses 1..k-1 hold, so later clauses may rely on
\* earlier ones (e.g. shapes).
=============================================================================
