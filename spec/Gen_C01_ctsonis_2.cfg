CONSTANTS
  Family = "ctsonis"
  Depth = 2
INIT Init
NEXT Next
INVARIANT PrintHist
CHECK_DEADLOCK FALSE
