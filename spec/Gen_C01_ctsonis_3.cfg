CONSTANTS
  Family = "ctsonis"
  Depth = 3
INIT Init
NEXT Next
INVARIANT PrintHist
CHECK_DEADLOCK FALSE
