CONSTANTS
  Family = "mutualinfo"
  Depth = 2
INIT Init
NEXT Next
INVARIANT PrintHist
CHECK_DEADLOCK FALSE
