------------------------------ MODULE Gen_C02 ------------------------------
(* GEN for C02: Split behaviours.  For every undirected graph up to NU nodes    *)
(* and directed graph up to ND nodes (plus structured families), with node      *)
(* weights over {1,2,3} (times 16 so that two successive quarter/half splits     *)
(* stay integral): every node v and every proportion p in {1/4, 1/2, 3/4},        *)
(* followed by a second split (of the twin, of v, or of another node).            *)
EXTENDS GraphEnum, TLC, Json, IOUtils, SequencesExt
CONSTANTS NU, ND, AllNodes

Props == << <<1, 4>>, <<1, 2>>, <<3, 4>> >>
\* every fourth case: weights 1.1 / 1.7 / 2.5 (no closed neighbourhood sums to 2 or 4, where the measures
\* corrected for typical weight 2 are singular) and proportions 3/10, 1/2, 7/10 (not representable in binary;
\* in thousandths two successive splits stay integral)
Props10 == << <<3, 10>>, <<1, 2>>, <<7, 10>> >>
Graphs == UNION {{<<"und", A, 0>> : A \in Und(n)} : n \in 1..NU}
          \cup UNION {{<<"dir", A, 1>> : A \in Dir(n)} : n \in 2..ND}
          \cup {<<"fam", A, 0>> : A \in Fam}
Vs(A) == IF AllNodes THEN 1..Len(A) ELSE {(HashA(A) % Len(A)) + 1, ((HashA(A) \div 3) % Len(A)) + 1}
Mk(g, v, pi) ==
  LET A == g[2]  n == Len(A)  h == HashA(A) + v + pi
      v2 == IF h % 3 = 0 THEN n + 1 ELSE IF h % 3 = 1 THEN v ELSE ((h \div 3) % n) + 1
      tenths == (h \div 5) % 4 = 3
      P == IF tenths THEN Props10 ELSE Props
  IN [blk |-> g[1], n |-> n, directed |-> g[3], A |-> A,
      w |-> [k \in 1..n |-> IF tenths THEN <<1100, 1700, 2500>>[Wt(A)[k]] ELSE 16 * Wt(A)[k]],
      wden |-> IF tenths THEN 1000 ELSE 16,
      v |-> v, pn |-> P[pi][1], pd |-> P[pi][2],
      v2 |-> v2, p2n |-> P[((h \div 2) % 3) + 1][1], p2d |-> P[((h \div 2) % 3) + 1][2],
      src |-> SetToSeq(Src(n)), tgt |-> SetToSeq((1..n) \ Src(n))]
Cases == SetToSeq(UNION {{Mk(g, v, pi) : v \in Vs(g[2]), pi \in 1..3} : g \in Graphs})
Numbered == [k \in 1..Len(Cases) |-> [case |-> "n" \o ToString(k)] @@ Cases[k]]
ASSUME ndJsonSerialize(IOEnv.GEN_OUT, Numbered)
ASSUME PrintT(<<"GEN", "C02", Len(Cases)>>)
=============================================================================
