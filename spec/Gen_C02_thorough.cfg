CONSTANTS
  NU = 5
  ND = 4
  NF = 10
  AllNodes = FALSE
