------------------------------ MODULE Gen_C03 ------------------------------
(* GEN for C03 / C02 / C04 / C11: the complete small scope of simple graphs.  *)
(*  und : every labelled undirected graph on 1..NU nodes                       *)
(*  dir : every labelled directed graph on 1..ND nodes                         *)
(*  fam : structured families (paths, cycles, stars, cliques, complete         *)
(*        bipartite graphs, disjoint unions, isolated nodes) up to NF nodes     *)
(* Each graph comes with unit node weights and with one weight vector over      *)
(* {1,2,3} picked from its content, and a split of the node set into sources /  *)
(* targets (both non-empty for n >= 2).                                          *)
EXTENDS GraphEnum, TLC, Json, IOUtils, SequencesExt
CONSTANTS NU, ND

Mk(blk, A, dir, w) == [blk |-> blk, n |-> Len(A), directed |-> dir, A |-> A, w |-> w,
                       unitw |-> IF w = Ones(Len(A)) THEN 1 ELSE 0,
                       src |-> SetToSeq(Src(Len(A))), tgt |-> SetToSeq((1..Len(A)) \ Src(Len(A)))]
Graphs == UNION {{<<"und", A, 0>> : A \in Und(n)} : n \in 1..NU}
          \cup UNION {{<<"dir", A, 1>> : A \in Dir(n)} : n \in 2..ND}
          \cup {<<"fam", A, 0>> : A \in Fam}
Cases == SetToSeq(UNION {{Mk(g[1], g[2], g[3], Ones(Len(g[2]))), Mk(g[1], g[2], g[3], Wt(g[2]))} : g \in Graphs})
Numbered == [k \in 1..Len(Cases) |-> [case |-> "g" \o ToString(k)] @@ Cases[k]]
ASSUME ndJsonSerialize(IOEnv.GEN_OUT, Numbered)
ASSUME PrintT(<<"GEN", "C03", Len(Cases)>>)
=============================================================================
