CONSTANTS
  NU = 5
  ND = 3
  NF = 8
