------------------------------ MODULE Gen_C04 ------------------------------
(* GEN for C04: Permute behaviours: every undirected graph up to NU nodes and  *)
(* directed graph up to ND nodes with EVERY permutation of its nodes (n! of     *)
(* them) up to NP nodes, PerGraph content-derived permutations beyond; node     *)
(* weights over {1,2,3}; a split of the nodes into two groups.                  *)
EXTENDS GraphEnum, TLC, Json, IOUtils, SequencesExt
CONSTANTS NU, ND, NP, PerGraph

Perms(n) == {p \in [1..n -> 1..n] : \A a \in 1..n : \E b \in 1..n : p[b] = a}
\* beyond NP nodes: affine permutations i -> a*(i-1)+b mod n (a coprime to n) and a transposition
RECURSIVE Gcd(_, _)
Gcd(a, b) == IF b = 0 THEN a ELSE Gcd(b, a % b)
Units(n) == {a \in 1..(n - 1) : Gcd(a, n) = 1}
Affine(n, a, b) == [i \in 1..n |-> ((a * (i - 1) + b) % n) + 1]
Swap12(p) == [i \in 1..Len(p) |-> IF p[i] = 1 THEN 2 ELSE IF p[i] = 2 THEN 1 ELSE p[i]]
Graphs == UNION {{<<"und", A, 0>> : A \in Und(n)} : n \in 2..NU}
          \cup UNION {{<<"dir", A, 1>> : A \in Dir(n)} : n \in 2..ND}
          \cup {<<"fam", A, 0>> : A \in {F \in Fam : Len(F) <= 7}}
PermsFor(A) == LET n == Len(A) IN
  IF n <= NP THEN Perms(n)
  ELSE LET us == SetToSeq(Units(n)) IN
       {LET a == us[((HashA(A) + k) % Len(us)) + 1]  q == Affine(n, a, (HashA(A) * 3 + 5 * k) % n)
        IN IF k % 2 = 0 THEN Swap12(q) ELSE q : k \in 1..PerGraph}
Mk(g, p) == [blk |-> g[1], n |-> Len(g[2]), directed |-> g[3], A |-> g[2], w |-> Wt(g[2]), perm |-> p,
             src |-> SetToSeq(Src(Len(g[2]))), tgt |-> SetToSeq((1..Len(g[2])) \ Src(Len(g[2]))),
             \* a second, balanced split (odd / even nodes) for the list-indexed InteractingNetworks measures
             g1 |-> SetToSeq({k \in 1..Len(g[2]) : k % 2 = 1}), g2 |-> SetToSeq({k \in 1..Len(g[2]) : k % 2 = 0})]
Cases == SetToSeq(UNION {{Mk(g, p) : p \in PermsFor(g[2])} : g \in Graphs})
Numbered == [k \in 1..Len(Cases) |-> [case |-> "p" \o ToString(k)] @@ Cases[k]]
ASSUME ndJsonSerialize(IOEnv.GEN_OUT, Numbered)
ASSUME PrintT(<<"GEN", "C04", Len(Cases)>>)
=============================================================================
