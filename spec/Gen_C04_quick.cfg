CONSTANTS
  NU = 4
  ND = 3
  NP = 4
  PerGraph = 3
  NF = 7
