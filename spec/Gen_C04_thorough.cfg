CONSTANTS
  NU = 5
  ND = 4
  NP = 4
  PerGraph = 6
  NF = 7
