------------------------------ MODULE Gen_C05 ------------------------------
(* GEN for C05: every labelled undirected graph up to NU nodes (incl. the      *)
(* edgeless and single-link ones, N = 1, 2) and every directed graph up to ND   *)
(* nodes, with unit or content-derived node weights (times 4, so that quarter    *)
(* weights occur), with / without a link attribute.  One case carries the        *)
(* abstract network; the adapter realises it through EVERY constructor path of   *)
(* NetworkSM!Paths.                                                              *)
EXTENDS GraphEnum, TLC, Json, IOUtils, SequencesExt
CONSTANTS NU, ND
Graphs == UNION {{<<"und", A, 0>> : A \in Und(n)} : n \in 1..NU}
          \cup UNION {{<<"dir", A, 1>> : A \in Dir(n)} : n \in 2..ND}
W4(A, unit) == [k \in 1..Len(A) |-> IF unit THEN 4 ELSE 2 + 3 * Wt(A)[k] + (k % 2)]
\* link attribute (integer -3..3: negative and zero values occur; symmetric for undirected graphs),
\* defined on every pair
LA(A, dir) == [i \in 1..Len(A) |-> [j \in 1..Len(A) |->
                 IF dir = 1 THEN ((3 * i + 5 * j + HashA(A)) % 7) - 3
                 ELSE ((i * j + i + j + HashA(A)) % 7) - 3]]
Cases == SetToSeq({[blk |-> g[1], n |-> Len(g[2]), directed |-> g[3], A |-> g[2],
                    w4 |-> W4(g[2], u = 1), hasla |-> l, la |-> LA(g[2], g[3])]
                   : g \in Graphs, u \in {0, 1}, l \in {0, 1}})
Numbered == [k \in 1..Len(Cases) |-> [case |-> "r" \o ToString(k)] @@ Cases[k]]
ASSUME ndJsonSerialize(IOEnv.GEN_OUT, Numbered)
ASSUME PrintT(<<"GEN", "C05", Len(Cases)>>)
=============================================================================
