CONSTANTS
  NU = 4
  ND = 3
  NF = 6
