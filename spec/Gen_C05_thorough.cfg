CONSTANTS
  NU = 5
  ND = 4
  NF = 6
