------------------------------ MODULE Gen_C07 ------------------------------
(* GEN for C07: the complete small scope of recurrence-plot inputs.           *)
(*  rp : scalar series over 0..2 of length 1..LenRP x embeddings x 3 metrics   *)
(*       x every construction mode (fixed threshold, global rate, local rate,   *)
(*       adaptive neighbourhood) x missing masks of weight <= 1 (fixed thr.)    *)
(*  rp2: 2-dimensional series over {0,1}^2 of length 1..3                       *)
(*  x  : pairs of series of unequal lengths 1..LenX (cross / inter-system)      *)
(*  j  : pairs of equal length 1..LenJ with lags -2..2 (joint plots/networks)   *)
EXTENDS Integers, Sequences, FiniteSets, TLC, Json, IOUtils, SequencesExt, Fx
CONSTANTS LenRP, LenX, LenJ, JStride, XFull, XStride

Ser(n) == [1..n -> 0..2]
Metrics == <<"supremum", "manhattan", "euclidean">>
Embs(n) == {<<1, 1>>} \cup {e \in {<<2, 1>>, <<2, 2>>} : n - (e[1] - 1) * e[2] >= 1}
Thrs == {<<0, 1>>, <<1, 2>>, <<1, 1>>, <<3, 2>>, <<2, 1>>}
Modes(n) == {<<"thr", t[1], t[2]>> : t \in Thrs}
            \cup {<<"rr", 1, 8>>, <<"rr", 3, 8>>, <<"rr", 5, 8>>, <<"rr", 1, 1>>}
            \cup {<<"lrr", 1, 4>>, <<"lrr", 1, 2>>, <<"lrr", 3, 4>>}
            \cup {<<"ans", k, 1>> : k \in 1..Max2(1, Min2(2, n - 1))}
            \* threshold in units of the standard deviation of the series
            \cup {<<"tstd", 1, 2>>, <<"tstd", 1, 1>>, <<"tstd", 3, 2>>}
Masks(n, mode) == IF mode # "thr" THEN {[k \in 1..n |-> 0]}
                  ELSE {m \in [1..n -> {0, 1}] : SumSeq(m) <= 1}
HashS(s) == SumSeq([k \in 1..Len(s) |-> (k + 1) * s[k]]) + Len(s)

RP == UNION {{[kind |-> "rp", s |-> s, dim |-> e[1], tau |-> e[2], metric |-> Metrics[mi],
               mode |-> md[1], pn |-> md[2], pd |-> md[3], mv |-> m,
               mvflag |-> IF SumSeq(m) > 0 THEN 1 ELSE 0]
              : s \in Ser(n), e \in Embs(n), mi \in 1..3,
                md \in Modes(n - 0), m \in Masks(n, "none")} : n \in 1..LenRP}
\* missing values: fixed threshold only, metric picked from the content
RPM == UNION {{[kind |-> "rp", s |-> s, dim |-> e[1], tau |-> e[2],
                metric |-> Metrics[(HashS(s) % 3) + 1],
                mode |-> "thr", pn |-> t[1], pd |-> t[2], mv |-> m, mvflag |-> 1]
               : s \in Ser(n), e \in Embs(n), t \in {<<1, 2>>, <<3, 2>>},
                 m \in {mm \in [1..n -> {0, 1}] : SumSeq(mm) = 1}} : n \in 2..LenRP}

Pts == {<<a, b>> : a \in 0..1, b \in 0..1}
RP2 == UNION {{[kind |-> "rp2", pts |-> p, metric |-> Metrics[mi], mode |-> md[1],
                pn |-> md[2], pd |-> md[3]]
               : p \in [1..n -> Pts], mi \in 1..3,
                 md \in {<<"thr", 1, 2>>, <<"thr", 3, 2>>, <<"thr", 5, 4>>, <<"rr", 1, 2>>}}
              : n \in 1..3}

XModes == <<<<"thr", 1, 2>>, <<"thr", 1, 1>>, <<"thr", 3, 2>>, <<"rr", 1, 4>>, <<"rr", 1, 2>>, <<"thr", 2, 1>>>>
\* embedding of the pair: 0 none; otherwise dimension 2 with the delays (taux, tauy) given separately for the two
\* series of an inter-system network: (1,1), (2,1), (1,2) - whenever both embedded series keep at least one state.
\* The cross plot takes one delay for both series (ctau).
XTaus == <<<<1, 1>>, <<2, 1>>, <<1, 2>>>>
X == UNION {{LET x == pr[1]  y == pr[2]
                 h == HashS(x) + 5 * HashS(y)
                 want == (h \div 18) % 4
                 ok == want > 0 /\ nx - XTaus[Max2(want, 1)][1] >= 1 /\ ny - XTaus[Max2(want, 1)][2] >= 1
                 taux == IF ok THEN XTaus[want][1] ELSE 1
                 tauy == IF ok THEN XTaus[want][2] ELSE 1 IN
              [kind |-> "x", x |-> x, y |-> y, metric |-> Metrics[(h % 3) + 1],
               mode |-> XModes[((h \div 3) % 6) + 1][1], pn |-> XModes[((h \div 3) % 6) + 1][2],
               pd |-> XModes[((h \div 3) % 6) + 1][3],
               emb |-> IF ok THEN 1 ELSE 0, taux |-> taux, tauy |-> tauy,
               ctau |-> IF ny - taux >= 1 THEN taux ELSE 1]
             : pr \in {p \in Ser(nx) \X Ser(ny) : nx + ny <= XFull \/ (HashS(p[1]) + 5 * HashS(p[2])) % XStride = 0}}
            : nx \in 1..LenX, ny \in 1..LenX}

JPairs(n) == SetToSeq(Ser(n) \X Ser(n))
J == UNION {{LET pr == JPairs(n)[k]  h == HashS(pr[1]) + 7 * HashS(pr[2]) + lag IN
              [kind |-> "j", x |-> pr[1], y |-> pr[2], lag |-> lag,
               mx |-> Metrics[(h % 3) + 1], my |-> Metrics[((h \div 3) % 3) + 1],
               \* embedding dimensions of the two series (delay 1): only with two components do the metrics differ
               dx |-> IF n - Abs(lag) >= 2 /\ (h \div 27) % 2 = 1 THEN 2 ELSE 1,
               dy |-> IF n - Abs(lag) >= 2 /\ (h \div 54) % 3 >= 1 THEN 2 ELSE 1,
               \* (thresholds in units of the standard deviation of each series: every fourth of the fixed-threshold cases)
               mode |-> IF (h \div 9) % 3 = 2 THEN "rr" ELSE IF (h \div 9) % 3 = 1 /\ h % 2 = 1 THEN "tstd" ELSE "thr",
               p1n |-> IF (h \div 9) % 3 = 2 THEN 1 + (h % 3) ELSE 1 + (h % 3),
               p1d |-> IF (h \div 9) % 3 = 2 THEN 4 ELSE 2,
               p2n |-> IF (h \div 9) % 3 = 2 THEN 1 + ((h \div 2) % 3) ELSE 1 + ((h \div 2) % 3),
               p2d |-> IF (h \div 9) % 3 = 2 THEN 4 ELSE 2]
             : k \in {kk \in 1..Len(JPairs(n)) : n < LenJ \/ kk % JStride = 0},
               lag \in {l \in -2..2 : Abs(l) < n \/ l = 0}} : n \in 1..LenJ}

Cases == SetToSeq(RP) \o SetToSeq(RPM) \o SetToSeq(RP2) \o SetToSeq(X) \o SetToSeq(J)
Numbered == [k \in 1..Len(Cases) |-> [case |-> "r" \o ToString(k)] @@ Cases[k]]
ASSUME ndJsonSerialize(IOEnv.GEN_OUT, Numbered)
ASSUME PrintT(<<"GEN", "C07", Len(SetToSeq(RP)), Len(SetToSeq(RPM)), Len(SetToSeq(RP2)), Len(SetToSeq(X)), Len(SetToSeq(J))>>)
=============================================================================
