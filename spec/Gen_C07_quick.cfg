CONSTANTS
  LenRP = 4
  LenX = 4
  LenJ = 4
  JStride = 13
  XFull = 6
  XStride = 7
