CONSTANTS
  LenRP = 4
  LenX = 3
  LenJ = 4
  JStride = 13
