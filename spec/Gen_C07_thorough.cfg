CONSTANTS
  LenRP = 5
  LenX = 4
  LenJ = 4
  JStride = 2
  XFull = 8
  XStride = 1
