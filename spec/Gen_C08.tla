------------------------------ MODULE Gen_C08 ------------------------------
(* GEN for C08: every symmetric 0/1 matrix with unit diagonal of size        *)
(* 1..NMax, with every missing-state mask of weight <= MaskW (masks only for *)
(* sizes <= NMask).  CraftSeries(R) is an explicit N-dimensional series whose *)
(* supremum-metric recurrence plot at threshold 3/4 is exactly R, so every    *)
(* such matrix is reached through the public constructor, in both storage     *)
(* modes.  Points are given times 2 (integers).                               *)
EXTENDS Integers, Sequences, FiniteSets, TLC, Json, IOUtils, SequencesExt, Fx
CONSTANTS NMax, NMask, MaskW

Pairs(n) == {p \in (1..n) \X (1..n) : p[1] < p[2]}
SymMats(n) == {[i \in 1..n |-> [j \in 1..n |->
                   IF i = j THEN 1 ELSE IF i < j THEN f[<<i, j>>] ELSE f[<<j, i>>]]]
               : f \in [Pairs(n) -> {0, 1}]}
\* p_i[k] = 0 if k = i, 1 if R[i][k] = 0, 1/2 otherwise  (times 2)
CraftSeries(R) == [i \in 1..Len(R) |-> [k \in 1..Len(R) |->
                     IF k = i THEN 0 ELSE IF R[i][k] = 0 THEN 2 ELSE 1]]
Masks(n) == {m \in [1..n -> {0, 1}] : SumSeq(m) <= (IF n <= NMask THEN MaskW ELSE 0)}

Cases == SetToSeq(UNION {{[n |-> n, R |-> R, pts2 |-> CraftSeries(R), mv |-> m,
                           mvflag |-> IF SumSeq(m) > 0 THEN 1 ELSE 0, blk |-> "craft"]
                          : R \in SymMats(n), m \in Masks(n)} : n \in 1..NMax})
Numbered == [k \in 1..Len(Cases) |-> [case |-> "m" \o ToString(k)] @@ Cases[k]]
ASSUME ndJsonSerialize(IOEnv.GEN_OUT, Numbered)
ASSUME PrintT(<<"GEN", "C08", Len(Cases)>>)
=============================================================================
