CONSTANTS
  NMax = 5
  NMask = 5
  MaskW = 1
