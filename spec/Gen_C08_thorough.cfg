CONSTANTS
  NMax = 6
  NMask = 5
  MaskW = 2
