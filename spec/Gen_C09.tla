------------------------------ MODULE Gen_C09 ------------------------------
(* GEN for C09: behaviours of ClimateSM: Construct (by threshold or density)    *)
(* followed by up to HistLen setter calls, over                                  *)
(*  - all symmetric similarity matrices on 3 nodes with entries k/4, k=-4..4,     *)
(*    and unit / zero / arbitrary diagonal                                        *)
(*  - a family of 4-node matrices incl. asymmetric ones (directed networks)       *)
(* The setter sequences for one matrix are picked from its content so that the   *)
(* whole alphabet (thresholds at and between the values, densities k/12,          *)
(* non_local on/off) is covered evenly.                                           *)
EXTENDS Integers, Sequences, FiniteSets, TLC, Json, IOUtils, SequencesExt, Fx
CONSTANTS HistLen, PerMatrix, Stride4

Vals == -4..4
Sym3 == {[a \in 1..3 |-> [b \in 1..3 |->
            IF a = b THEN dg[a] ELSE IF <<a, b>> \in {<<1, 2>>, <<2, 1>>} THEN x
            ELSE IF <<a, b>> \in {<<1, 3>>, <<3, 1>>} THEN y ELSE z]]
         : x \in Vals, y \in Vals, z \in Vals, dg \in {<<4, 4, 4>>, <<0, 0, 0>>, <<1, 3, 2>>}}
\* 4 nodes: entries from a small alphabet; every Stride4-th matrix; odd ones asymmetric
V4 == <<0, 1, 2, 3, 4, -2, -4>>
M4(k) == [a \in 1..4 |-> [b \in 1..4 |->
            IF a = b THEN (IF k % 3 = 0 THEN 0 ELSE 4)
            ELSE LET lo == Min2(a, b)  hi == Max2(a, b)
                     idx == IF k % 2 = 1 /\ a > b THEN (a * 5 + b * 3 + k) ELSE (lo * 7 + hi * 3 + k \div lo)
                 IN V4[(idx % 7) + 1]]]
\* (k and k+1: an even = symmetric and an odd = asymmetric matrix per stride)
\* asymmetric 4-node matrices with (mostly) distinct entries -8..8 quarter units: few ties, so that the
\* density clause is sharp for directed networks
M4a(k) == [a \in 1..4 |-> [b \in 1..4 |-> IF a = b THEN 4 ELSE ((a * 5 + b * 3 + a * b * k + (k \div 17) * (a + 2 * b) + k * 7) % 17) - 8]]
Mats4 == {M4(k) : k \in {kk \in 1..2000 : kk % Stride4 \in {0, 1}}}
         \cup {M4a(k) : k \in {kk \in 1..2000 : kk % Stride4 = 2}}
IsSymM(S) == \A a \in 1..Len(S) : \A b \in 1..Len(S) : S[a][b] = S[b][a]

ThrA == << <<-1, 8>>, <<0, 1>>, <<1, 8>>, <<1, 4>>, <<3, 8>>, <<1, 2>>, <<5, 8>>, <<3, 4>>, <<7, 8>>, <<1, 1>> >>
RhoA == << <<0, 1>>, <<1, 6>>, <<1, 4>>, <<1, 3>>, <<1, 2>>, <<2, 3>>, <<3, 4>>, <<1, 1>>, <<5, 12>>, <<1, 12>> >>
Step(j) == IF j % 22 < 10 THEN [op |-> "set_threshold", n |-> ThrA[(j % 22) + 1][1], d |-> ThrA[(j % 22) + 1][2]]
           ELSE IF j % 22 < 20 THEN [op |-> "set_link_density", n |-> RhoA[(j % 22) - 9][1], d |-> RhoA[(j % 22) - 9][2]]
           ELSE [op |-> "set_non_local", b |-> (j % 22) - 20]
HashM(S) == Sum(LAMBDA a : Sum(LAMBDA b : (a * 3 + b) * (S[a][b] + 5), 1..Len(S)), 1..Len(S))
Hist(S, v) == LET h == HashM(S) * 7 + v * 13
              IN [k \in 1..(1 + ((h + v) % HistLen)) |-> Step(h + k * (5 + v) + (k * k))]
Ctor(S, v) == LET h == HashM(S) + 3 * v IN
              IF h % 2 = 0 THEN [by |-> "threshold", n |-> ThrA[(h % 10) + 1][1], d |-> ThrA[(h % 10) + 1][2], nl |-> (h \div 2) % 2]
              ELSE [by |-> "link_density", n |-> RhoA[(h % 10) + 1][1], d |-> RhoA[(h % 10) + 1][2], nl |-> (h \div 2) % 2]
Behaviours == {[S4 |-> S, directed |-> IF IsSymM(S) THEN (v % 2) * ((HashM(S) \div 3) % 2) ELSE 1,
                ctor |-> Ctor(S, v), steps |-> Hist(S, v)]
               : S \in Sym3 \cup Mats4, v \in 1..PerMatrix}
Cases == SetToSeq(Behaviours)
Numbered == [k \in 1..Len(Cases) |-> [case |-> "s" \o ToString(k)] @@ Cases[k]]
ASSUME ndJsonSerialize(IOEnv.GEN_OUT, Numbered)
ASSUME PrintT(<<"GEN", "C09", Len(Cases)>>)
=============================================================================
