CONSTANTS
  HistLen = 2
  PerMatrix = 3
  Stride4 = 4
