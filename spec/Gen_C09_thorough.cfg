CONSTANTS
  HistLen = 3
  PerMatrix = 12
  Stride4 = 1
