------------------------------ MODULE Gen_C10 ------------------------------
(* GEN for C10: integer data sets (T samples x 3 series): the first series runs  *)
(* over EVERY sequence over 0..2 of length T = TMin..TMax (incl. constant ones);   *)
(* the other two are derived: a delayed copy (lagged relation) and, by variant,     *)
(* an anti-correlated series, a duplicate, a constant, or a content-derived one.    *)
EXTENDS Integers, Sequences, FiniteSets, TLC, Json, IOUtils, SequencesExt
CONSTANTS TMin, TMax
Col1(T) == [1..T -> 0..2]
Shifted(x) == [t \in 1..Len(x) |-> IF t = 1 THEN x[Len(x)] ELSE x[t - 1]]
Third(x, v) == IF v = 1 THEN [t \in 1..Len(x) |-> 2 - x[t]]
               ELSE IF v = 2 THEN x
               ELSE IF v = 3 THEN [t \in 1..Len(x) |-> 1]
               ELSE [t \in 1..Len(x) |-> (x[t] * t + t) % 3]
Cases == SetToSeq(UNION {{[T |-> T, variant |-> v, taumax |-> (v + T) % 3,
                           data |-> [t \in 1..T |-> <<x[t], Shifted(x)[t], Third(x, v)[t]>>]]
                          : x \in Col1(T), v \in 1..4} : T \in TMin..TMax})
Numbered == [k \in 1..Len(Cases) |-> [case |-> "y" \o ToString(k)] @@ Cases[k]]
ASSUME ndJsonSerialize(IOEnv.GEN_OUT, Numbered)
ASSUME PrintT(<<"GEN", "C10", Len(Cases)>>)
=============================================================================
