CONSTANTS
  TMin = 4
  TMax = 5
