CONSTANTS
  TMin = 3
  TMax = 7
