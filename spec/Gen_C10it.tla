----------------------------- MODULE Gen_C10it -----------------------------
(* GEN for C10, conditional information transfer: integer data sets (T samples  *)
(* x 3 series over 0..2) with a lagged dependence (series 2 follows series 1 by   *)
(* one step, series 3 mixes both), derived from a seed; every window any          *)
(* configuration looks at is non-constant (the Gaussian estimator refuses          *)
(* constant windows).  Configurations: tau_max 1..2, condition mode ITY with       *)
(* past 1..2 and MIT with past 1 (at most two conditioning series: the reference   *)
(* statistic is evaluated through cofactors of a 3x3 / 4x4 covariance matrix).     *)
EXTENDS Integers, Sequences, FiniteSets, TLC, Json, IOUtils, SequencesExt
CONSTANTS Seeds, Ts

X(s, T) == [t \in 1..T |-> ((s * t * t + (s + 1) * t + (s \div 3)) % 7) % 3]
Y(s, T) == [t \in 1..T |-> IF t = 1 THEN s % 3 ELSE (X(s, T)[t - 1] + (((t * (s + 1)) \div 2) % 2)) % 3]
Z(s, T) == [t \in 1..T |-> IF t <= 2 THEN (s + t) % 3 ELSE (Y(s, T)[t - 2] + X(s, T)[t] + (t \div 3)) % 3]
Data(s, T) == [t \in 1..T |-> <<X(s, T)[t], Y(s, T)[t], Z(s, T)[t]>>]
\* every window of length T - 4 (the shortest any configuration uses) of every series is non-constant
Lively(d) == \A k \in 1..3 : \A a \in 1..5 :
               \E t \in a..(a + Len(d) - 5) : d[t][k] # d[a][k]
Cases == SetToSeq({[T |-> T, seed |-> s, data |-> Data(s, T)] : s \in {ss \in Seeds : \A TT \in Ts : Lively(Data(ss, TT))}, T \in Ts})
Numbered == [k \in 1..Len(Cases) |-> [case |-> "it" \o ToString(k)] @@ Cases[k]]
ASSUME ndJsonSerialize(IOEnv.GEN_OUT, Numbered)
ASSUME PrintT(<<"GEN", "C10it", Len(Cases)>>)
=============================================================================
