------------------------------ MODULE Gen_C11 ------------------------------
(* GEN for C11: graphs x ordered pairs of disjoint non-empty node lists.        *)
(* Every undirected graph up to NU nodes (directed up to ND) with EVERY ordered  *)
(* pair of disjoint non-empty subsets (G1, G2) when the graph has at most NB      *)
(* nodes, PerGraph content-derived pairs beyond; each list is presented in a      *)
(* content-derived (generally unsorted) order; weights over {1,2,3}.              *)
EXTENDS GraphEnum, TLC, Json, IOUtils, SequencesExt
CONSTANTS NU, ND, NB, PerGraph

Graphs == UNION {{<<"und", A, 0>> : A \in Und(n)} : n \in 2..NU}
          \cup UNION {{<<"dir", A, 1>> : A \in Dir(n)} : n \in 2..ND}
          \cup {<<"fam", A, 0>> : A \in {F \in Fam : Len(F) <= 8}}
Pairs(n) == {p \in (SUBSET (1..n)) \X (SUBSET (1..n)) : p[1] # {} /\ p[2] # {} /\ p[1] \cap p[2] = {}}
\* a content-derived ordering of a set: rotate the increasing order by h, optionally reversed
RECURSIVE Incr(_)
Incr(T) == IF T = {} THEN <<>> ELSE LET x == CHOOSE y \in T : \A z \in T : y <= z IN <<x>> \o Incr(T \ {x})
Order(T, h) == LET s == Incr(T)  k == Len(s)  r == h % k
               IN [i \in 1..k |-> IF (h \div k) % 2 = 0 THEN s[((i - 1 + r) % k) + 1] ELSE s[((k - i + r) % k) + 1]]
PairsFor(A) == LET n == Len(A) IN
  IF n <= NB THEN Pairs(n)
  ELSE {LET h == HashA(A) * 5 + 17 * k
            g1 == {x \in 1..n : ((x * 7 + h) % 3) = 0}  g2 == {x \in 1..n : ((x * 7 + h) % 3) = 1}
        IN <<IF g1 = {} THEN {1} ELSE g1, IF g2 \ {1} = {} THEN {n} ELSE g2 \ {1}>> : k \in 1..PerGraph}
Mk(g, p) == LET h == HashA(g[2]) + Cardinality(p[1]) * 3 + Cardinality(p[2]) IN
            [blk |-> g[1], n |-> Len(g[2]), directed |-> g[3], A |-> g[2], w |-> Wt(g[2]),
             L1 |-> Order(p[1], h), L2 |-> Order(p[2], h \div 2)]
Cases == SetToSeq(UNION {{Mk(g, p) : p \in PairsFor(g[2])} : g \in Graphs})
Numbered == [k \in 1..Len(Cases) |-> [case |-> "i" \o ToString(k)] @@ Cases[k]]
ASSUME ndJsonSerialize(IOEnv.GEN_OUT, Numbered)
ASSUME PrintT(<<"GEN", "C11", Len(Cases)>>)
=============================================================================
