CONSTANTS
  NU = 4
  ND = 3
  NB = 4
  PerGraph = 3
  NF = 8
