CONSTANTS
  NU = 5
  ND = 3
  NB = 4
  PerGraph = 10
  NF = 10
