------------------------------ MODULE Gen_C12 ------------------------------
(* GEN for C12.                                                                 *)
(*  geo  : grids of integer-degree points incl. both poles, the antimeridian      *)
(*         (-180 and 180), 0/360 longitudes, coincident and antipodal points       *)
(*  euc  : integer lattices {0..2}^d, d = 1..4, as irregular grids                  *)
(*  rect : rectangular grids from axes (Cartesian product)                          *)
(*  look : nearest-node queries at points whose distances to all nodes are exact    *)
EXTENDS Integers, Sequences, FiniteSets, TLC, Json, IOUtils, SequencesExt
CONSTANT Dense
Lats == IF Dense THEN <<-90, -60, -45, -30, 0, 30, 45, 60, 90>> ELSE <<-90, -45, 0, 30, 90>>
Lons == IF Dense THEN <<-180, -120, -90, -45, 0, 45, 90, 120, 180>> ELSE <<-180, -90, 0, 90, 180>>
Product == [k \in 1..(Len(Lats) * Len(Lons)) |-> <<Lats[((k - 1) \div Len(Lons)) + 1], Lons[((k - 1) % Len(Lons)) + 1]>>]
GeoCases == {[blk |-> "geo", lat |-> [k \in 1..Len(Product) |-> Product[k][1]],
              lon |-> [k \in 1..Len(Product) |-> Product[k][2]]]}
            \cup {[blk |-> "geo", lat |-> <<0, 0, 10, -10, 90, 37>>, lon |-> <<0, 360, 180, 0, 77, -143>>],
                  [blk |-> "geo", lat |-> <<45, -45, 45, 0>>, lon |-> <<30, -150, 30, 180>>]}
Lattice(d) == SetToSeq([1..d -> 0..2])
EucCases == {[blk |-> "euc", pts |-> Lattice(d)] : d \in 1..(IF Dense THEN 4 ELSE 3)}
RectCases == {[blk |-> "rect", axes |-> ax] : ax \in {<<<<0, 5>>, <<1, 2>>>>, <<<<-30, 0, 30>>, <<10, 20>>>>,
                                                       <<<<1, 2, 3>>, <<4, 5>>, <<6, 7>>>>, <<<<7>>, <<1, 2, 3, 4>>>>}}
\* all nodes and all query points on one great circle (the meridian circle 0/180 incl. the poles, or
\* the equator), so that every distance is a whole number of degrees
LookCases == {[blk |-> "look", lat |-> <<-90, -30, 0, 60, 90, 0, 30>>, lon |-> <<0, 0, 0, 0, 0, 180, 180>>, q |-> q]
              : q \in {<<10, 0>>, <<80, 0>>, <<-50, 0>>, <<15, 0>>, <<-60, 0>>, <<45, 180>>, <<85, 180>>, <<90, 33>>,
                        <<-15, 180>>, <<30, 0>>,
                        \* at a node whose antipode is a node too, and at the antipode of a node
                        <<30, 180>>, <<0, 180>>, <<-30, 0>>, <<-60, 180>>, <<-90, 77>>}}
             \cup {[blk |-> "look", lat |-> <<0, 0, 0, 0, 0>>, lon |-> <<-170, -90, 0, 45, 180>>, q |-> q]
                   : q \in {<<0, 170>>, <<0, -175>>, <<0, 100>>, <<0, -44>>, <<0, 22>>, <<0, 23>>, <<0, 360>>, <<0, -135>>}}
\* gen  : integer-degree points in general position (content-derived, latitudes -89..89, longitudes -180..360)
\*        plus near-polar, nearly coincident and nearly antipodal pairs: every pair is compared with the haversine
\*        closed form (Defs_Geometry)
\* glook: nearest-node queries at integer-degree points in general position
GenLat(k, j) == ((k * 37 + j * 53 + j * j * 7) % 179) - 89
GenLon(k, j) == ((k * 101 + j * 67 + j * j * 11) % 541) - 180
NGen == IF Dense THEN 40 ELSE 8
GenCases == {[blk |-> "gen", lat |-> [j \in 1..10 |-> GenLat(k, j)], lon |-> [j \in 1..10 |-> GenLon(k, j)]] : k \in 1..NGen}
            \cup {[blk |-> "gen", lat |-> <<89, 89, -89, -89, 0, 0, 1, -1, 45, -45, 44, 90>>,
                                  lon |-> <<0, 1, 180, 181, 0, 179, 180, -179, 10, -170, 10, 5>>],
                  [blk |-> "gen", lat |-> <<0, 0, 0, 60, 60, -60, 30, -30, 1, 88>>,
                                  lon |-> <<0, 1, 359, 0, 1, 180, 100, -79, 0, 200>>]}
GLookCases == {[blk |-> "glook", lat |-> [j \in 1..10 |-> GenLat(k, j)], lon |-> [j \in 1..10 |-> GenLon(k, j)],
                q |-> <<GenLat(k + 50, m), GenLon(k + 50, m)>>] : k \in 1..(IF Dense THEN 12 ELSE 4), m \in 1..4}
Cases == SetToSeq(GenCases) \o SetToSeq(GLookCases) \o SetToSeq(GeoCases) \o SetToSeq(EucCases) \o SetToSeq(RectCases) \o SetToSeq(LookCases)
Numbered == [k \in 1..Len(Cases) |-> [case |-> "q" \o ToString(k)] @@ Cases[k]]
ASSUME ndJsonSerialize(IOEnv.GEN_OUT, Numbered)
ASSUME PrintT(<<"GEN", "C12", Len(Cases)>>)
=============================================================================
