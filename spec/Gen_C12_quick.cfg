CONSTANT Dense = FALSE
