CONSTANT Dense = TRUE
