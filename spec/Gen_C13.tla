------------------------------ MODULE Gen_C13 ------------------------------
(* GEN for C13: behaviours of DataSM.  A behaviour is Construct followed by   *)
(* up to three window changes; after every step every observation is queried.  *)
(*  H1: every window of the full window alphabet, for every data set           *)
(*  H2: every ordered pair over a reduced alphabet (+ global in between)        *)
(*  H3: every ordered triple over a small alphabet                              *)
(* Data sets: T samples at even times 0,2,..., four nodes on irregular integer  *)
(* coordinates, cycle lengths 1..4 (dividing T or not), anomalies flag on/off.  *)
EXTENDS DataSM, TLC, Json, IOUtils, SequencesExt
CONSTANTS Ts, Full

Lat == <<10, -5, 10, 20>>
Lon == <<0, 15, 30, 15>>
Obs(T) == [t \in 1..T |-> [n \in 1..4 |-> ((3 * t + 5 * n + t * n) % 7) - 2]]
Data(T, c, a) == [T |-> T, obs |-> Obs(T), time |-> [t \in 1..T |-> 2 * (t - 1)], lat |-> Lat,
                  lon |-> Lon, cycle |-> c, anom |-> a]

W(a, b, c, d, e, f) == [tmin |-> a, tmax |-> b, latmin |-> c, latmax |-> d, lonmin |-> e, lonmax |-> f]
\* bounds on samples (even) and between samples (odd), before the first and after the last
TB(T) == IF Full THEN -1..(2 * T) ELSE {-1, 0, 1, 4, 5, 2 * T - 2, 2 * T - 1}
TimeB(T) == {ab \in TB(T) \X TB(T) : ab[1] <= ab[2]}
LatB == {<<-5, 10>>, <<-6, 9>>, <<10, 10>>, <<0, 20>>, <<10, 20>>, <<11, 25>>, <<-5, 20>>}
LonB == {<<0, 15>>, <<15, 15>>, <<1, 29>>, <<15, 30>>, <<0, 30>>}
\* windows that select at least one sample and one node (the rest is undefined)
AllW == [T \in Ts |-> {w \in {W(tb[1], tb[2], lb[1], lb[2], ob[1], ob[2]) : tb \in TimeB(T), lb \in LatB, ob \in LonB}
                          : NonEmpty(SetWindow(Data(T, 1, 0), <<>>, w))}]
RedW == [T \in Ts |-> {w \in AllW[T] : /\ w.tmin \in {0, 1} /\ w.tmax \in {4, 5, 2 * T - 2}
                            /\ <<w.latmin, w.latmax>> \in {<<-5, 10>>, <<10, 20>>, <<10, 10>>}
                            /\ <<w.lonmin, w.lonmax>> \in {<<0, 15>>, <<1, 29>>}}]
SmallW == [T \in Ts |-> {w \in RedW[T] : w.tmin = 1 /\ w.tmax \in {4, 5} /\ w.latmin # 10}]

G == [op |-> "set_global_window"]
\* data.set_window(data.window()); after windows whose view is a single sample / a single latitude / longitude
C == [op |-> "set_window_current"]
DegW(T) == {W(3, 5, -5, 20, 0, 30), W(-1, 2 * T - 1, 6, 12, 0, 30), W(-1, 2 * T - 1, -6, 25, 14, 16),
            W(3, 5, 6, 12, 0, 30), W(1, 5, 6, 12, 1, 30)}
SW(w) == [op |-> "set_window", w |-> w]
HC(T) == {<<C>>} \cup {<<SW(a), C>> : a \in DegW(T) \cup RedW[T]} \cup {<<SW(a), C, C>> : a \in DegW(T)}
H1(T) == {<<SW(w)>> : w \in AllW[T]} \cup {<<G>>}
H2(T) == {<<SW(a), SW(b)>> : a \in RedW[T], b \in RedW[T]}
           \cup {<<SW(a), G>> : a \in RedW[T]} \cup {<<SW(a), G, SW(a)>> : a \in SmallW[T]}
H3(T) == {<<SW(a), SW(b), SW(c)>> : a \in SmallW[T], b \in SmallW[T], c \in SmallW[T]}
\* every history is run on two data sets: (cycle, anomalies flag) picked from its content
HashW(h) == Sum(LAMBDA k : IF h[k].op = "set_window"
                             THEN h[k].w.tmin + 2 * h[k].w.tmax + h[k].w.latmax + h[k].w.lonmin + 8 ELSE 7,
                1..Len(h))
Behaviours == UNION {{[data |-> Data(T, ((HashW(h) + v) % 4) + 1, (((HashW(h) \div 4) + v) % 2)), steps |-> h]
                      : h \in H1(T) \cup H2(T) \cup H3(T) \cup HC(T), v \in {0, 1}} : T \in Ts}
Cases == SetToSeq(Behaviours)
Numbered == [k \in 1..Len(Cases) |-> [case |-> "d" \o ToString(k)] @@ Cases[k]]
ASSUME ndJsonSerialize(IOEnv.GEN_OUT, Numbered)
ASSUME PrintT(<<"GEN", "C13", Len(Cases)>>)
=============================================================================
