CONSTANTS
  Ts = {5, 6}
  Full = FALSE
