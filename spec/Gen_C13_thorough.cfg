CONSTANTS
  Ts = {5, 6, 7}
  Full = TRUE
