------------------------------ MODULE Gen_C14 ------------------------------
(* GEN for C14: the complete small scope of visibility-graph inputs.        *)
(*  A  all series over 0..ValA of length 2..LenA, unit timing, no gaps       *)
(*  B  all series over 0..ValB of length 3..LenB with every strictly         *)
(*     increasing integer timing drawn from 0..n+1                           *)
(*  C  all series over 0..ValB of length 2..LenB with every missing-value    *)
(*     mask of weight 1..MaskW                                               *)
(* each for both graph types; each case carries the parameters of one        *)
(* dyadic positive affine map of values and of times (a Derive action).     *)
EXTENDS Integers, Sequences, FiniteSets, TLC, Json, IOUtils, SequencesExt, Fx
CONSTANTS LenA, ValA, LenB, ValB, MaskW

Series(n, v) == [1..n -> 0..v]
Incr(n) == {t \in [1..n -> 0..(n + 1)] : \A k \in 1..(n - 1) : t[k] < t[k + 1]}
Unit(n) == [k \in 1..n |-> k - 1]
NoMask(n) == [k \in 1..n |-> 0]
Masks(n) == {m \in [1..n -> {0, 1}] : SumSeq(m) >= 1 /\ SumSeq(m) <= MaskW}

\* dyadic affine parameters, picked deterministically from the content of the case
Muls == << <<1, 2>>, <<2, 1>>, <<3, 4>>, <<5, 1>>, <<1, 4>>, <<3, 1>> >>
Adds == <<-3, 0, 7, 1>>
Aff(x, t) == LET h == SumSeq(x) + 3 * Len(x) + SumSeq(t)
             IN [xm |-> Muls[(h % 6) + 1], xa |-> Adds[(h % 4) + 1],
                 tm |-> Muls[((h \div 2) % 6) + 1], ta |-> Adds[((h \div 3) % 4) + 1]]

Mk(blk, kind, x, t, mv, tn) ==
  [blk |-> blk, kind |-> kind, x |-> x, t |-> t, mv |-> mv, tnone |-> tn,
   mvflag |-> IF SumSeq(mv) > 0 THEN 1 ELSE 0, aff |-> Aff(x, t)]

BlockA == UNION {{Mk("A", k, x, Unit(n), NoMask(n), 1) : x \in Series(n, ValA), k \in {"nat", "hor"}}
                 : n \in 1..LenA}
BlockB == UNION {{Mk("B", "nat", x, t, NoMask(n), 0) : x \in Series(n, ValB), t \in Incr(n)}
                 : n \in 3..LenB}
BlockC == UNION {{Mk("C", k, x, Unit(n), m, 1) : x \in Series(n, ValB), m \in Masks(n),
                                                  k \in {"nat", "hor"}}
                 : n \in 2..LenB}

Cases == SetToSeq(BlockA \cup BlockB \cup BlockC)
Numbered == [k \in 1..Len(Cases) |-> [case |-> "c" \o ToString(k)] @@ Cases[k]]

ASSUME ndJsonSerialize(IOEnv.GEN_OUT, Numbered)
ASSUME PrintT(<<"GEN", "C14", Len(Cases)>>)
=============================================================================
