CONSTANTS
  LenA = 5
  ValA = 3
  LenB = 5
  ValB = 2
  MaskW = 2
