CONSTANTS
  LenA = 6
  ValA = 3
  LenB = 6
  ValB = 2
  MaskW = 2
