------------------------------ MODULE Gen_C15 ------------------------------
(* GEN for C15.                                                                 *)
(*  spec : data sets of 2 rows of length n = 3..NMax (odd and even) with integer  *)
(*         values, for shuffle / Fourier / AAFT / refined AAFT surrogates, with a   *)
(*         number k of repeated calls on the same object and a seed                  *)
(*  twin : every pattern over {0,1,2} of length LenT, x_t = 16 p_t + t (distinct      *)
(*         integers whose states recur exactly when the patterns agree, threshold 8),  *)
(*         embedding dimension 1..2, min_dist 0..2                                     *)
EXTENDS Integers, Sequences, FiniteSets, TLC, Json, IOUtils, SequencesExt
CONSTANTS NMax, Seeds, LenT
Row(n, a, b, r) == [t \in 1..n |-> ((a * t * t + b * t + 3 * r + (t \div 3)) % 11)]
SpecCases == {[blk |-> "spec", n |-> n, data |-> <<Row(n, ab[1], ab[2], 1), Row(n, ab[2], ab[1] + 1, 2)>>,
               k |-> k, seed |-> s]
              : n \in 3..NMax, ab \in {<<1, 2>>, <<3, 1>>, <<2, 5>>}, k \in {1, 2, 3, 5}, s \in 0..(Seeds - 1)}
\* x2: a second series in the same object (the reversed pattern): every series has its OWN twins
TwinCases == {[blk |-> "twin", p |-> p, x |-> [t \in 1..LenT |-> 16 * p[t] + (t - 1)],
               x2 |-> [t \in 1..LenT |-> 16 * p[LenT + 1 - t] + (t - 1)], dim |-> d, md |-> md,
               seed |-> (p[1] + 2 * p[2] + d + md) % 5,
               \* prior = 1: the object has already produced twin surrogates for the OTHER embedding dimension
               prior |-> pr,
               \* the recurrence threshold: 8 separates the patterns with a margin; LenT - 1 is exactly the
               \* distance of the first and the last state of a constant stretch (a tie at the threshold: recurrent)
               thr |-> th]
              : p \in [1..LenT -> 0..2], d \in 1..2, md \in 0..2, pr \in 0..1, th \in {8, LenT - 1}}
Cases == SetToSeq(SpecCases) \o SetToSeq(TwinCases)
Numbered == [k \in 1..Len(Cases) |-> [case |-> "u" \o ToString(k)] @@ Cases[k]]
ASSUME ndJsonSerialize(IOEnv.GEN_OUT, Numbered)
ASSUME PrintT(<<"GEN", "C15", Len(Cases)>>)
=============================================================================
