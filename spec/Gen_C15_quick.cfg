CONSTANTS
  NMax = 12
  Seeds = 2
  LenT = 6
