CONSTANTS
  NMax = 12
  Seeds = 40
  LenT = 7
