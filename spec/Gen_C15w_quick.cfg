CONSTANTS
  LenT = 4
  Symbols = {0, 1}
  Free = 3
INIT Init
NEXT Next
INVARIANT WalkInv
INVARIANT DeterminedByDraws
INVARIANT PrintDone
CHECK_DEADLOCK FALSE
