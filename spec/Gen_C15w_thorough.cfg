CONSTANTS
  LenT = 5
  Symbols = {0, 1, 2}
  Free = 3
INIT Init
NEXT Next
INVARIANT WalkInv
INVARIANT DeterminedByDraws
INVARIANT PrintDone
CHECK_DEADLOCK FALSE
