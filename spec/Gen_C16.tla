------------------------------ MODULE Gen_C16 ------------------------------
(* GEN for C16.                                                               *)
(*  pair : every ordered pair of 0/1 sequences of length LenAll with at most   *)
(*         MaxEv events each, under EVERY configuration (timestamps unit /     *)
(*         irregular dyadic, taumax in 0,1,2,unbounded, lag 0,1); and every     *)
(*         pair of length LenOne under ONE configuration picked from the pair's *)
(*         content so that all configurations are hit evenly.                   *)
(*  mat  : event matrices with 3 series (columns) of length LenMat              *)
(*  thr  : continuous integer data to be thresholded                            *)
EXTENDS Integers, Sequences, FiniteSets, TLC, Json, IOUtils, SequencesExt, Fx
CONSTANTS LenAll, LenOne, MaxEv, LenMat, MatStride

Seqs(n) == {s \in [1..n -> {0, 1}] : SumSeq(s) <= MaxEv}
Unit(n) == [k \in 1..n |-> k - 1]
Gaps == <<1, 3, 2, 1, 4, 2, 3, 1, 2, 3>>
RECURSIVE Cum(_)
Cum(k) == IF k = 0 THEN 0 ELSE Cum(k - 1) + Gaps[k]
Irr(n) == [k \in 1..n |-> Cum(k - 1)]          \* times in half units (den = 2)

\* configuration: ts kind, taumax (in original units, -1 = unbounded), lag
Configs == {<<tk, tm, lg>> : tk \in {"unit", "irr"}, tm \in {0, 1, 2, -1}, lg \in {0, 1}}
ConfSeq == SetToSeq(Configs)
Mk(blk, x, y, cf) ==
  LET n == Len(x)  den == IF cf[1] = "unit" THEN 1 ELSE 2
  IN [blk |-> blk, x |-> x, y |-> y,
      ts |-> IF cf[1] = "unit" THEN Unit(n) ELSE Irr(n), den |-> den,
      unit |-> IF cf[1] = "unit" THEN 1 ELSE 0,
      tm |-> IF cf[2] = -1 THEN INF ELSE cf[2] * den, lag |-> cf[3] * den,
      shift |-> 5 * den, scale |-> 3]
Hash(x, y) == SumSeq([k \in 1..Len(x) |-> k * x[k] + (k + 3) * y[k]])
PairAll == {Mk("pair", x, y, cf) : x \in Seqs(LenAll), y \in Seqs(LenAll), cf \in Configs}
PairOne == {Mk("pair", x, y, ConfSeq[(Hash(x, y) % Len(ConfSeq)) + 1]) : x \in Seqs(LenOne), y \in Seqs(LenOne)}

\* matrices: 3 columns; every MatStride-th triple of sequences that all contain an event
Cols == SetToSeq({s \in [1..LenMat -> {0, 1}] : SumSeq(s) >= 1 /\ SumSeq(s) <= MaxEv})
MatIdx == {k \in 1..(Len(Cols) * Len(Cols) * Len(Cols)) : k % MatStride = 0}
MkMat(k) ==
  LET a == Cols[(k % Len(Cols)) + 1]
      b == Cols[((k \div Len(Cols)) % Len(Cols)) + 1]
      c == Cols[((k \div (Len(Cols) * Len(Cols))) % Len(Cols)) + 1]
      cf == ConfSeq[(k % Len(ConfSeq)) + 1]
      den == IF cf[1] = "unit" THEN 1 ELSE 2
  IN [blk |-> "mat", cols |-> <<a, b, c>>,
      ts |-> IF cf[1] = "unit" THEN Unit(LenMat) ELSE Irr(LenMat), den |-> den,
      unit |-> IF cf[1] = "unit" THEN 1 ELSE 0,
      tm |-> IF cf[2] = -1 THEN INF ELSE cf[2] * den, lag |-> cf[3] * den]
\* sparse triples of length 10 (events three steps apart: the dynamical coincidence interval of ES is 1.5
\* steps, so that a neighbouring event of the other series counts unless the window bound taumax forbids it;
\* ES only counts inner events, hence four events per series), under every configuration
Ev10(S) == [k \in 1..10 |-> IF k \in S THEN 1 ELSE 0]
Sparse == { << Ev10({1, 4, 7, 10}), Ev10({2, 5, 8}), Ev10({1, 5, 9}) >>,
            << Ev10({2, 5, 8}), Ev10({1, 4, 7, 10}), Ev10({3, 6, 9}) >>,
            << Ev10({1, 4, 7, 10}), Ev10({1, 5, 8, 10}), Ev10({2, 4, 7, 9}) >> }
MkMatOf(t, cf) ==
  LET den == IF cf[1] = "unit" THEN 1 ELSE 2
  IN [blk |-> "mat", cols |-> t,
      ts |-> IF cf[1] = "unit" THEN Unit(10) ELSE Irr(10), den |-> den,
      unit |-> IF cf[1] = "unit" THEN 1 ELSE 0,
      tm |-> IF cf[2] = -1 THEN INF ELSE cf[2] * den, lag |-> cf[3] * den]
Mats == {MkMat(k) : k \in MatIdx} \cup {MkMatOf(t, cf) : t \in Sparse, cf \in Configs}

\* thresholding: all integer series over 0..3 of length 5 (as one column next to a
\* fixed second column), value thresholds 0..3 and quantiles k/4, both types
ThrData == [1..5 -> 0..3]
Methods == {<<"value", 0, 1>>, <<"value", 1, 1>>, <<"value", 2, 1>>, <<"value", 3, 2>>,
            <<"quantile", 1, 4>>, <<"quantile", 1, 2>>, <<"quantile", 3, 4>>,
            <<"quantile", 0, 1>>, <<"quantile", 1, 1>>, <<"quantile", 3, 8>>}
ThrCols == {dd \in ThrData : dd[1] <= dd[2] /\ dd[2] <= dd[3]}
Thr == {[blk |-> "thr", col |-> d, method |-> m[1], qa |-> m[2], qb |-> m[3], type |-> ty, dv |-> 0, dt |-> 0]
          : d \in ThrCols, ty \in {"above", "below"}, m \in Methods}
\* documented defaults: no threshold value = the median of the variable (quantile 1/2); no type = "above" when
\* the threshold is at least the median of the variable (quantile >= 1/2), else "below".  The case carries
\* the EFFECTIVE value / type; dv / dt say which of them the call leaves out.
Median5(d) == CHOOSE v \in 0..3 : /\ Cardinality({k \in 1..5 : d[k] <= v}) >= 3
                                  /\ Cardinality({k \in 1..5 : d[k] >= v}) >= 3
DefType(d, m) == IF m[1] = "value" THEN (IF m[2] >= m[3] * Median5(d) THEN "above" ELSE "below")
                 ELSE (IF 2 * m[2] >= m[3] THEN "above" ELSE "below")
ThrDefault ==
  {[blk |-> "thr", col |-> d, method |-> mm, qa |-> IF mm = "value" THEN Median5(d) ELSE 1,
    qb |-> IF mm = "value" THEN 1 ELSE 2, type |-> ty, dv |-> 1, dt |-> 0]
     : d \in ThrCols, ty \in {"above", "below"}, mm \in {"value", "quantile"}}
  \cup {[blk |-> "thr", col |-> d, method |-> m[1], qa |-> m[2], qb |-> m[3], type |-> DefType(d, m), dv |-> 0, dt |-> 1]
     : d \in ThrCols, m \in Methods}
  \cup {[blk |-> "thr", col |-> d, method |-> mm, qa |-> IF mm = "value" THEN Median5(d) ELSE 1,
    qb |-> IF mm = "value" THEN 1 ELSE 2, type |-> "above", dv |-> 1, dt |-> 1]
     : d \in ThrCols, mm \in {"value", "quantile"}}
\* matrices with a series that has no event at all
ZeroMats == {MkMatOf(<<t[1], Ev10({}), t[3]>>, cf) : t \in Sparse, cf \in Configs}

Cases == SetToSeq(PairAll \cup PairOne) \o SetToSeq(Mats \cup ZeroMats) \o SetToSeq(Thr \cup ThrDefault)
Numbered == [k \in 1..Len(Cases) |-> [case |-> "e" \o ToString(k)] @@ Cases[k]]
ASSUME ndJsonSerialize(IOEnv.GEN_OUT, Numbered)
ASSUME PrintT(<<"GEN", "C16", Len(Cases)>>)
=============================================================================
