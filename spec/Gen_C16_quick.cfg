CONSTANTS
  LenAll = 5
  LenOne = 6
  MaxEv = 6
  LenMat = 6
  MatStride = 211
