CONSTANTS
  LenAll = 6
  LenOne = 7
  MaxEv = 7
  LenMat = 7
  MatStride = 101
