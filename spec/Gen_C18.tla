------------------------------ MODULE Gen_C18 ------------------------------
(* GEN for C18: every CONNECTED undirected graph up to NU nodes with link        *)
(* resistances from {1, 2, 4} (every assignment up to NA nodes, PerGraph          *)
(* content-derived assignments beyond), followed by an update history: a second    *)
(* assignment and the uniform rescaling by 2 (update_resistances twice).           *)
EXTENDS GraphEnum, Defs_Network, TLC, Json, IOUtils, SequencesExt
CONSTANTS NU, NA, PerGraph
IsConn(A) == Connected(DistMat(A))
Links(A) == {p \in UPairs(Len(A)) : A[p[1]][p[2]] = 1}
Res(A, f) == [i \in 1..Len(A) |-> [j \in 1..Len(A) |->
                IF A[i][j] = 0 THEN 0 ELSE IF i < j THEN f[<<i, j>>] ELSE f[<<j, i>>]]]
Vals == <<1, 2, 4>>
Derived(A, k) == Res(A, [p \in Links(A) |-> Vals[((HashA(A) + k * (p[1] + 2 * p[2]) + k) % 3) + 1]])
Assignments(A) == IF Len(A) <= NA THEN {Res(A, f) : f \in [Links(A) -> {1, 2, 4}]}
                  ELSE {Derived(A, k) : k \in 1..PerGraph}
Graphs == UNION {{A \in Und(n) : IsConn(A)} : n \in 2..NU}
Cases == SetToSeq(UNION {{[n |-> Len(A), r |-> r, r2 |-> Derived(A, 7),
                           r3 |-> [i \in 1..Len(A) |-> [j \in 1..Len(A) |-> 2 * Derived(A, 7)[i][j]]]]
                          : r \in Assignments(A)} : A \in Graphs})
Numbered == [k \in 1..Len(Cases) |-> [case |-> "z" \o ToString(k)] @@ Cases[k]]
ASSUME ndJsonSerialize(IOEnv.GEN_OUT, Numbered)
ASSUME PrintT(<<"GEN", "C18", Len(Cases)>>)
=============================================================================
