CONSTANTS
  NU = 4
  NA = 3
  PerGraph = 4
  NF = 6
