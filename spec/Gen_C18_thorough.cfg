CONSTANTS
  NU = 5
  NA = 4
  PerGraph = 3
  NF = 6
