CONSTANTS
  W = 2
  Parts1 = 2
  Parts2 = 2
  TimeEsts = {1}
  AtomicWorker = TRUE
INIT Init
NEXT Next
INVARIANT PrintDone
CHECK_DEADLOCK FALSE
