--------------------------- MODULE Gen_C19_chunks ---------------------------
(* GEN for the chunk kernels of C19: every contiguous partition of the node    *)
(* range [0, n) for n = 2..NMax, given by its set of interior cut points.       *)
EXTENDS Integers, Sequences, FiniteSets, TLC, Json, IOUtils, SequencesExt
CONSTANT NMax
RECURSIVE Incr(_)
Incr(T) == IF T = {} THEN <<>> ELSE LET x == CHOOSE y \in T : \A z \in T : y <= z IN <<x>> \o Incr(T \ {x})
Cases == SetToSeq(UNION {{[n |-> n, cuts |-> Incr(C)] : C \in SUBSET (1..(n - 1))} : n \in 2..NMax})
ASSUME ndJsonSerialize(IOEnv.GEN_OUT, Cases)
ASSUME PrintT(<<"GEN", "C19chunks", Len(Cases)>>)
=============================================================================
