CONSTANT NMax = 5
