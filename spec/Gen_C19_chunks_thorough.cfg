CONSTANT NMax = 8
