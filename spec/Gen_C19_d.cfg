CONSTANTS
  W = 3
  Parts1 = 4
  Parts2 = 0
  TimeEsts = {1}
  AtomicWorker = TRUE
INIT Init
NEXT Next
INVARIANT PrintDone
CHECK_DEADLOCK FALSE
