------------------------------ MODULE GraphEnum ------------------------------
(* Enumeration of simple graphs as adjacency matrices (sequences of rows):     *)
(* all labelled undirected / directed graphs on n nodes, structured families,   *)
(* content-derived weight vectors.  Shared by the GEN modules of C02-C05, C11.  *)
EXTENDS Integers, Sequences, FiniteSets, Fx
CONSTANT NF

UPairs(n) == {p \in (1..n) \X (1..n) : p[1] < p[2]}
DPairs(n) == {p \in (1..n) \X (1..n) : p[1] # p[2]}
Und(n) == {[i \in 1..n |-> [j \in 1..n |-> IF i = j THEN 0 ELSE IF i < j THEN f[<<i, j>>] ELSE f[<<j, i>>]]]
           : f \in [UPairs(n) -> {0, 1}]}
Dir(n) == {[i \in 1..n |-> [j \in 1..n |-> IF i = j THEN 0 ELSE f[<<i, j>>]]] : f \in [DPairs(n) -> {0, 1}]}

FromEdges(n, E) == [i \in 1..n |-> [j \in 1..n |-> IF <<i, j>> \in E \/ <<j, i>> \in E THEN 1 ELSE 0]]
Path(n)   == FromEdges(n, {<<k, k + 1>> : k \in 1..(n - 1)})
Cycle(n)  == FromEdges(n, {<<k, k + 1>> : k \in 1..(n - 1)} \cup {<<n, 1>>})
Star(n)   == FromEdges(n, {<<1, k>> : k \in 2..n})
Clique(n) == FromEdges(n, UPairs(n))
Bip(a, b) == FromEdges(a + b, {<<x, a + y>> : x \in 1..a, y \in 1..b})
Empty(n)  == FromEdges(n, {})
DisjointUnion(G, H) ==
  LET a == Len(G)  b == Len(H)
  IN [i \in 1..(a + b) |-> [j \in 1..(a + b) |->
        IF i <= a /\ j <= a THEN G[i][j] ELSE IF i > a /\ j > a THEN H[i - a][j - a] ELSE 0]]
Fam == {Path(n) : n \in 6..NF} \cup {Cycle(n) : n \in 6..NF} \cup {Star(n) : n \in 6..NF}
       \cup {Clique(n) : n \in 6..Min2(NF, 7)}
       \cup {Bip(ab[1], ab[2]) : ab \in {x \in (2..4) \X (2..5) : x[1] + x[2] <= NF /\ x[1] + x[2] >= 6}}
       \cup {DisjointUnion(Clique(4), Path(n)) : n \in 2..(NF - 4)}
       \cup {DisjointUnion(Cycle(5), Empty(n)) : n \in 1..2}
       \cup {DisjointUnion(Star(5), Clique(3)), DisjointUnion(Bip(2, 3), Cycle(4)),
             DisjointUnion(Clique(5), Clique(3)), DisjointUnion(Path(3), DisjointUnion(Path(3), Empty(1)))}

HashA(A) == Sum(LAMBDA i : Sum(LAMBDA j : (2 * i + 3 * j) * A[i][j], 1..Len(A)), 1..Len(A)) + Len(A)
Wt(A) == [k \in 1..Len(A) |-> (((HashA(A) + k * k + 2 * k) \div (1 + (k % 2))) % 3) + 1]
Ones(n) == [k \in 1..n |-> 1]
Src(n) == 1..((n + 1) \div 2)
=============================================================================
