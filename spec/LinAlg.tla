------------------------------- MODULE LinAlg -------------------------------
(* Integer linear algebra on small matrices (sequences of rows): determinant   *)
(* by cofactor expansion along the first row, minors.                          *)
EXTENDS Integers, Sequences, TLC, Fx

\* matrix M without row r and column c
Minor(M, r, c) ==
  LET n == Len(M)
      rows == [k \in 1..(n - 1) |-> IF k < r THEN k ELSE k + 1]
      cols == [k \in 1..(n - 1) |-> IF k < c THEN k ELSE k + 1]
  IN TLCEval([a \in 1..(n - 1) |-> TLCEval([b \in 1..(n - 1) |-> M[rows[a]][cols[b]]])])
RECURSIVE Det(_)
Det(M) == IF Len(M) = 0 THEN 1
          ELSE IF Len(M) = 1 THEN M[1][1]
          ELSE IF Len(M) = 2 THEN M[1][1] * M[2][2] - M[1][2] * M[2][1]
          ELSE SumN(LAMBDA c : IF M[1][c] = 0 THEN 0
                               ELSE (IF c % 2 = 1 THEN 1 ELSE -1) * M[1][c] * Det(Minor(M, 1, c)), 1, Len(M))
=============================================================================
