------------------------------ MODULE MC_Cache ------------------------------
(* Instance of CacheProtocol shaped like core.Network: components adjacency A,     *)
(* node weights W, link attributes LA; counters _mut_A (object-level state),        *)
(* _mut_nw, _mut_la (method-level attrs).  The three table sets are:                *)
(*   good        the discipline the classes follow                                  *)
(*   missingbump set_link_attribute does not bump _mut_la          (must FAIL)      *)
(*   reset       a mutator sets its counter back to 0 (the seeded C13 change)       *)
(*               (must FAIL)                                                        *)
EXTENDS Integers, Sequences, FiniteSets, TLC
CONSTANTS Variant, MaxMut, MaxLook
VARIABLES ver, cnt, cache, nmut, nlook, last

Objs == {1, 2}
Comps == {"A", "W", "LA"}
Counters == {"mA", "mNW", "mLA"}
Methods == {"degree", "nsi_degree", "path_lengths"}
Mutators == {"set_adjacency", "set_node_weights", "set_link_attribute"}
ArgPats == {"none", "key"}
KeyOf == [m \in Methods |-> IF m = "degree" THEN {"mA", "mLA"}
                            ELSE IF m = "nsi_degree" THEN {"mA", "mNW", "mLA"} ELSE {"mA", "mLA"}]
Deps == [m \in Methods |-> IF m = "degree" THEN {"A", "LA"}
                           ELSE IF m = "nsi_degree" THEN {"A", "W", "LA"} ELSE {"A", "LA"}]
Writes == [u \in Mutators |-> IF u = "set_adjacency" THEN {"A", "LA"}
                              ELSE IF u = "set_node_weights" THEN {"W"} ELSE {"LA"}]
Bumps == [u \in Mutators |-> IF u = "set_adjacency" THEN {"mA"}
                             ELSE IF u = "set_node_weights" THEN {"mNW"}
                             ELSE IF Variant = "missingbump" THEN {} ELSE {"mLA"}]
Resets == [u \in Mutators |-> IF Variant = "reset" /\ u = "set_node_weights" THEN {"mNW"} ELSE {}]
MaxSize == 2
INSTANCE CacheProtocol
ASSUME Variant = "good" => Discipline
=============================================================================
