SPECIFICATION Spec
CONSTANT Variant = "reset"
CONSTANT MaxMut = 3
CONSTANT MaxLook = 3
INVARIANT TypeOK
INVARIANT NoStaleHit
INVARIANT EntryCoherent
INVARIANT NoCrossTalk
PROPERTY Monotone
CHECK_DEADLOCK FALSE
