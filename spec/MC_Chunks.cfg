CONSTANT MaxN = 64
