------------------------------ MODULE MC_Chunks ------------------------------
(* The chunk arithmetic of the distributed betweenness loops:                   *)
(*   max_parts = max(1, ceil(min((size-1)*10, N/10)))                            *)
(*   step = ceil(N / max_parts);  parts = ceil(N / step)                         *)
(*   chunk(idx) = [idx*step, min((idx+1)*step, N))   for idx in 0..parts-1        *)
(* The chunks partition [0, N): contiguous, non-empty, disjoint, covering - for   *)
(* every N in 1..MaxN and every worker count 2..N+2 (and in fact for EVERY         *)
(* max_parts >= 1, so a floating-point rounding of N/10 cannot break it).           *)
EXTENDS Integers, Sequences, FiniteSets, TLC
CONSTANT MaxN

CeilDiv(a, b) == (a + b - 1) \div b
Min(a, b) == IF a <= b THEN a ELSE b
Max(a, b) == IF a >= b THEN a ELSE b
MaxParts(N, workers) == Max(1, Min(workers * 10, CeilDiv(N, 10)))
Step(N, mp) == CeilDiv(N, mp)
NParts(N, mp) == CeilDiv(N, Step(N, mp))
Chunk(N, mp, idx) == <<idx * Step(N, mp), Min((idx + 1) * Step(N, mp), N)>>
IsPartition(N, mp) ==
  LET p == NParts(N, mp) IN
  /\ p >= 1
  /\ Chunk(N, mp, 0)[1] = 0
  /\ Chunk(N, mp, p - 1)[2] = N
  /\ \A idx \in 0..(p - 1) : Chunk(N, mp, idx)[1] < Chunk(N, mp, idx)[2]          \* never empty
  /\ \A idx \in 0..(p - 2) : Chunk(N, mp, idx)[2] = Chunk(N, mp, idx + 1)[1]      \* contiguous
ASSUME \A N \in 1..MaxN : \A workers \in 2..(N + 2) : IsPartition(N, MaxParts(N, workers))
ASSUME \A N \in 1..MaxN : \A mp \in 1..(N + 12) : IsPartition(N, mp)
ASSUME PrintT(<<"MC_Chunks", Cardinality({nw \in (1..MaxN) \X (2..(MaxN + 2)) : nw[2] <= nw[1] + 2}),
                Cardinality({nm \in (1..MaxN) \X (1..(MaxN + 12)) : nm[2] <= nm[1] + 12})>>)
=============================================================================
