CONSTANTS
  XSetup = "d"
  Swaps = 2
  MaxDraws = 3
INIT Init
NEXT Next
INVARIANT InvCrossDegrees
INVARIANT InvLinkList
INVARIANT PrintDone
CHECK_DEADLOCK FALSE
