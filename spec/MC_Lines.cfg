CONSTANT MaxL = 7
INIT Init
NEXT Next
INVARIANT ScanIsDecl
INVARIANT Conserve
