------------------------------ MODULE MC_Lines ------------------------------
(* Design-level check: the scan formulation of line counting used on large    *)
(* matrices equals the declarative maximal-run definition on every line over  *)
(* {white, black, missing} up to length MaxL, for both colours; and the       *)
(* conservation law holds for the definition on lines without missing cells.  *)
EXTENDS Defs_Lines, TLC
CONSTANT MaxL
VARIABLE c
Init == c \in UNION {[1..n -> {0, 1, 2}] : n \in 1..MaxL}
Next == UNCHANGED c
ScanIsDecl == ScanEqDecl(c, 1) /\ ScanEqDecl(c, 0)
Conserve == (\A p \in 1..Len(c) : c[p] # 2) =>
               /\ SumSeq(RunLens(c, 1)) = Cardinality({p \in 1..Len(c) : c[p] = 1})
               /\ SumSeq(RunLens(c, 0)) = Cardinality({p \in 1..Len(c) : c[p] = 0})
=============================================================================
