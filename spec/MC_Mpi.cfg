CONSTANTS
  W = 3
  Parts1 = 4
  Parts2 = 3
  TimeEsts = {1, 2}
  AtomicWorker = FALSE
SPECIFICATION Spec
VIEW View
INVARIANT InvResultsRight
INVARIANT InvNoException
INVARIANT InvQueueConsistent
INVARIANT InvCleanRound
INVARIANT InvComplete
INVARIANT InvNoDeadlock
PROPERTY Terminates
CHECK_DEADLOCK FALSE
