CONSTANTS
  W = 2
  Parts1 = 3
  Parts2 = 2
  TimeEsts = {1, 2}
  AtomicWorker = FALSE
SPECIFICATION Spec
VIEW View
INVARIANT InvResultsRight
INVARIANT InvNoException
INVARIANT InvQueueConsistent
INVARIANT InvCleanRound
INVARIANT InvComplete
INVARIANT InvNoDeadlock
PROPERTY Terminates
CHECK_DEADLOCK FALSE
