------------------------------- MODULE MC_Nsi -------------------------------
(* Design-level check for C02: the n.s.i. DEFINITIONS of Defs_Network are        *)
(* invariant under the Split action of NetworkSM, on every undirected graph up    *)
(* to N nodes, weight vectors over a small alphabet, every node, p in 1/4,1/2,3/4. *)
(* (Evaluated at constant level; the count of evaluated splits is printed.)        *)
EXTENDS Defs_Network, NetworkSM, GraphEnum
CONSTANTS N, WVals

Tol == 40
Agree(a, v, pn, pd) ==
  LET b == Split(a, v, pn, pd)
      G == Ctx(a.A, 0, a.w)   H == Ctx(b.A, 0, b.w)
      n == Len(a.A)
      VecOK(F(_, _)) == /\ \A k \in 1..n : Close(F(H, k), F(G, k), Tol)
                        /\ Close(F(H, n + 1), F(G, v), Tol)
  IN /\ VecOK(LAMBDA X, k : S * NsiDeg(X, k))
     /\ VecOK(LAMBDA X, k : NsiAvgNbDeg(X, k))
     /\ VecOK(LAMBDA X, k : S * NsiMaxNbDeg(X, k))
     /\ VecOK(LAMBDA X, k : NsiLocalClustering(X, k))
     /\ VecOK(LAMBDA X, k : NsiSoffer(X, k))
     /\ VecOK(LAMBDA X, k : NsiCloseness(X.D, X.w, k))
     /\ VecOK(LAMBDA X, k : NsiHarmonicCloseness(X.D, X.w, k))
     /\ VecOK(LAMBDA X, k : NsiExpCloseness(X.D, X.w, k))
     /\ VecOK(LAMBDA X, k : NsiBetweenness(X, k, 1..X.n, 1..X.n))
     /\ Close(NsiGlobalClustering(H), NsiGlobalClustering(G), Tol)
     /\ Close(NsiTransitivity(H), NsiTransitivity(G), Tol)
     /\ Close(NsiAvgPathLength(H.D, H.w), NsiAvgPathLength(G.D, G.w), Tol)
     /\ Close(NsiGlobalEfficiency(H.D, H.w), NsiGlobalEfficiency(G.D, G.w), Tol)
     /\ \A p \in (1..n) \X (1..n) : Close(NsiTwinness(H, p[1], p[2]), NsiTwinness(G, p[1], p[2]), Tol)
Cases == UNION {{<<[A |-> A, dir |-> 0, w |-> [k \in 1..n |-> 4 * wv[k]]], v, p>>
                  : A \in Und(n), wv \in [1..n -> WVals], v \in 1..n, p \in {1, 2, 3}} : n \in 1..N}
ASSUME \A c \in Cases : Agree(c[1], c[2], c[3], 4)
ASSUME PrintT(<<"MC_Nsi", Cardinality(Cases)>>)
=============================================================================
