CONSTANTS
  N = 3
  WVals = {1, 2}
  NF = 6
