CONSTANTS
  N = 4
  WVals = {1, 2, 3}
  NF = 6
