CONSTANTS
  N = 4
  WVals = {1, 2}
  NF = 6
