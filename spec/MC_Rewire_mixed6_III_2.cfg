CONSTANTS
  Setup = "mixed6"
  Model = "III"
  Eps = 2
  Iter = 2
  MaxDraws = 3
INIT Init
NEXT Next
INVARIANT InvSimple
INVARIANT InvDegrees
INVARIANT InvEdgeList
INVARIANT InvLengths
INVARIANT InvDegPairs
INVARIANT PrintDone
CHECK_DEADLOCK FALSE
