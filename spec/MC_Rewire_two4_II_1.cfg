CONSTANTS
  Setup = "two4"
  Model = "II"
  Eps = 1
  Iter = 2
  MaxDraws = 3
INIT Init
NEXT Next
INVARIANT InvSimple
INVARIANT InvDegrees
INVARIANT InvEdgeList
INVARIANT InvLengths
INVARIANT InvDegPairs
INVARIANT PrintDone
CHECK_DEADLOCK FALSE
