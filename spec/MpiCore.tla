------------------------------- MODULE MpiCore -------------------------------
(* The master / worker job protocol of pyunicorn.utils.mpi as pure next-state   *)
(* functions on a state record, so that the model (MpiProtocol) and the trace    *)
(* validator (Val_C19) share one definition.                                     *)
(*                                                                               *)
(* st = [W        number of workers (ranks 1..W),                                *)
(*       parts    sequence: jobs per round (one round per network component),    *)
(*       phase    "submit" | "collect" | "done" | "exception",                   *)
(*       round, si, ci   current round, next id to submit, next id to collect,   *)
(*       est      est[s]: estimated total time of worker s,                      *)
(*       inbox, outbox   per-worker FIFO channels (sequences of jobs),           *)
(*       busy     busy[s]: the job worker s computes, or <<>>,                   *)
(*       assigned id -> worker, for submitted and not yet collected ids,         *)
(*       squeue   squeue[s]: ids assigned to s, oldest first,                    *)
(*       got      set of <<round, id, value>> collected so far]                  *)
EXTENDS Integers, Sequences, FiniteSets, TLC

Job(r, id) == <<r, id>>           \* a job is identified by its round and id; its
Value(job) == job                 \* result is a function of the job alone
NoJob == <<>>
Workers(st) == 1..st.W
\* numpy.argmin over the workers (the master's own estimate is infinite): first minimum
ArgMin(st) == CHOOSE s \in Workers(st) :
                 \A t \in Workers(st) : st.est[s] < st.est[t] \/ (st.est[s] = st.est[t] /\ s <= t)
RECURSIVE SkipEmpty(_, _)
\* first round >= r with at least one job (0 if none)
SkipEmpty(parts, r) == IF r > Len(parts) THEN 0 ELSE IF parts[r] > 0 THEN r ELSE SkipEmpty(parts, r + 1)

InitState(W, parts) ==
  LET r == SkipEmpty(parts, 1) IN
  [W |-> W, parts |-> parts, phase |-> IF r = 0 THEN "done" ELSE "submit",
   round |-> IF r = 0 THEN 1 ELSE r, si |-> 0, ci |-> 0,
   est |-> [s \in 1..W |-> 0],
   inbox |-> [s \in 1..W |-> <<>>], outbox |-> [s \in 1..W |-> <<>>],
   busy |-> [s \in 1..W |-> NoJob],
   assigned |-> <<>>, squeue |-> [s \in 1..W |-> <<>>], got |-> {}]

\* submit_call(id = si, time_est = te)
CanSubmit(st) == st.phase = "submit"
SubmitF(st, te) ==
  LET s == ArgMin(st) IN
  [st EXCEPT !.inbox[s] = Append(@, Job(st.round, st.si)),
             !.est[s] = @ + te,
             !.assigned = @ @@ (st.si :> s),
             !.squeue[s] = Append(@, st.si),
             !.si = @ + 1,
             !.phase = IF st.si + 1 = st.parts[st.round] THEN "collect" ELSE "submit"]

\* worker s: receive the next job / send the result of the job in hand
CanRecv(st, s) == st.busy[s] = NoJob /\ st.inbox[s] # <<>>
RecvF(st, s) == [st EXCEPT !.busy[s] = Head(st.inbox[s]), !.inbox[s] = Tail(@)]
CanSend(st, s) == st.busy[s] # NoJob
SendF(st, s) == [st EXCEPT !.outbox[s] = Append(@, Value(st.busy[s])), !.busy[s] = NoJob]
\* receive + compute + send in one step
CanStep(st, s) == st.busy[s] = NoJob /\ st.inbox[s] # <<>>
StepF(st, s) == SendF(RecvF(st, s), s)

\* get_result(id = ci)
Source(st) == st.assigned[st.ci]
WouldRaise(st) == Head(st.squeue[Source(st)]) # st.ci
CanGet(st) == st.phase = "collect" /\ (WouldRaise(st) \/ st.outbox[Source(st)] # <<>>)
GetF(st) ==
  LET s == Source(st) IN
  IF WouldRaise(st) THEN [st EXCEPT !.phase = "exception"]
  ELSE LET base == [st EXCEPT !.got = @ \cup {<<st.round, st.ci, Head(st.outbox[s])>>},
                              !.outbox[s] = Tail(@), !.squeue[s] = Tail(@),
                              !.assigned = [k \in DOMAIN st.assigned \ {st.ci} |-> st.assigned[k]]]
           nr == SkipEmpty(st.parts, st.round + 1)
       IN IF st.ci + 1 < st.parts[st.round] THEN [base EXCEPT !.ci = @ + 1]
          ELSE IF nr # 0 THEN [base EXCEPT !.round = nr, !.si = 0, !.ci = 0, !.phase = "submit"]
          ELSE [base EXCEPT !.phase = "done"]

\* ---- state predicates --------------------------------------------------------------
ResultsRight(st) == \A g \in st.got : g[3] = Value(Job(g[1], g[2]))
RECURSIVE Ids(_)
Ids(q) == IF q = <<>> THEN <<>> ELSE <<Head(q)[2]>> \o Ids(Tail(q))
QueueConsistent(st) == \A s \in Workers(st) :
   st.squeue[s] = Ids(st.outbox[s]) \o (IF st.busy[s] = NoJob THEN <<>> ELSE <<st.busy[s][2]>>) \o Ids(st.inbox[s])
CleanRound(st) == (st.phase = "submit" /\ st.si = 0) =>
                     (st.assigned = <<>> /\ \A s \in Workers(st) : st.squeue[s] = <<>>)
Complete(st) == st.phase = "done" =>
   st.got = UNION {{<<r, id, Value(Job(r, id))>> : id \in 0..(st.parts[r] - 1)} : r \in 1..Len(st.parts)}
=============================================================================
