----------------------------- MODULE MpiProtocol -----------------------------
(* State machine of the master / worker protocol (see MpiCore for the state and  *)
(* the next-state functions).  Master program, one round per network component:   *)
(*     for id in 0..parts-1: submit_call(id);   for id in 0..parts-1: get_result(id) *)
(* Workers serve their inbox in FIFO order.  With AtomicWorker a worker's          *)
(* receive-compute-send is one step (the grain at which the conformance harness    *)
(* can schedule the real code); otherwise the two halves interleave freely.        *)
EXTENDS MpiCore

CONSTANTS W, Parts1, Parts2, TimeEsts, AtomicWorker
\* jobs per round (one or two rounds; a cfg file cannot hold a tuple)
PartsSeq == IF Parts2 = 0 THEN <<Parts1>> ELSE <<Parts1, Parts2>>
VARIABLES st, hist      \* hist: history of actions (observation variable)
vars == <<st, hist>>

Init == st = InitState(W, PartsSeq) /\ hist = <<>>
Submit(te) == /\ CanSubmit(st)
              /\ hist' = Append(hist, <<"submit", st.si, ArgMin(st), te>>)
              /\ st' = SubmitF(st, te)
WorkerRecv(s) == ~AtomicWorker /\ CanRecv(st, s) /\ st' = RecvF(st, s) /\ hist' = Append(hist, <<"recv", s>>)
WorkerSend(s) == ~AtomicWorker /\ CanSend(st, s) /\ st' = SendF(st, s) /\ hist' = Append(hist, <<"send", s>>)
WorkerStep(s) == /\ AtomicWorker /\ CanStep(st, s)
                 /\ hist' = Append(hist, <<"step", s, Head(st.inbox[s])[2]>>)
                 /\ st' = StepF(st, s)
GetResult == /\ CanGet(st)
             /\ hist' = Append(hist, <<IF WouldRaise(st) THEN "exception" ELSE "get", st.ci, Source(st)>>)
             /\ st' = GetF(st)
Next == \/ \E te \in TimeEsts : Submit(te)
        \/ \E s \in 1..W : WorkerRecv(s) \/ WorkerSend(s) \/ WorkerStep(s)
        \/ GetResult
Fairness == /\ WF_vars(GetResult) /\ WF_vars(\E te \in TimeEsts : Submit(te))
            /\ \A s \in 1..W : WF_vars(WorkerRecv(s)) /\ WF_vars(WorkerSend(s)) /\ WF_vars(WorkerStep(s))
Spec == Init /\ [][Next]_vars /\ Fairness

\* ---- properties ---------------------------------------------------------------------
InvResultsRight == ResultsRight(st)         \* get_result(id) returns the result of job id
InvNoException == st.phase # "exception"    \* the library's order check never fires
InvQueueConsistent == QueueConsistent(st)
InvCleanRound == CleanRound(st)
InvComplete == Complete(st)
InvNoDeadlock == (st.phase # "done") => ENABLED Next
Terminates == <>(st.phase = "done")
View == st                                   \* hide the observation variable
\* GEN: print every complete behaviour (used with hist as part of the state, no VIEW)
PrintDone == st.phase = "done" => PrintT(<<"H", W, PartsSeq, hist>>)
=============================================================================
