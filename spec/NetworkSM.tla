------------------------------ MODULE NetworkSM ------------------------------
(* Abstract state of a Network and the actions that derive one network from    *)
(* another.  abs = [A |-> adjacency (sequence of rows), dir |-> 0/1,            *)
(*                  w |-> integer node weights (times a fixed denominator)]      *)
(* Derive actions: Split(v, p) - the node-splitting construction of the n.s.i.  *)
(* papers; Permute(pi) - renumbering.  The agreement predicates relate the      *)
(* observations made before and after such an action.                           *)
EXTENDS Integers, Sequences, FiniteSets, Fx

\* --- Split: node v is replaced by v and a twin n+1; the twin is linked to v (both
\* directions), has the same in- and out-neighbours, and the weight of v is divided
\* (1-p) : p  with p = pn/pd
Split(a, v, pn, pd) ==
  LET n == Len(a.A)
  IN [A |-> [i \in 1..(n + 1) |-> [j \in 1..(n + 1) |->
               IF i <= n /\ j <= n THEN a.A[i][j]
               ELSE IF i = n + 1 /\ j = n + 1 THEN 0
               ELSE IF i = n + 1 THEN (IF j = v THEN 1 ELSE a.A[v][j])
               ELSE (IF i = v THEN 1 ELSE a.A[i][v])]],
      dir |-> a.dir,
      w |-> [k \in 1..(n + 1) |-> IF k = n + 1 THEN (a.w[v] * pn) \div pd
                                   ELSE IF k = v THEN a.w[v] - (a.w[v] * pn) \div pd ELSE a.w[k]]]
SplitExact(a, v, pn, pd) == (a.w[v] * pn) % pd = 0

\* --- Permute: node i of the new network is node perm[i] of the old one
Permute(a, perm) ==
  [A |-> [i \in 1..Len(a.A) |-> [j \in 1..Len(a.A) |-> a.A[perm[i]][perm[j]]]],
   dir |-> a.dir, w |-> [k \in 1..Len(a.A) |-> a.w[perm[k]]]]

\* --- constructor paths: every one must realise the same abstract network
Paths == {"dense_list", "ndarray", "csr", "csc", "coo", "lil", "dok", "edge_list", "edge_list_n",
          "igraph", "copy", "undirected_copy", "graphml", "graphmlz", "pickle", "gml",
          \* the same constructions from edges listed in another order / with swapped endpoints, and copies
          \* of networks that did not come from an adjacency matrix
          "igraph_shuffled", "igraph_shuffled.copy", "edge_list_shuffled", "copy.copy", "graphml.copy",
          "pickle.copy", "edge_list_n.copy",
          \* sparse input with explicitly stored zero entries; a network whose copy was edited afterwards
          "csr_zeros", "csc_zeros", "coo_zeros", "copy_then_edit",
          \* a network that has answered its (link-weighted) measures, its copy and what it saves
          "used", "used.copy", "used.graphml",
          \* histories: save, change the node weights, save again, load the second file
          "resave_unit.graphml", "resave_unit.pickle", "resave_w.graphml", "resave_w.pickle",
          \* the spatial subclasses (network file + grid file)
          "geo_none.graphml", "geo_set.graphml", "geo_set.pickle", "spatial.graphml", "climate.graphml",
          "geo_surface", "geo_irrigation", "geo_switch_irrigation"}
\* paths whose final node weights are all one (whatever the weights of the case)
\* paths whose node weights are the geographic ones (cos / cos^2 of latitude: not representable exactly):
\* the weight vector itself is not compared with the case's weights, its total and mean are compared with
\* the reported vector
FreeWeightPaths == {"geo_surface", "geo_irrigation", "geo_switch_irrigation"}
UnitWeightPaths == {"resave_unit.graphml", "resave_unit.pickle", "geo_none.graphml"}
\* summary attributes as functions of the abstract network (w scaled by wden)
NLinksDir(a) == Sum(LAMBDA i : Sum(LAMBDA j : a.A[i][j], 1..Len(a.A)), 1..Len(a.A))
NLinks(a) == IF a.dir = 1 THEN NLinksDir(a) ELSE NLinksDir(a) \div 2
TotalWeight(a) == Sum(LAMBDA i : a.w[i], 1..Len(a.A))
IsSymmetric(A) == \A i \in 1..Len(A) : \A j \in 1..Len(A) : A[i][j] = A[j][i]
EmptyDiagonal(A) == \A i \in 1..Len(A) : A[i][i] = 0

\* --- agreement of observations (o = before, p = after); each observation has
\* s: scalars, v: per-node vectors, m: per-pair matrices (scaled integers)
Names(f, g) == DOMAIN f \cap DOMAIN g
\* node splitting: global values equal, per-node values equal on old nodes and the twin
\* carries v's value, pairwise values equal on old pairs
NsiAgreeS(o, p, tol) == \A nm \in Names(o.s, p.s) : Close(o.s[nm], p.s[nm], tol)
NsiAgreeV(o, p, v, tol) == \A nm \in Names(o.v, p.v) :
   LET n == Len(o.v[nm]) IN
   /\ Len(p.v[nm]) = n + 1
   /\ \A k \in 1..n : Close(p.v[nm][k], o.v[nm][k], tol)
   /\ Close(p.v[nm][n + 1], o.v[nm][v], tol)
NsiAgreeM(o, p, v, tol) == \A nm \in Names(o.m, p.m) :
   LET n == Len(o.m[nm]) IN
   /\ Len(p.m[nm]) = n + 1
   /\ \A a \in 1..n : \A b \in 1..n : Close(p.m[nm][a][b], o.m[nm][a][b], tol)
   /\ \A b \in 1..n : b # v => /\ Close(p.m[nm][n + 1][b], o.m[nm][v][b], tol)
                               /\ Close(p.m[nm][b][n + 1], o.m[nm][b][v], tol)
BadNsi(o, p, v, tol) ==   \* names of all measures that disagree, joined by ";" ("" if none)
  LET bs == {nm \in Names(o.s, p.s) : ~Close(o.s[nm], p.s[nm], tol)}
      bv == {nm \in Names(o.v, p.v) : ~NsiAgreeV([v |-> [x \in {nm} |-> o.v[nm]]], [v |-> [x \in {nm} |-> p.v[nm]]], v, tol)}
      bm == {nm \in Names(o.m, p.m) : ~NsiAgreeM([m |-> [x \in {nm} |-> o.m[nm]]], [m |-> [x \in {nm} |-> p.m[nm]]], v, tol)}
  IN JoinSet(bs \cup bv \cup bm)

\* renumbering: p observed on Permute(a, perm): p.v[nm][i] = o.v[nm][perm[i]] etc.
BadPerm(o, p, perm, tol) ==
  LET bs == {nm \in Names(o.s, p.s) : ~Close(o.s[nm], p.s[nm], tol)}
      bv == {nm \in Names(o.v, p.v) :
               ~(Len(p.v[nm]) = Len(o.v[nm]) /\ \A k \in 1..Len(perm) : Close(p.v[nm][k], o.v[nm][perm[k]], tol))}
      bm == {nm \in Names(o.m, p.m) :
               ~(Len(p.m[nm]) = Len(o.m[nm]) /\ \A a \in 1..Len(perm) : \A b \in 1..Len(perm) :
                    Close(p.m[nm][a][b], o.m[nm][perm[a]][perm[b]], tol))}
  IN JoinSet(bs \cup bv \cup bm)
\* a measure that raised on one side only
OneSided(o, p) == (DOMAIN o.x \ DOMAIN p.x) \cup (DOMAIN p.x \ DOMAIN o.x)
=============================================================================
