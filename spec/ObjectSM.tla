------------------------------- MODULE ObjectSM -------------------------------
(* Generic state machine of a memoising analysis object.                        *)
(* The abstract state is a record of PRIMARY INPUT components, each holding a    *)
(* small token (0 = absent / default, 1, 2 = two distinct concrete values the     *)
(* harness binds to real arrays).  A mutator sets components (and may clear       *)
(* others, e.g. a new adjacency matrix discards the link attributes).  Every       *)
(* observation is a function of the abstract state alone: in particular a value    *)
(* computed before a change must never be returned after it (cache coherence,      *)
(* C01), and a query never changes the abstract state (purity, C06).               *)
(*                                                                               *)
(* Family tables (hand-written from the class documentation):                     *)
(*   Init0(f)      initial abstract state                                          *)
(*   Alphabet(f)   the mutator calls <<name, value>> that are driven                *)
(*   Apply(f,a,m)  effect of mutator call m on abstract state a                     *)
EXTENDS Integers, Sequences, FiniteSets, TLC

Families == {"network", "dirnetwork", "geonetwork", "interacting", "resnetwork", "rp", "rn", "crp", "jrp",
             "jrn", "climate", "climatedata", "surrogates", "visibility", "tsonis", "hilbert", "isrn", "ccn", "escn",
             "spearman", "partialcorr", "mutualinfo", "havlin", "ctsonis"}

Init0(f) ==
  IF f \in {"network", "dirnetwork", "interacting", "visibility"} THEN [A |-> 1, W |-> 0, LA |-> 0]
  ELSE IF f = "geonetwork" THEN [A |-> 1, W |-> 0, LA |-> 0, NWT |-> 1]
  ELSE IF f = "resnetwork" THEN [R |-> 1]
  ELSE IF f \in {"rp", "rn"} THEN [MODE |-> "threshold", P |-> 1]
  ELSE IF f \in {"crp", "jrp", "jrn"} THEN [MODE |-> "threshold", P |-> 1]
  \* (a coupled climate network is also an InteractingNetworks object: it may carry a link attribute)
  ELSE IF f = "ccn" THEN [MODE |-> "threshold", P |-> 1, NL |-> 0, LA |-> 0]
  ELSE IF f \in {"climate", "escn", "ctsonis"} THEN [MODE |-> "threshold", P |-> 1, NL |-> 0]
  ELSE IF f \in {"tsonis", "spearman", "partialcorr", "mutualinfo"} THEN [MODE |-> "threshold", P |-> 1, NL |-> 0, WO |-> 0]
  ELSE IF f = "havlin" THEN [MODE |-> "threshold", P |-> 1, NL |-> 0, MD |-> 1]
  ELSE IF f = "hilbert" THEN [MODE |-> "threshold", P |-> 1, NL |-> 0, DIR |-> 1]
  ELSE IF f = "isrn" THEN [MODE |-> "threshold", P |-> 1]
  ELSE IF f = "climatedata" THEN [WIN |-> 0]
  ELSE [EMB |-> 0, NORM |-> 0]

NetMut == {<<"adjacency", 1>>, <<"adjacency", 2>>, <<"set_edge_list", 1>>, <<"set_edge_list", 2>>,
           <<"node_weights", 1>>, <<"node_weights", 2>>, <<"set_link_attribute", 1>>,
           <<"set_link_attribute", 2>>, <<"del_link_attribute", 0>>}
\* the caller edits the very array it passed last time and hands it over again
SameMut == {<<"adjacency~same", 1>>, <<"adjacency~same", 2>>, <<"node_weights~same", 1>>,
            <<"node_weights~same", 2>>, <<"set_link_attribute~same", 1>>, <<"set_link_attribute~same", 2>>,
            \* the caller takes the array the object hands out, edits it and assigns it back (w = net.node_weights; w[:] = ...)
            <<"node_weights~getset", 1>>, <<"node_weights~getset", 2>>}
RpMut == {<<"set_fixed_threshold", 1>>, <<"set_fixed_threshold", 2>>,
          <<"set_fixed_recurrence_rate", 1>>, <<"set_fixed_recurrence_rate", 2>>}
ClimMut == {<<"set_threshold", 1>>, <<"set_threshold", 2>>, <<"set_link_density", 1>>,
            <<"set_link_density", 2>>, <<"set_non_local", 0>>, <<"set_non_local", 1>>}
Alphabet(f) ==
  \* (randomly_rewire: token 3 = "the graph as rewired", whatever the random choice was)
  IF f \in {"network", "dirnetwork"} THEN NetMut \cup SameMut \cup {<<"randomly_rewire", 3>>}
  ELSE IF f = "interacting" THEN NetMut
  ELSE IF f = "visibility" THEN {m \in NetMut : m[1] \in {"node_weights", "set_link_attribute", "del_link_attribute"}}
  \* (the geographical rewirings and the distance-kernel model change the graph in place: token 3)
  ELSE IF f = "geonetwork" THEN NetMut \cup {<<"set_node_weight_type", 0>>, <<"set_node_weight_type", 1>>,
                                             <<"set_node_weight_type", 2>>, <<"randomly_rewire", 3>>,
                                             <<"randomly_rewire_geomodel_I", 3>>, <<"randomly_rewire_geomodel_II", 3>>,
                                             <<"set_random_links_by_distance", 3>>}
  \* (tokens 3 / 4: the same resistances in gigaohm - every admittance below 10^-8)
  ELSE IF f = "resnetwork" THEN {<<"update_resistances", 1>>, <<"update_resistances", 2>>,
                                 <<"update_resistances~same", 1>>, <<"update_resistances~same", 2>>,
                                 <<"update_resistances", 3>>, <<"update_resistances", 4>>}
  ELSE IF f \in {"rp", "rn"} THEN RpMut \cup {<<"set_fixed_threshold_std", 1>>, <<"set_fixed_threshold_std", 2>>,
                                              <<"set_fixed_local_recurrence_rate", 1>>,
                                              <<"set_fixed_local_recurrence_rate", 2>>,
                                              <<"set_adaptive_neighborhood_size", 1>>,
                                              <<"set_adaptive_neighborhood_size", 2>>}
  \* (token 3 of a joint plot: the setting of token 1 for x with that of token 2 for y - only one component changes)
  ELSE IF f \in {"jrp", "jrn"} THEN RpMut \cup {<<"set_fixed_threshold_std", 1>>, <<"set_fixed_threshold_std", 2>>,
                                                <<"set_fixed_threshold", 3>>, <<"set_fixed_recurrence_rate", 3>>}
  ELSE IF f = "crp" THEN RpMut
  \* (inter-system networks take a triple (x, y, cross): token 3 differs from token 1 in the y component only,
  \* token 4 in the cross component only)
  ELSE IF f = "isrn" THEN RpMut \cup {<<"set_fixed_threshold", 3>>, <<"set_fixed_threshold", 4>>,
                                      <<"set_fixed_recurrence_rate", 3>>, <<"set_fixed_recurrence_rate", 4>>}
  \* two-layer and event-based climate networks: the similarity-network mutators
  ELSE IF f = "ccn" THEN ClimMut \cup {<<"set_link_attribute", 1>>, <<"set_link_attribute", 2>>, <<"del_link_attribute", 0>>}
  ELSE IF f \in {"escn", "ctsonis"} THEN ClimMut
  \* data-driven climate networks: the similarity itself is recomputed by set_winter_only / set_directed
  ELSE IF f \in {"tsonis", "spearman", "partialcorr", "mutualinfo"}
       THEN ClimMut \cup {<<"set_winter_only", 0>>, <<"set_winter_only", 1>>}
  \* Havlin: the maximal delay of the cross-correlation functions the similarity is taken from
  ELSE IF f = "havlin" THEN ClimMut \cup {<<"set_max_delay", 1>>, <<"set_max_delay", 2>>}
  ELSE IF f = "hilbert" THEN ClimMut \cup {<<"set_directed", 0>>, <<"set_directed", 1>>}
  ELSE IF f = "climate" THEN {<<"set_threshold", 1>>, <<"set_threshold", 2>>, <<"set_link_density", 1>>,
                              <<"set_link_density", 2>>, <<"set_non_local", 0>>, <<"set_non_local", 1>>}
  ELSE IF f = "climatedata" THEN {<<"set_window", 1>>, <<"set_window", 2>>, <<"set_global_window", 0>>}
  \* surrogates: twin_surrogates re-embeds as a side effect of a QUERY, so the embedding is not part of the
  \* abstract state; the one state change is the in-place normalisation of the stored data
  \* ... and the public embedding setter (a foreign embedding: other dimension / delay), which every
  \* twin_surrogates query overwrites again
  ELSE {<<"normalize_original_data", 0>>, <<"embedding", 1>>, <<"embedding", 2>>}

NoLA(a) == IF "LA" \in DOMAIN a THEN [a EXCEPT !.LA = 0] ELSE a
Kept(mode) == IF mode = "link_density" \/ mode = "kept_threshold" THEN "kept_threshold" ELSE mode
Observable(a) == ~("MODE" \in DOMAIN a /\ a.MODE = "kept_threshold")
Apply(f, a, m) ==
  LET name == m[1]  v == m[2] IN
  IF name \in {"adjacency", "set_edge_list", "adjacency~same", "randomly_rewire", "randomly_rewire_geomodel_I",
               "randomly_rewire_geomodel_II", "randomly_rewire_geomodel_III", "set_random_links_by_distance"} THEN [a EXCEPT !.A = v, !.LA = 0]     \* a new graph has no attributes
  ELSE IF name \in {"node_weights", "node_weights~same", "node_weights~getset"} THEN [a EXCEPT !.W = v]
  ELSE IF name \in {"set_link_attribute", "set_link_attribute~same"} THEN [a EXCEPT !.LA = v]
  ELSE IF name = "del_link_attribute" THEN [a EXCEPT !.LA = 0]
  ELSE IF name = "set_node_weight_type" THEN [a EXCEPT !.NWT = v, !.W = 0]         \* weights follow the type
  ELSE IF name \in {"update_resistances", "update_resistances~same"} THEN [a EXCEPT !.R = v]
  ELSE IF name = "set_fixed_threshold" THEN [a EXCEPT !.MODE = "threshold", !.P = v]
  ELSE IF name = "set_fixed_threshold_std" THEN [a EXCEPT !.MODE = "threshold_std", !.P = v]
  ELSE IF name = "set_fixed_recurrence_rate" THEN [a EXCEPT !.MODE = "recurrence_rate", !.P = v]
  ELSE IF name = "set_fixed_local_recurrence_rate" THEN [a EXCEPT !.MODE = "local_recurrence_rate", !.P = v]
  ELSE IF name = "set_adaptive_neighborhood_size" THEN [a EXCEPT !.MODE = "adaptive_neighborhood_size", !.P = v]
  \* (the similarity-network setters rebuild the graph: link attributes do not survive)
  ELSE IF name = "set_threshold" THEN NoLA([a EXCEPT !.MODE = "threshold", !.P = v])
  ELSE IF name = "set_link_density" THEN NoLA([a EXCEPT !.MODE = "link_density", !.P = v])
  \* ("only change the network if there is a real change in non_local")
  ELSE IF name = "set_non_local" THEN (IF v = a.NL THEN a ELSE NoLA([a EXCEPT !.NL = v]))
  \* data-driven climate networks keep their THRESHOLD when the similarity is recomputed: a network whose density
  \* was prescribed goes to the mode "kept_threshold" (the threshold derived from the OLD similarity stays), in
  \* which the abstract state does not determine the network - nothing is observed there (no fresh twin exists),
  \* but the history goes on: the next set_threshold / set_link_density makes the network determined again
  ELSE IF name = "set_winter_only" THEN [a EXCEPT !.WO = v, !.MODE = Kept(a.MODE)]
  ELSE IF name = "set_directed" THEN [a EXCEPT !.DIR = v, !.MODE = Kept(a.MODE)]
  ELSE IF name = "set_max_delay" THEN [a EXCEPT !.MD = v, !.MODE = Kept(a.MODE)]
  ELSE IF name = "set_window" THEN [a EXCEPT !.WIN = v]
  ELSE IF name = "set_global_window" THEN [a EXCEPT !.WIN = 0]
  ELSE IF name = "embedding" THEN [a EXCEPT !.EMB = v]
  ELSE IF name = "normalize_original_data" THEN [a EXCEPT !.NORM = 1]
  ELSE a

\* ---- the state machine (GEN explores it with the history as part of the state) -------
CONSTANTS Family, Depth
VARIABLES abs, hist
Init == abs = Init0(Family) /\ hist = <<>>
\* the geographical rewirings loop until they have found the requested number of admissible swaps: they are
\* driven on the two fixture graphs only, where a swap exists (model III, which also needs equal degrees, is
\* left to C17)
Enabled(f, a, m) == m[1] \in {"randomly_rewire_geomodel_I", "randomly_rewire_geomodel_II"} => a.A \in {1, 2}
Mutate(m) == Len(hist) < Depth /\ Enabled(Family, abs, m) /\ abs' = Apply(Family, abs, m) /\ hist' = Append(hist, m)
Next == \E m \in Alphabet(Family) : Mutate(m)
\* every reachable history is a behaviour to be replayed (printed once per distinct history)
PrintHist == PrintT(<<"H", Family, hist>>)
=============================================================================
