------------------------------ MODULE RewireCore ------------------------------
(* Degree-preserving rewiring procedures as next-state FUNCTIONS of an explicit  *)
(* random choice (the choice replaces the RNG), shared by the model RewireSM and   *)
(* the trace validator Val_C17.                                                    *)
(*                                                                               *)
(* Geographical models I-III (SpatialNetwork.randomly_rewire_geomodel_I, _II, _III): *)
(*   g = [A |-> adjacency (sequence of rows), edges |-> sequence of <<s, t>>]      *)
(*   a draw picks two entries (s,t), (k,l) of the edge list; if the four nodes are  *)
(*   distinct, s-l and t-k are not linked, the link-length condition (C1 for model  *)
(*   I, C2 for II/III) and, for model III, deg s = deg k and deg t = deg l hold,     *)
(*   the links s-t, k-l are replaced by s-l, k-t; otherwise nothing happens.         *)
(* Cross-link rewiring (InteractingNetworks.RandomlyRewireCrossLinks):               *)
(*   c = [X |-> cross adjacency (n1 x n2), links |-> sequence of <<a, b>>]           *)
(*   a draw picks links (a,b), (c,d); if neither a-d nor c-b exists they are          *)
(*   replaced by a-d, c-b; otherwise nothing happens.                                 *)
EXTENDS Integers, Sequences, FiniteSets, TLC, Fx

\* ---- geographical models -----------------------------------------------------------
Near(x, y, eps) == Abs(x - y) < eps
C1(D, eps, s, t, k, l) == \/ Near(D[s][t], D[k][t], eps) /\ Near(D[k][l], D[s][l], eps)
                          \/ Near(D[s][t], D[s][l], eps) /\ Near(D[k][l], D[k][t], eps)
C2(D, eps, s, t, k, l) == /\ Near(D[s][t], D[s][l], eps) /\ Near(D[t][s], D[t][k], eps)
                          /\ Near(D[k][l], D[k][t], eps) /\ Near(D[l][k], D[l][s], eps)
GeoGuard(g, e1, e2, model, D, eps, deg) ==
  LET s == g.edges[e1][1]  t == g.edges[e1][2]  k == g.edges[e2][1]  l == g.edges[e2][2] IN
  /\ s # k /\ s # l /\ t # k /\ t # l
  /\ g.A[s][l] = 0 /\ g.A[t][k] = 0
  /\ (model = "III" => deg[s] = deg[k] /\ deg[t] = deg[l])
  /\ IF model = "I" THEN C1(D, eps, s, t, k, l) ELSE C2(D, eps, s, t, k, l)
SetLinks(A, off, on) ==   \* remove the links in `off`, add the links in `on` (sets of <<i, j>>)
  [i \in 1..Len(A) |-> [j \in 1..Len(A) |->
     IF <<i, j>> \in on \/ <<j, i>> \in on THEN 1
     ELSE IF <<i, j>> \in off \/ <<j, i>> \in off THEN 0 ELSE A[i][j]]]
GeoSwap(g, e1, e2) ==
  LET s == g.edges[e1][1]  t == g.edges[e1][2]  k == g.edges[e2][1]  l == g.edges[e2][2] IN
  [A |-> SetLinks(g.A, {<<s, t>>, <<k, l>>}, {<<s, l>>, <<t, k>>}),
   edges |-> [g.edges EXCEPT ![e1] = <<s, l>>, ![e2] = <<k, t>>]]
GeoDraw(g, e1, e2, model, D, eps, deg) ==
  IF GeoGuard(g, e1, e2, model, D, eps, deg) THEN GeoSwap(g, e1, e2) ELSE g

\* ---- invariants of a graph state -----------------------------------------------------
Simple(A) == \A i \in 1..Len(A) : /\ A[i][i] = 0
                                  /\ \A j \in 1..Len(A) : A[i][j] \in {0, 1} /\ A[i][j] = A[j][i]
DegreeSeq(A) == [i \in 1..Len(A) |-> SumN(LAMBDA j : A[i][j], 1, Len(A))]
\* the edge list lists every link exactly once
EdgesMatch(g) ==
  /\ \A e \in 1..Len(g.edges) : g.A[g.edges[e][1]][g.edges[e][2]] = 1
  /\ \A e \in 1..Len(g.edges) : \A f \in 1..Len(g.edges) :
        e # f => {g.edges[e][1], g.edges[e][2]} # {g.edges[f][1], g.edges[f][2]}
  /\ 2 * Len(g.edges) = SumN(LAMBDA i : DegreeSeq(g.A)[i], 1, Len(g.A))
\* multiset of link lengths as the sorted sequence
RECURSIVE InsertSorted(_, _)
InsertSorted(s, x) == IF s = <<>> THEN <<x>> ELSE IF x <= Head(s) THEN <<x>> \o s ELSE <<Head(s)>> \o InsertSorted(Tail(s), x)
RECURSIVE SortInts(_)
SortInts(s) == IF s = <<>> THEN <<>> ELSE InsertSorted(SortInts(Tail(s)), Head(s))
LinkLengths(g, D) == SortInts([e \in 1..Len(g.edges) |-> D[g.edges[e][1]][g.edges[e][2]]])
\* after m accepted swaps every link length class moved by less than m * eps
LengthsWithin(g, g0, D, eps, m) ==
  LET a == LinkLengths(g, D)  b == LinkLengths(g0, D) IN
  Len(a) = Len(b) /\ \A k \in 1..Len(a) : Abs(a[k] - b[k]) < Max2(1, m * eps) \/ (m = 0 /\ a[k] = b[k])
\* multiset of the degree pairs of the links (model III)
DegPairs(g, deg) == SortInts([e \in 1..Len(g.edges) |->
   100 * Min2(deg[g.edges[e][1]], deg[g.edges[e][2]]) + Max2(deg[g.edges[e][1]], deg[g.edges[e][2]])])

\* ---- cross links -----------------------------------------------------------------------
CrossGuard(c, e1, e2) ==
  LET a == c.links[e1][1]  b == c.links[e1][2]  cc == c.links[e2][1]  d == c.links[e2][2] IN
  c.X[a][d] = 0 /\ c.X[cc][b] = 0
CrossSwap(c, e1, e2) ==
  LET a == c.links[e1][1]  b == c.links[e1][2]  cc == c.links[e2][1]  d == c.links[e2][2] IN
  [X |-> [i \in 1..Len(c.X) |-> [j \in 1..Len(c.X[1]) |->
            IF <<i, j>> \in {<<a, d>>, <<cc, b>>} THEN 1
            ELSE IF <<i, j>> \in {<<a, b>>, <<cc, d>>} THEN 0 ELSE c.X[i][j]]],
   links |-> [c.links EXCEPT ![e1] = <<a, d>>, ![e2] = <<cc, b>>]]
CrossDraw(c, e1, e2) == IF CrossGuard(c, e1, e2) THEN CrossSwap(c, e1, e2) ELSE c
RowSums(X) == [i \in 1..Len(X) |-> SumN(LAMBDA j : X[i][j], 1, Len(X[1]))]
ColSums(X) == [j \in 1..Len(X[1]) |-> SumN(LAMBDA i : X[i][j], 1, Len(X))]
CrossLinksMatch(c) == /\ \A e \in 1..Len(c.links) : c.X[c.links[e][1]][c.links[e][2]] = 1
                      /\ Len(c.links) = SumN(LAMBDA i : RowSums(c.X)[i], 1, Len(c.X))
                      /\ \A e \in 1..Len(c.links) : \A f \in 1..Len(c.links) : e # f => c.links[e] # c.links[f]
=============================================================================
