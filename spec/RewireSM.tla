------------------------------- MODULE RewireSM -------------------------------
(* State machine of the geographical rewiring models: TLC explores EVERY         *)
(* sequence of random draws (accepted and rejected) until Iter swaps have been     *)
(* accepted or MaxDraws draws have been made, on the graph / coordinates selected   *)
(* by Setup, and checks the documented invariants in every reachable state.         *)
EXTENDS RewireCore
CONSTANTS Setup, Model, Eps, Iter, MaxDraws

\* node positions on an integer lattice; link length = Manhattan distance
Pos == << <<0, 0>>, <<1, 0>>, <<2, 0>>, <<0, 1>>, <<1, 1>>, <<2, 1>> >>
Dist(n) == [i \in 1..n |-> [j \in 1..n |-> Abs(Pos[i][1] - Pos[j][1]) + Abs(Pos[i][2] - Pos[j][2])]]
\* (in the order in which the embedded graph object lists the links: sorted, smaller end first)
EdgeLists == [ring5 |-> << <<1, 2>>, <<1, 4>>, <<2, 3>>, <<3, 5>>, <<4, 5>> >>,
              ladder6 |-> << <<1, 2>>, <<1, 4>>, <<2, 3>>, <<3, 6>>, <<4, 5>>, <<5, 6>> >>,
              mixed6 |-> << <<1, 2>>, <<1, 5>>, <<2, 4>>, <<2, 6>>, <<3, 5>> >>,
              two4 |-> << <<1, 2>>, <<3, 4>> >>]
NNodes == [ring5 |-> 5, ladder6 |-> 6, mixed6 |-> 6, two4 |-> 4]
AdjOfEdges(n, es) == [i \in 1..n |-> [j \in 1..n |->
   IF \E e \in 1..Len(es) : es[e] = <<i, j>> \/ es[e] = <<j, i>> THEN 1 ELSE 0]]
G0 == [A |-> AdjOfEdges(NNodes[Setup], EdgeLists[Setup]), edges |-> EdgeLists[Setup]]
D == Dist(NNodes[Setup])
Deg0 == DegreeSeq(G0.A)

VARIABLES g, acc, hist
Init == g = G0 /\ acc = 0 /\ hist = <<>>
Draw(e1, e2) ==
  /\ acc < Iter /\ Len(hist) < MaxDraws
  /\ g' = GeoDraw(g, e1, e2, Model, D, Eps, Deg0)
  /\ acc' = IF GeoGuard(g, e1, e2, Model, D, Eps, Deg0) THEN acc + 1 ELSE acc
  /\ hist' = Append(hist, <<e1, e2>>)
Next == \E e1 \in 1..Len(G0.edges) : \E e2 \in 1..Len(G0.edges) : Draw(e1, e2)

InvSimple == Simple(g.A)
InvDegrees == DegreeSeq(g.A) = Deg0
InvEdgeList == EdgesMatch(g)
InvLengths == LengthsWithin(g, G0, D, Eps, acc)
InvDegPairs == Model = "III" => DegPairs(g, Deg0) = DegPairs(G0, Deg0)
\* GEN: behaviours that end with an accepted draw
PrintDone == (acc = Iter) => PrintT(<<"H", Setup, Model, Eps, Iter, hist>>)
=============================================================================
