----------------------------- MODULE TwinWalkSM -----------------------------
(* The twin-surrogate walk (Thiel et al. 2006) as a state machine whose random     *)
(* draws are ACTION PARAMETERS.  A surrogate of n states starts at a uniformly      *)
(* drawn state; after emitting state k it goes to k+1 if k has no twin (no draw),    *)
(* otherwise it draws one of (number of twins + 1) options: the successor of one of  *)
(* the twins or its own successor (the LAST option); when the successor does not      *)
(* exist it draws a new state among all n.  A draw is recorded as <<m, c>>: choice c   *)
(* out of m options, i.e. the random number (c + 1/2) / m of the replay.               *)
(* GEN: every behaviour with at most Free free draws (the draws after the Free-th are  *)
(* fixed to the last option / to state 0) is a case; the pattern, the embedding          *)
(* dimension and the minimal twin distance are chosen in Init.                          *)
EXTENDS Defs_Surrogates
CONSTANTS LenT, Symbols, Free

XOf(p) == [t \in 1..Len(p) |-> 16 * p[t] + (t - 1)]
TwOf(p, dim, md, thr) == Twins(RecS(Embed(XOf(p), dim, 1), thr), md)
NOf(p, dim) == Len(p) - (dim - 1)

\* ---- the walk as a function of the draws (used by GEN and by VAL) -------------------------------------------
\* one step from state k (0-based) with the remaining draws ds: <<next state, draws left, ok>>
StepFrom(tw, n, k, ds) ==
  LET ntw == Len(tw[k + 1])
      needs == ntw > 0
      d1ok == ~needs \/ (Len(ds) >= 1 /\ ds[1][1] = ntw + 1 /\ ds[1][2] \in 0..ntw)
      k1 == IF ~needs THEN k + 1
            ELSE IF ~d1ok THEN k + 1
            ELSE IF ds[1][2] = ntw THEN k + 1 ELSE tw[k + 1][ds[1][2] + 1] + 1
      ds1 == IF needs /\ d1ok THEN Tail(ds) ELSE ds
      restart == k1 >= n
      d2ok == ~restart \/ (Len(ds1) >= 1 /\ ds1[1][1] = n /\ ds1[1][2] \in 0..(n - 1))
  IN <<IF restart /\ d2ok THEN ds1[1][2] ELSE k1, IF restart /\ d2ok THEN Tail(ds1) ELSE ds1, d1ok /\ d2ok>>
RECURSIVE WalkFrom(_, _, _, _, _)
\* the states emitted from state k on (j of n already emitted); <<walk, draws left, ok>>
WalkFrom(tw, n, k, j, ds) ==
  IF j = n THEN <<<<>>, ds, TRUE>>
  ELSE LET st == StepFrom(tw, n, k, ds)
           rest == WalkFrom(tw, n, st[1], j + 1, st[2])
       IN IF ~st[3] THEN <<<<k>>, st[2], FALSE>> ELSE <<<<k>> \o rest[1], rest[2], rest[3]>>
\* the whole surrogate: first draw = the start
WalkOf(tw, n, ds) ==
  IF Len(ds) = 0 \/ ds[1][1] # n \/ ds[1][2] \notin 0..(n - 1) THEN <<<<>>, ds, FALSE>>
  ELSE WalkFrom(tw, n, ds[1][2], 0, Tail(ds))

\* ---- the state machine -----------------------------------------------------------------------------------------
VARIABLES p, dim, md, thr, k, j, draws, free
vars == <<p, dim, md, thr, k, j, draws, free>>
Init == /\ p \in [1..LenT -> Symbols] /\ dim \in 1..2 /\ md \in 0..1 /\ thr \in {8, LenT - 1}
        /\ k = -1 /\ j = 0 /\ draws = <<>> /\ free = 0
N == NOf(p, dim)
Tw == TwOf(p, dim, md, thr)
\* a draw among m options: free while the budget lasts, then the last option (c = m - 1) ... or state 0 for a restart
Choices(m, default) == IF free < Free THEN 0..(m - 1) ELSE {default}
Start == /\ k = -1
         /\ \E c \in Choices(N, 0) :
              /\ k' = c /\ draws' = Append(draws, <<N, c>>) /\ free' = free + 1
         /\ UNCHANGED <<p, dim, md, thr, j>>
Step == /\ k >= 0 /\ j < N
        /\ LET ntw == Len(Tw[k + 1]) IN
           \E c \in (IF ntw = 0 THEN {0} ELSE Choices(ntw + 1, ntw)) :
             LET k1 == IF ntw = 0 \/ c = ntw THEN k + 1 ELSE Tw[k + 1][c + 1] + 1
                 d1 == IF ntw = 0 THEN draws ELSE Append(draws, <<ntw + 1, c>>)
                 f1 == IF ntw = 0 THEN free ELSE free + 1
             IN IF k1 < N
                THEN k' = k1 /\ draws' = d1 /\ free' = f1
                ELSE \E r \in (IF f1 < Free THEN 0..(N - 1) ELSE {0}) :
                       k' = r /\ draws' = Append(d1, <<N, r>>) /\ free' = f1 + 1
        /\ j' = j + 1
        /\ UNCHANGED <<p, dim, md, thr>>
Next == Start \/ Step
\* design level: the walk emits n states, each of them an original state, and the draws determine it
WalkInv == (k >= 0 => k \in 0..(N - 1)) /\ j \in 0..N
DeterminedByDraws == (k >= 0 /\ j = N) => LET w == WalkOf(Tw, N, draws) IN w[3] /\ Len(w[1]) = N
PrintDone == (k >= 0 /\ j = N) => PrintT(<<"H", p, dim, md, thr, draws>>)
=============================================================================
