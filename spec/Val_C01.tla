------------------------------ MODULE Val_C01 ------------------------------
(* VAL for C01 (and the Functional clause of C05/C06): a recorded history of an *)
(* analysis object is replayed through ObjectSM.  The spec maintains the        *)
(* abstract state from the logged mutator calls only; every "observe" event     *)
(* carries the observations on the object and on a fresh twin together with the  *)
(* abstract state the twin was built from:                                       *)
(*   TwinBinding : the twin was built from exactly the spec's abstract state     *)
(*   Functional  : every observation on the object equals the twin's             *)
(*                 (a stale memoised value is a value of an EARLIER abstract      *)
(*                 state and differs)                                             *)
(*   NoStaleHit  : every cache HIT reported by the guarded lookup hook during the  *)
(*                 observation returned what the undecorated method computes on   *)
(*                 the current state (shadow re-evaluation; ev.stale lists the     *)
(*                 lookups, nested ones included, where it did not)               *)
EXTENDS Integers, Sequences, FiniteSets, TLC, Fx, Json, IOUtils

\* ObjectSM's tables are used through an instance (Family/Depth are not needed here)
O == INSTANCE ObjectSM WITH Family <- "network", Depth <- 0, abs <- <<>>, hist <- <<>>

Trace == ndJsonDeserialize(IOEnv.TRACE_FILE)
VARIABLES i, l, st
Tol == 60
CloseRel(a, b) == Close(a, b, Max2(Tol, Abs(b) \div 20000))
SameSeq(a, b) == Len(a) = Len(b) /\ \A k \in 1..Len(a) : CloseRel(a[k], b[k])

Rec == Trace[i]
\* names of the observations that differ between object and twin
BadNames(ev) ==
  {nm \in DOMAIN ev.obs \cap DOMAIN ev.twin : ~SameSeq(ev.obs[nm], ev.twin[nm])}
  \cup ((DOMAIN ev.obs \ DOMAIN ev.twin) \cup (DOMAIN ev.twin \ DOMAIN ev.obs))
  \cup {nm \in DOMAIN ev.x \cup DOMAIN ev.tx : ~(nm \in DOMAIN ev.x /\ nm \in DOMAIN ev.tx /\ ev.x[nm] = ev.tx[nm])}
LastMut(r, k) == IF k <= 2 THEN "construct" ELSE r.events[k - 1].m
Tags(r, k) == r.family \o ",after:" \o LastMut(r, k)
Init == i = 1 /\ l = 1 /\ st = <<>>
NextCase == i' = i + 1 /\ l' = 1 /\ st' = <<>>
Reject(c, s, k) == PrintT(<<"V", Rec.case, "REJECT", c, s, Tags(Rec, k)>>) /\ NextCase
Adv(s) == st' = s /\ l' = l + 1 /\ i' = i
Next ==
  /\ i <= Len(Trace)
  /\ IF l > Len(Rec.events)
     THEN PrintT(<<"V", Rec.case, "ACCEPT", "", "", Rec.family>>) /\ NextCase
     ELSE LET ev == Rec.events[l] IN
          IF ev.op = "construct"
          THEN IF ev.abs = O!Init0(Rec.family) THEN Adv(ev.abs) ELSE Reject("TwinBinding", "construct", l)
          ELSE IF ev.op = "mutate"
          THEN IF <<ev.m, ev.v>> \notin O!Alphabet(Rec.family) \/ ~O!Enabled(Rec.family, st, <<ev.m, ev.v>>)
               THEN Reject("Alphabet", ev.m, l)
               ELSE IF ev.exc # "" THEN Reject("Applicable", ev.m \o ":" \o ev.exc, l + 1)
               ELSE Adv(O!Apply(Rec.family, st, <<ev.m, ev.v>>))
          ELSE IF ev.abs # st THEN Reject("TwinBinding", "observe", l)
               \* (a state that does not determine the network has no twin: nothing may have been compared)
               ELSE IF ~O!Observable(st) THEN (IF DOMAIN ev.obs = {} /\ DOMAIN ev.twin = {} THEN Adv(st)
                                               ELSE Reject("TwinBinding", "observation in an undetermined state", l))
               ELSE IF ev.stale # <<>> THEN Reject("NoStaleHit", JoinSet({ev.stale[k] : k \in 1..Len(ev.stale)}), l)
               ELSE LET bad == BadNames(ev) IN
                    IF bad # {} THEN Reject("Functional", JoinSet(bad), l) ELSE Adv(st)
=============================================================================
