------------------------------ MODULE Val_C02 ------------------------------
(* VAL for C02: a recorded Split behaviour (network, split, split again) is     *)
(* replayed through NetworkSM: splitted_copy must produce exactly Split(abs),    *)
(* and the observations before / after each Split must satisfy NsiAgree.         *)
EXTENDS NetworkSM, Defs_Network, Json, IOUtils

Trace == ndJsonDeserialize(IOEnv.TRACE_FILE)
VARIABLE i
Tol == 60

Abs0(e) == [A |-> e.A, dir |-> e.directed, w |-> e.w]
Undir(A) == [a \in 1..Len(A) |-> [b \in 1..Len(A) |-> IF A[a][b] = 1 \/ A[b][a] = 1 THEN 1 ELSE 0]]
IsConnected(A) == Connected(DistMat(Undir(A)))
Isolated(A, v) == \A j \in 1..Len(A) : A[v][j] = 0 /\ A[j][v] = 0
\* measures that are not defined on the instance are withdrawn from the comparison:
\* the eigenvector centrality needs a unique Perron vector (undirected, connected, >= 3 nodes
\* for the sparse solver); n.s.i. shortest-path betweenness is implemented for undirected
\* networks only
Undefined(e) ==
  (IF e.directed = 1 \/ ~IsConnected(e.A) \/ e.n < 3 THEN {"nsi_eigenvector_centrality"} ELSE {})
  \cup (IF e.directed = 1 THEN {"nsi_betweenness", "nsi_betweenness(sources,targets)",
                                 "nsi_interregional_betweenness",
                                 \* random-walk betweenness (Newman, Arenas) is defined on undirected graphs
                                 "nsi_newman_betweenness", "nsi_newman_betweenness(add_local_ends)",
                                 "nsi_arenas_betweenness", "nsi_arenas_betweenness(exclude_neighbors=False)",
                                 "nsi_arenas_betweenness(stopping_mode=twinness)"} ELSE {})
Drop(o, U) == [s |-> [nm \in DOMAIN o.s \ U |-> o.s[nm]], v |-> [nm \in DOMAIN o.v \ U |-> o.v[nm]],
               m |-> [nm \in DOMAIN o.m \ U |-> o.m[nm]], x |-> [nm \in DOMAIN o.x \ U |-> o.x[nm]]]
Tags(e) == e.blk \o (IF e.directed = 1 THEN ",directed" ELSE "")
           \o (IF ~IsConnected(e.A) THEN ",disconnected" ELSE "")
           \o (IF Isolated(e.A, e.v) \/ Isolated(Split(Abs0(e), e.v, e.pn, e.pd).A, e.v2)
               THEN ",split_isolated_node" ELSE "")
\* group-indexed n.s.i. measures of InteractingNetworks (o before, p after splitting a node whose position
\* in the lists S / T was pos[1] / pos[2]; its twin was appended to the same list): old entries unchanged,
\* the twin's entry equals the split node's
BadGroup(o, p, pos) ==
  {nm \in DOMAIN o.g \cap DOMAIN p.g :
     LET k == IF o.gl[nm] = "S" THEN pos[1] ELSE pos[2]  a == o.g[nm]  b == p.g[nm] IN
     ~(IF k = 0 THEN CloseSeq(b, a, Tol)
       ELSE /\ Len(b) = Len(a) + 1
            /\ \A j \in 1..Len(a) : Close(b[j], a[j], Tol)
            /\ Close(b[Len(a) + 1], a[k], Tol))}
Verdict(e) ==
  LET a0 == Abs0(e)
      a1 == Split(a0, e.v, e.pn, e.pd)
      a2 == Split(a1, e.v2, e.p2n, e.p2d)
      R(c, s) == <<"REJECT", c, s, Tags(e)>>
      o0 == Drop(e.obs0, Undefined(e))  o1 == Drop(e.obs1, Undefined(e))  o2 == Drop(e.obs2, Undefined(e))
  IN IF ~(SplitExact(a0, e.v, e.pn, e.pd) /\ SplitExact(a1, e.v2, e.p2n, e.p2d)) THEN R("GenExact", "weights")
     ELSE IF e.split1.A # a1.A \/ e.split1.w # a1.w THEN R("SplitDef", "splitted_copy")
     ELSE IF e.split2.A # a2.A \/ e.split2.w # a2.w THEN R("SplitDef", "splitted_copy(second)")
     \* the twins' weights add up to v's weight: to double precision (10^-6 relative to the weight scale / 10^3)
     ELSE IF e.split1.werr > 1000 \/ e.split2.werr > 1000 THEN R("SplitDef", "splitted_copy(weight precision)")
     ELSE IF OneSided(o0, o1) # {} THEN R("OneSidedException", JoinSet(OneSided(o0, o1)))
     ELSE IF OneSided(o1, o2) # {} THEN R("OneSidedException", JoinSet(OneSided(o1, o2)))
     \* every failing site is named: the group-indexed measures (defined for undirected networks) AND the
     \* single-network measures - a listed finding at one site must not hide a failure at another
     ELSE LET bg == IF e.directed = 0 THEN BadGroup(e.obs0, e.obs1, e.pos1) \cup BadGroup(e.obs1, e.obs2, e.pos2) ELSE {}
              b1 == BadNsi(o0, o1, e.v, Tol)  b2 == BadNsi(o1, o2, e.v2, Tol)
              all == JoinSet(bg) \o (IF bg # {} /\ b1 # "" THEN ";" ELSE "") \o b1
                     \o (IF (bg # {} \/ b1 # "") /\ b2 # "" THEN ";" ELSE "") \o b2
          IN IF all # "" THEN R("NsiAgree", all)
             ELSE <<"ACCEPT", "", "", Tags(e)>>

Verdicts == TLCEval([k \in 1..Len(Trace) |-> Verdict(Trace[k])])
Init == i = 1
Next == /\ i <= Len(Trace)
        /\ LET v == Verdicts[i]
           IN PrintT(<<"V", Trace[i].case, v[1], v[2], v[3], v[4]>>)
        /\ i' = i + 1
=============================================================================
