----------------------------- MODULE Val_C02big -----------------------------
(* VAL for C02 on LARGE networks (more than 1024 nodes: matrices beyond 2^20       *)
(* entries): the path-based n.s.i. measures before and after splitting node v -      *)
(* global values equal, per-node values equal on the old nodes, the twin (appended    *)
(* last) carries v's value.  Only the recorded values are compared here; that          *)
(* splitted_copy realises Split(abs) is decided on the small networks (Val_C02).        *)
EXTENDS Integers, Sequences, TLC, Fx, Json, IOUtils
Trace == ndJsonDeserialize(IOEnv.TRACE_FILE)
VARIABLE i
Tol == 60
BadScalars(e) == {nm \in DOMAIN e.before.s : ~Close(e.before.s[nm], e.after.s[nm], Tol)}
BadVectors(e) == {nm \in DOMAIN e.before.v :
   LET a == e.before.v[nm]  b == e.after.v[nm]  n == Len(a) IN
   ~(/\ Len(b) = n + 1
     /\ \A k \in 1..n : Close(b[k], a[k], Max2(Tol, Abs(a[k]) \div 100000))
     /\ Close(b[n + 1], a[e.v], Max2(Tol, Abs(a[e.v]) \div 100000)))}
Verdict(e) ==
  LET tags == "bigsplit,n" \o ToString(e.n) IN
  IF e.exc # "" THEN <<"REJECT", "Applicable", e.exc, tags>>
  ELSE LET bad == BadScalars(e) \cup BadVectors(e) IN
       IF bad = {} THEN <<"ACCEPT", "", "", tags>> ELSE <<"REJECT", "NsiAgree", JoinSet(bad), tags>>
Init == i = 1
Next == /\ i <= Len(Trace)
        /\ LET v == Verdict(Trace[i]) IN PrintT(<<"V", Trace[i].case, v[1], v[2], v[3], v[4]>>)
        /\ i' = i + 1
=============================================================================
