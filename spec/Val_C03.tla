------------------------------ MODULE Val_C03 ------------------------------
(* VAL for C03: every recorded measure of a Network equals the definition of  *)
(* Defs_Network evaluated on the recorded adjacency matrix (wherever the       *)
(* measure is defined), and with unit weights every n.s.i. measure satisfies   *)
(* its documented relation to the unweighted measure.                          *)
EXTENDS Defs_Network, Defs_RandomWalk, Json, IOUtils

Trace == ndJsonDeserialize(IOEnv.TRACE_FILE)
VARIABLE i
Tol == 40

Has(e, nm) == nm \in DOMAIN e.m
Raised(e, nm) == nm \in DOMAIN e.x
\* vector / scalar / matrix measure nm equals F wherever recorded
Vec(e, nm, F(_)) == Has(e, nm) => /\ Len(e.m[nm]) = e.n
                                  /\ \A k \in 1..e.n : Close(e.m[nm][k], F(k), Tol)
Sca(e, nm, v) == Has(e, nm) => Close(e.m[nm], v, Tol)
Mat(e, nm, F(_, _)) == Has(e, nm) => /\ Len(e.m[nm]) = e.n /\ \A r \in 1..e.n : Len(e.m[nm][r]) = e.n
                                     /\ \A a \in 1..e.n : \A b \in 1..e.n : Close(e.m[nm][a][b], F(a, b), Tol)

NLinksU(A) == SumN(LAMBDA a : SumN(LAMBDA b : A[a][b], 1, Len(A)), 1, Len(A)) \div 2
\* the checks, as a sequence of <<site, holds>>; evaluated one by one
Checks(e) ==
  LET G == Ctx(e.A, e.directed, e.w)
      n == e.n  D == G.D  w == e.w
      und == e.directed = 0
      conn == Connected(D)
      src == {e.src[k] : k \in 1..Len(e.src)}
      tgt == {e.tgt[k] : k \in 1..Len(e.tgt)}
      KC == IF n <= 9 THEN KCoreTable(G) ELSE <<>>
      Eff == IF n >= 2 THEN GlobalEfficiency(D) ELSE 0
      EffOf(B) == IF Len(B) < 2 THEN 0 ELSE GlobalEfficiency(DistMat(B))
      \* link-weighted variants: cube roots fixed by the node numbers, weights = their cubes
      R == RootMat(e.A, e.directed)   W == CubeMat(R)
      WD == WDistMat(e.A, W)
  IN <<
  <<"link_attribute(c)", Mat(e, "link_attribute(c)", LAMBDA a, b : S * W[a][b])>>,
  <<"outdegree(c)", Vec(e, "outdegree(c)", LAMBDA k : S * OutStrength(W, k))>>,
  <<"indegree(c)", Vec(e, "indegree(c)", LAMBDA k : S * InStrength(W, k))>>,
  <<"degree(c)", Vec(e, "degree(c)", LAMBDA k : S * (IF und THEN OutStrength(W, k)
                                                      ELSE OutStrength(W, k) + InStrength(W, k)))>>,
  <<"bildegree(c)", Vec(e, "bildegree(c)", LAMBDA k : S * BilStrength(W, k))>>,
  <<"local_cyclemotif_clustering(c)", Vec(e, "local_cyclemotif_clustering(c)", LAMBDA k : WCycleMotif(G, R, k))>>,
  <<"local_midmotif_clustering(c)", Vec(e, "local_midmotif_clustering(c)", LAMBDA k : WMidMotif(G, R, k))>>,
  <<"local_inmotif_clustering(c)", Vec(e, "local_inmotif_clustering(c)", LAMBDA k : WInMotif(G, R, k))>>,
  <<"local_outmotif_clustering(c)", Vec(e, "local_outmotif_clustering(c)", LAMBDA k : WOutMotif(G, R, k))>>,
  <<"path_lengths(c)", Mat(e, "path_lengths(c)", LAMBDA a, b : IF WD[a][b] >= INFD THEN INF ELSE S * WD[a][b])>>,
  \* the path-length family with link lengths: mean over the pairs with a path; closeness of the nodes that
  \* reach every other node; efficiency = mean of 1/d over all ordered pairs
  <<"average_path_length(c)", (n >= 2 /\ APLDefined(WD)) => Sca(e, "average_path_length(c)", AvgPathLength(WD))>>,
  <<"closeness(c)", (n >= 2 /\ Has(e, "closeness(c)")) =>
        /\ Len(e.m["closeness(c)"]) = n
        /\ \A k \in 1..n : (\A j \in 1..n : Reach(WD, k, j)) => Close(e.m["closeness(c)"][k], Closeness(WD, k), Tol)>>,
  <<"global_efficiency(c)", n >= 2 => Sca(e, "global_efficiency(c)", GlobalEfficiency(WD))>>,
  <<"eigenvector_centrality(residual)", (und /\ Connected(D) /\ n >= 3 /\ Has(e, "eigenvector_centrality")) =>
        EigenResidualOK(G, e.m["eigenvector_centrality"], 60)>>,
  <<"pagerank(residual)", Has(e, "pagerank") => PageRankResidualOK(G, e.m["pagerank"], 40)>>,
  <<"assortativity", (und /\ AssortDen(G) > 0) => Sca(e, "assortativity", Assortativity(G))>>,
  <<"degree", Vec(e, "degree", LAMBDA k : S * Deg(G, k))>>,
  <<"indegree", Vec(e, "indegree", LAMBDA k : S * InDeg(G, k))>>,
  <<"outdegree", Vec(e, "outdegree", LAMBDA k : S * OutDeg(G, k))>>,
  <<"bildegree", Vec(e, "bildegree", LAMBDA k : S * BilDeg(G, k))>>,
  <<"nsi_degree", Vec(e, "nsi_degree", LAMBDA k : S * NsiDeg(G, k))>>,
  <<"nsi_indegree", Vec(e, "nsi_indegree", LAMBDA k : S * NsiInDeg(G, k))>>,
  <<"nsi_outdegree", Vec(e, "nsi_outdegree", LAMBDA k : S * NsiOutDeg(G, k))>>,
  <<"nsi_bildegree", Vec(e, "nsi_bildegree", LAMBDA k : S * NsiBilDeg(G, k))>>,
  \* typical-weight correction x / omega - 1 with omega = 2
  <<"nsi_degree(typical_weight)", Vec(e, "nsi_degree_tw2", LAMBDA k : (S * NsiDeg(G, k)) \div 2 - S)>>,
  <<"nsi_indegree(typical_weight)", Vec(e, "nsi_indegree_tw2", LAMBDA k : (S * NsiInDeg(G, k)) \div 2 - S)>>,
  <<"nsi_outdegree(typical_weight)", Vec(e, "nsi_outdegree_tw2", LAMBDA k : (S * NsiOutDeg(G, k)) \div 2 - S)>>,
  <<"laplacian", und => Mat(e, "laplacian", LAMBDA a, b : S * Laplacian(G, a, b))>>,
  <<"nsi_laplacian", und => Mat(e, "nsi_laplacian", LAMBDA a, b : S * NsiLaplacian(G, a, b))>>,
  <<"average_neighbors_degree", (und /\ \A k \in 1..n : G.ku[k] > 0)
        => Vec(e, "average_neighbors_degree", LAMBDA k : AvgNbDeg(G, k))>>,
  <<"max_neighbors_degree", und => Vec(e, "max_neighbors_degree", LAMBDA k : S * MaxNbDeg(G, k))>>,
  <<"nsi_average_neighbors_degree", und => Vec(e, "nsi_average_neighbors_degree", LAMBDA k : NsiAvgNbDeg(G, k))>>,
  <<"nsi_max_neighbors_degree", und => Vec(e, "nsi_max_neighbors_degree", LAMBDA k : S * NsiMaxNbDeg(G, k))>>,
  <<"local_clustering", und => Vec(e, "local_clustering", LAMBDA k : LocalClustering(G, k))>>,
  <<"global_clustering", und => Sca(e, "global_clustering", GlobalClustering(G))>>,
  <<"transitivity", (und /\ TransitivityDefined(G)) => Sca(e, "transitivity", Transitivity(G))>>,
  <<"nsi_local_clustering", und => Vec(e, "nsi_local_clustering", LAMBDA k : NsiLocalClustering(G, k))>>,
  <<"nsi_global_clustering", und => Sca(e, "nsi_global_clustering", NsiGlobalClustering(G))>>,
  <<"nsi_transitivity", und => Sca(e, "nsi_transitivity", NsiTransitivity(G))>>,
  <<"nsi_local_soffer_clustering", und => Vec(e, "nsi_local_soffer_clustering", LAMBDA k : NsiSoffer(G, k))>>,
  <<"nsi_twinness", und => Mat(e, "nsi_twinness", LAMBDA a, b : NsiTwinness(G, a, b))>>,
  <<"local_cyclemotif_clustering", Vec(e, "local_cyclemotif_clustering", LAMBDA k : CycleMotif(G, k))>>,
  <<"local_midmotif_clustering", Vec(e, "local_midmotif_clustering", LAMBDA k : MidMotif(G, k))>>,
  <<"local_inmotif_clustering", Vec(e, "local_inmotif_clustering", LAMBDA k : InMotif(G, k))>>,
  <<"local_outmotif_clustering", Vec(e, "local_outmotif_clustering", LAMBDA k : OutMotif(G, k))>>,
  <<"local_cliquishness(3)", und => Vec(e, "local_cliquishness_3", LAMBDA k : LocalCliquishness(G, 3, k))>>,
  <<"local_cliquishness(4)", und => Vec(e, "local_cliquishness_4", LAMBDA k : LocalCliquishness(G, 4, k))>>,
  <<"local_cliquishness(5)", und => Vec(e, "local_cliquishness_5", LAMBDA k : LocalCliquishness(G, 5, k))>>,
  <<"higher_order_transitivity(4)", und => Sca(e, "higher_order_transitivity_4", HigherOrderTransitivity4(G))>>,
  \* (0/0 for two isolated nodes: not compared)
  <<"matching_index", (und /\ Has(e, "matching_index")) =>
        \A a \in 1..n : \A b \in 1..n :
           G.ku[a] + G.ku[b] > 0 => Close(e.m["matching_index"][a][b], MatchingIndex(G, a, b), Tol)>>,
  <<"path_lengths", Mat(e, "path_lengths", LAMBDA a, b : IF Reach(D, a, b) THEN S * D[a][b] ELSE INF)>>,
  <<"average_path_length", (und /\ conn /\ n >= 2) => Sca(e, "average_path_length", AvgPathLength(D))>>,
  <<"diameter", (und /\ APLDefined(D)) => Sca(e, "diameter", S * Diameter(D))>>,
  <<"closeness", (und /\ conn /\ n >= 2) => Vec(e, "closeness", LAMBDA k : Closeness(D, k))>>,
  <<"global_efficiency", n >= 2 => Sca(e, "global_efficiency", Eff)>>,
  <<"nsi_average_path_length", Sca(e, "nsi_average_path_length", NsiAvgPathLength(D, w))>>,
  <<"nsi_closeness", Vec(e, "nsi_closeness", LAMBDA k : NsiCloseness(D, w, k))>>,
  <<"nsi_harmonic_closeness", Vec(e, "nsi_harmonic_closeness", LAMBDA k : NsiHarmonicCloseness(D, w, k))>>,
  <<"nsi_exponential_closeness", Vec(e, "nsi_exponential_closeness", LAMBDA k : NsiExpCloseness(D, w, k))>>,
  <<"nsi_global_efficiency", Sca(e, "nsi_global_efficiency", NsiGlobalEfficiency(D, w))>>,
  <<"betweenness", Divides(G.Sg) => Vec(e, "betweenness", LAMBDA k : Betweenness(G, k))>>,
  \* Newman's random-walk betweenness n * b_i = 2/(n-1) * sum_{s<t} I_i(s,t) (unit current from s to t; the end
  \* points carry 1): on a TREE every current is 0 or 1, so it is 2 + 2 B_i / (n-1) with the shortest-path
  \* betweenness B_i; on the COMPLETE graph every third node carries 1/n, so it is 2 + (n-2)/n
  <<"newman_betweenness(tree)", (und /\ conn /\ n >= 2 /\ NLinksU(e.A) = n - 1 /\ Divides(G.Sg)) =>
        Vec(e, "newman_betweenness", LAMBDA k : 2 * S + FxDiv(2 * BetwLCM(G, k, 1..n, 1..n), 2 * LCM * (n - 1), S))>>,
  \* ... and on EVERY connected undirected graph of up to 6 nodes by the electrical definition (Defs_RandomWalk:
  \* spanning-tree determinants, no matrix inverse, no grounded node)
  <<"newman_betweenness", (und /\ conn /\ n >= 2 /\ n <= 6) =>
        LET E == ERNum(e.A)  tau == TreeCount(e.A) IN
        Vec(e, "newman_betweenness", LAMBDA k : NewmanRWB6(e.A, E, tau, k))>>,
  \* Arenas-type random-walk betweenness: expected arrivals summed over all targets and sources (Defs_RandomWalk:
  \* adjugates of the integer absorbing matrices); the walk is defined on a connected graph
  <<"arenas_betweenness", (und /\ conn /\ n >= 2 /\ n <= 5) =>
        Vec(e, "arenas_betweenness", LAMBDA k : ArenasRWB6(e.A, k))>>,
  <<"newman_betweenness(complete)", (und /\ n >= 3 /\ NLinksU(e.A) = (n * (n - 1)) \div 2) =>
        Vec(e, "newman_betweenness", LAMBDA k : 2 * S + Q(n - 2, n))>>,
  <<"interregional_betweenness", (und /\ Divides(G.Sg)) =>
        Vec(e, "interregional_betweenness", LAMBDA k : InterregionalBetweenness(G, k, src, tgt))>>,
  <<"link_betweenness", Divides(G.Sg) => Mat(e, "link_betweenness", LAMBDA a, b : LinkBetweenness(G, a, b))>>,
  <<"nsi_betweenness", und => Vec(e, "nsi_betweenness", LAMBDA k : NsiBetweenness(G, k, 1..n, 1..n))>>,
  <<"nsi_interregional_betweenness", und =>
        Vec(e, "nsi_interregional_betweenness", LAMBDA k : NsiBetweenness(G, k, src, tgt))>>,
  <<"coreness", (und /\ n <= 9) => Vec(e, "coreness", LAMBDA k : S * CorenessFrom(KC, n, k))>>,
  <<"local_vulnerability", (und /\ n >= 3 /\ Eff > 0) =>
        Vec(e, "local_vulnerability", LAMBDA k : Q(Eff - EffOf(Without(e.A, k)), Eff))>>,
  \* documented relations with unit node weights
  <<"unit:nsi_degree=degree+1", (e.unitw = 1 /\ Has(e, "nsi_degree") /\ Has(e, "degree") /\ und) =>
        \A k \in 1..n : Close(e.m["nsi_degree"][k], e.m["degree"][k] + S, Tol)>>,
  <<"unit:nsi_max_neighbors_degree", (e.unitw = 1 /\ und /\ Has(e, "nsi_max_neighbors_degree")) =>
        \A k \in 1..n : Close(e.m["nsi_max_neighbors_degree"][k],
                              S * MaxN(LAMBDA j : Ap(G, k, j) * (G.ku[j] + 1), 1, n, 0), Tol)>>
  >>

\* exceptions: a measure that raised where its definition applies
MayRaise(e, nm) ==
  \/ e.directed = 1 /\ nm \in {"nsi_laplacian", "local_cliquishness_3", "local_cliquishness_4", "local_cliquishness_5",
                                "nsi_betweenness", "nsi_interregional_betweenness",
                                "eigenvector_centrality", "nsi_eigenvector_centrality",
                                "assortativity", "nsi_newman_betweenness", "newman_betweenness",
                                "arenas_betweenness", "nsi_arenas_betweenness", "local_vulnerability",
                                "nsi_local_soffer_clustering", "nsi_twinness", "coreness",
                                "interregional_betweenness", "average_neighbors_degree",
                                "nsi_average_neighbors_degree", "nsi_max_neighbors_degree",
                                "max_neighbors_degree", "higher_order_transitivity_4", "matching_index"}
  \* documented refusals on directed networks
  \/ e.directed = 1 /\ e.x[nm] \in {"NotImplementedError", "NetworkError"}
  \* removing a node from a 2-node network leaves a single node (efficiency 0/0)
  \/ e.n = 2 /\ nm = "local_vulnerability"
  \* on a single node nearly every measure is a 0/0
  \/ e.n = 1
  \* assortativity is undefined on regular (incl. edgeless) graphs
  \/ nm = "assortativity"
  \* spectral / random-walk measures need a connected graph
  \/ nm \in {"eigenvector_centrality", "nsi_eigenvector_centrality", "newman_betweenness",
             "nsi_newman_betweenness", "arenas_betweenness", "nsi_arenas_betweenness"}
Unexpected(e) == {nm \in DOMAIN e.x : ~MayRaise(e, nm)}

\* the sites of all failing checks, joined by ";"
AllFail(cs) == JoinSet(FailsOf(cs, ""))

IsolatedNode(e) == \E k \in 1..e.n : \A j \in 1..e.n : e.A[k][j] = 0 /\ e.A[j][k] = 0
Tags(e) == e.blk \o (IF e.directed = 1 THEN ",directed" ELSE "")
           \o (IF IsolatedNode(e) THEN ",isolated_node" ELSE "")
           \o (IF e.n = 1 THEN ",single_node" ELSE "")
           \o (IF \A a \in 1..e.n : \A b \in 1..e.n : e.A[a][b] = 0 THEN ",edgeless" ELSE "")
\* a measure is a function of the network alone: asking the same queries in the opposite order (on a
\* fresh object) gives the same values
\* (the eigenvector centralities come from an iterative solver with a random start vector: they are
\* compared with their definition, under its tolerance, where the Perron vector is unique)
Iterative == {"eigenvector_centrality", "nsi_eigenvector_centrality"}
OrderDep(e) == {nm \in (DOMAIN e.f1 \cup DOMAIN e.f2) \ Iterative :
                  ~(nm \in DOMAIN e.f1 /\ nm \in DOMAIN e.f2 /\ CloseSeq(e.f1[nm], e.f2[nm], 2))}
Verdict(e) ==
  IF Unexpected(e) # {}
  THEN <<"REJECT", "Applicable", JoinSet({nm \o ":" \o e.x[nm] : nm \in Unexpected(e)}), Tags(e)>>
  ELSE IF OrderDep(e) # {} THEN <<"REJECT", "OrderIndependent", JoinSet(OrderDep(e)), Tags(e)>>
  ELSE LET f == AllFail(Checks(e)) IN
       IF f # "" THEN <<"REJECT", "Def", f, Tags(e)>> ELSE <<"ACCEPT", "", "", Tags(e)>>

\* all verdicts, evaluated once at constant level (TLC caches LET definitions only there)
Verdicts == TLCEval([k \in 1..Len(Trace) |-> Verdict(Trace[k])])
Init == i = 1
Next == /\ i <= Len(Trace)
        /\ LET v == Verdicts[i]
           IN PrintT(<<"V", Trace[i].case, v[1], v[2], v[3], v[4]>>)
        /\ i' = i + 1
=============================================================================
