INIT Init
NEXT Next
CHECK_DEADLOCK FALSE
