------------------------------ MODULE Val_C03t ------------------------------
(* VAL for C03 on LARGE trees (chains and stars of up to 300 nodes, nodes 0 .. N-1): path-based and        *)
(* random-walk measures have closed forms                                                                 *)
(*   chain : betweenness k (N-1-k);  closeness (N-1) / (k(k+1)/2 + (N-1-k)(N-k)/2);                        *)
(*           Newman's random-walk betweenness 2 + 2 k (N-1-k) / (N-1)  (on a tree the unit current from s to  *)
(*           t passes exactly the nodes of the path)                                                       *)
(*   star  : hub 0: betweenness C(N-1,2), closeness 1, Newman N;  leaves: 0, (N-1)/(2N-3), 2                 *)
(* PROVED here against the definitions (Defs_Network shortest paths, Defs_RandomWalk spanning-tree            *)
(* determinants) on the members of up to 6 nodes; recorded values of every member against the closed forms.    *)
EXTENDS Defs_Network, Defs_RandomWalk, Json, IOUtils
Trace == ndJsonDeserialize(IOEnv.TRACE_FILE)
VARIABLE i
Linked(kind, a, b) == a # b /\ (IF kind = "chain" THEN Abs(a - b) = 1 ELSE a = 0 \/ b = 0)
Adj(kind, N) == [a \in 1..N |-> [b \in 1..N |-> IF Linked(kind, a - 1, b - 1) THEN 1 ELSE 0]]
\* (betweenness is recorded scaled by 100: it reaches 44 551 at 300 nodes)
Betw2(kind, N, k) == IF kind = "chain" THEN 100 * k * (N - 1 - k) ELSE IF k = 0 THEN 100 * (((N - 1) * (N - 2)) \div 2) ELSE 0
Clo6(kind, N, k) == IF kind = "chain" THEN FxDiv(N - 1, (k * (k + 1)) \div 2 + ((N - 1 - k) * (N - k)) \div 2, S)
                    ELSE IF k = 0 THEN S ELSE FxDiv(N - 1, 2 * N - 3, S)
New6(kind, N, k) == IF kind = "chain" THEN 2 * S + FxDiv(2 * k * (N - 1 - k), N - 1, S)
                    ELSE IF k = 0 THEN N * S ELSE 2 * S
Proved(kind, N) ==
  LET A == Adj(kind, N)  G == Ctx(A, 0, [k \in 1..N |-> 1])  E == ERNum(A)  tau == TreeCount(A) IN
  \A v \in 1..N : /\ Close(Betweenness(G, v), 10000 * Betw2(kind, N, v - 1), 2)
                  /\ Close(Closeness(G.D, v), Clo6(kind, N, v - 1), 2)
                  /\ Close(NewmanRWB6(A, E, tau, v), New6(kind, N, v - 1), 2)
Near(x, v) == IsNum(x) /\ Abs(x - v) <= Max2(20, v \div 5000)
Fails(e) ==
  LET N == e.N  o == e.obs  nm == "(" \o e.kind \o ")" IN
  (IF N <= 6 /\ ~Proved(e.kind, N) THEN {"GenExact|closed forms of the tree family " \o e.kind} ELSE {})
  \cup (IF \E k \in 0..(N - 1) : ~Near(o.betweenness[k + 1], Betw2(e.kind, N, k)) THEN {"betweenness" \o nm} ELSE {})
  \cup (IF \E k \in 0..(N - 1) : ~Near(o.closeness[k + 1], Clo6(e.kind, N, k)) THEN {"closeness" \o nm} ELSE {})
  \cup (IF \E k \in 0..(N - 1) : ~Near(o.newman[k + 1], New6(e.kind, N, k)) THEN {"newman_betweenness" \o nm} ELSE {})
Tags(e) == e.kind \o ",N" \o ToString(e.N)
Verdict(e) == IF e.obs.exc # "" THEN <<"REJECT", "Applicable", e.obs.exc, Tags(e)>>
              ELSE LET f == Fails(e) IN IF f = {} THEN <<"ACCEPT", "", "", Tags(e)>>
                                        ELSE <<"REJECT", "Multi", JoinSet(f), Tags(e)>>
Init == i = 1
Next == /\ i <= Len(Trace)
        /\ LET v == Verdict(Trace[i]) IN PrintT(<<"V", Trace[i].case, v[1], v[2], v[3], v[4]>>)
        /\ i' = i + 1
=============================================================================
