------------------------------ MODULE Val_C03w ------------------------------
(* VAL for C03, large degrees: the windmill graph Wd(c, m) - a hub (node 1) joined *)
(* to m disjoint c-cliques - has closed-form local measures (k = c m):               *)
(*   degree            hub k, every other node c                                     *)
(*   cliquishness o    hub m C(c, o-1) / C(k, o-1)  (o = 3: local clustering),        *)
(*                     others 1 (their neighbourhood is a clique)                      *)
(*   max. neighbour degree   hub c, others k                                           *)
(* For the small instances TLC builds the adjacency matrix and checks the closed       *)
(* forms against the DEFINITIONS of Defs_Network (ClosedFormIsDef); for every          *)
(* instance - in particular hub degrees 132 > 127 and 256 > 255 - the recorded values   *)
(* are compared with the closed forms (degree arithmetic of the compiled kernels        *)
(* beyond 8 bits).                                                                      *)
EXTENDS Defs_Network, Json, IOUtils
Trace == ndJsonDeserialize(IOEnv.TRACE_FILE)
VARIABLE i
Tol == 40
Block(v, c) == (v - 2) \div c                      \* nodes 2.. in consecutive blocks of c
Adj(c, m) == [a \in 1..(c * m + 1) |-> [b \in 1..(c * m + 1) |->
                IF a = b THEN 0 ELSE IF a = 1 \/ b = 1 THEN 1 ELSE IF Block(a, c) = Block(b, c) THEN 1 ELSE 0]]
CDeg(c, m, v) == IF v = 1 THEN c * m ELSE c
\* m C(c, j) / C(k, j) = prod_{i=1..j-1} (c - i) / (k - i)   (j = o - 1, k = c m), in fixed point
RECURSIVE Ratio(_, _, _)
Ratio(c, k, j) == IF j <= 1 THEN S ELSE IF c - (j - 1) <= 0 THEN 0 ELSE FxMul(Ratio(c, k, j - 1), Q(c - (j - 1), k - (j - 1)))
CCl(c, m, o, v) == IF v = 1 THEN (IF c * m < o - 1 THEN 0 ELSE Ratio(c, c * m, o - 1))
                   ELSE (IF c < o - 1 THEN 0 ELSE S)
\* global measures: triangles = m C(c,3) + m C(c,2) (with the hub), 2-stars = C(k,2) + k C(c,2),
\* 4-cliques = m C(c,4) + m C(c,3), 3-stars = C(k,3) + k C(c,3), links = k + m C(c,2)
B2(n) == (n * (n - 1)) \div 2
B3(n) == (n * (n - 1) * (n - 2)) \div 6
B4(n) == (B3(n) * (n - 3)) \div 4
CTrans(c, m) == Q(3 * (m * B3(c) + m * B2(c)), B2(c * m) + c * m * B2(c))
CGlob(c, m) == RDiv(CCl(c, m, 3, 1) + c * m * S, c * m + 1)
CHot4(c, m) == IF B3(c * m) + c * m * B3(c) = 0 THEN 0 ELSE Q(4 * (m * B4(c) + m * B3(c)), B3(c * m) + c * m * B3(c))
ClosedFormIsDef(c, m) ==
  LET G == Ctx(Adj(c, m), 0, [k \in 1..(c * m + 1) |-> 1]) IN
  \A v \in 1..(c * m + 1) :
     /\ Deg(G, v) = CDeg(c, m, v)
     /\ \A o \in 3..5 : Close(LocalCliquishness(G, o, v), CCl(c, m, o, v), 2)
     /\ Close(Transitivity(G), CTrans(c, m), 2) /\ Close(HigherOrderTransitivity4(G), CHot4(c, m), 2)
VecIs(o, nm, F(_), n) == Len(o[nm]) = n /\ \A v \in 1..n : Close(o[nm][v], F(v), Tol)
Verdict(e) ==
  LET m == e.m  c == e.c  n == c * m + 1  o == e.obs
      tags == "windmill,c" \o ToString(c) \o ",m" \o ToString(m) IN
  IF n <= 9 /\ ~ClosedFormIsDef(c, m) THEN <<"REJECT", "ClosedFormIsDef", "windmill", tags>>
  ELSE IF o.exc # "" THEN <<"REJECT", "Applicable", o.exc, tags>>
  ELSE LET f == (IF ~VecIs(o, "degree", LAMBDA v : S * CDeg(c, m, v), n) THEN {"Def|degree"} ELSE {})
                \cup (IF ~VecIs(o, "local_clustering", LAMBDA v : CCl(c, m, 3, v), n) THEN {"Def|local_clustering"} ELSE {})
                \cup (IF ~VecIs(o, "cliq3", LAMBDA v : CCl(c, m, 3, v), n) THEN {"Def|local_cliquishness(3)"} ELSE {})
                \cup (IF ~VecIs(o, "cliq4", LAMBDA v : CCl(c, m, 4, v), n) THEN {"Def|local_cliquishness(4)"} ELSE {})
                \cup (IF ~VecIs(o, "cliq5", LAMBDA v : CCl(c, m, 5, v), n) THEN {"Def|local_cliquishness(5)"} ELSE {})
                \cup (IF ~VecIs(o, "maxnbdeg", LAMBDA v : S * (IF v = 1 THEN c ELSE c * m), n) THEN {"Def|max_neighbors_degree"} ELSE {})
                \cup (IF ~Close(o.transitivity, CTrans(c, m), Tol) THEN {"Def|transitivity"} ELSE {})
                \cup (IF ~Close(o.global_clustering, CGlob(c, m), Tol) THEN {"Def|global_clustering"} ELSE {})
                \cup (IF ~Close(o.hot4, CHot4(c, m), Tol) THEN {"Def|higher_order_transitivity(4)"} ELSE {})
                \cup (IF o.n_links # c * m + m * B2(c) THEN {"Def|n_links"} ELSE {})
       IN IF f = {} THEN <<"ACCEPT", "", "", tags>> ELSE <<"REJECT", "Multi", JoinSet(f), tags>>
Verdicts == TLCEval([k \in 1..Len(Trace) |-> Verdict(Trace[k])])
Init == i = 1
Next == /\ i <= Len(Trace)
        /\ LET v == Verdicts[i] IN PrintT(<<"V", Trace[i].case, v[1], v[2], v[3], v[4]>>)
        /\ i' = i + 1
=============================================================================
