------------------------------ MODULE Val_C04 ------------------------------
(* VAL for C04: a recorded Permute behaviour is replayed through NetworkSM:    *)
(* permuted_copy must produce exactly Permute(abs, perm) and all observations   *)
(* must be renumbered accordingly (PermAgree).                                  *)
EXTENDS NetworkSM, Defs_Network, Json, IOUtils

Trace == ndJsonDeserialize(IOEnv.TRACE_FILE)
VARIABLE i
Tol == 60

Abs0(e) == [A |-> e.A, dir |-> e.directed, w |-> e.w]
Undir(A) == [a \in 1..Len(A) |-> [b \in 1..Len(A) |-> IF A[a][b] = 1 \/ A[b][a] = 1 THEN 1 ELSE 0]]
IsConnected(A) == Connected(DistMat(Undir(A)))
\* withdrawn where the measure is not defined (no unique Perron vector)
Undefined(e) == (IF e.directed = 1 \/ ~IsConnected(e.A) \/ e.n < 3
                 THEN {"eigenvector_centrality", "nsi_eigenvector_centrality"} ELSE {})
                \* random-walk betweenness (Newman, Arenas) is defined on undirected graphs
                \cup (IF e.directed = 1
                      THEN {"newman_betweenness", "arenas_betweenness", "nsi_newman_betweenness",
                            "nsi_arenas_betweenness", "nsi_newman_betweenness(add_local_ends)",
                            "nsi_arenas_betweenness(exclude_neighbors=False)"} ELSE {})
Drop(o, U) == [s |-> [nm \in DOMAIN o.s \ U |-> o.s[nm]], v |-> [nm \in DOMAIN o.v \ U |-> o.v[nm]],
               m |-> [nm \in DOMAIN o.m \ U |-> o.m[nm]], g |-> [nm \in DOMAIN o.g \ U |-> o.g[nm]],
               x |-> [nm \in DOMAIN o.x \ U |-> o.x[nm]]]
BadGlobal(o, p) == {nm \in Names(o.g, p.g) : ~CloseSeq(o.g[nm], p.g[nm], Tol)}
\* a measure observed on one side only (different kind or missing)
KindChange(o, p) == ((DOMAIN o.s \cup DOMAIN o.v \cup DOMAIN o.m \cup DOMAIN o.g)
                       \ (DOMAIN p.s \cup DOMAIN p.v \cup DOMAIN p.m \cup DOMAIN p.g))
                    \cup ((DOMAIN p.s \cup DOMAIN p.v \cup DOMAIN p.m \cup DOMAIN p.g)
                       \ (DOMAIN o.s \cup DOMAIN o.v \cup DOMAIN o.m \cup DOMAIN o.g))
Tags(e) == e.blk \o (IF e.directed = 1 THEN ",directed" ELSE "")
           \o (IF ~IsConnected(e.A) THEN ",disconnected" ELSE "")
Verdict(e) ==
  LET a1 == Permute(Abs0(e), e.perm)
      o0 == Drop(e.obs0, Undefined(e))  o1 == Drop(e.obs1, Undefined(e))
      R(c, s) == <<"REJECT", c, s, Tags(e)>>
  IN IF e.permuted.A # a1.A \/ e.permuted.w # a1.w THEN R("PermDef", "permuted_copy")
     ELSE IF OneSided(o0, o1) # {} THEN R("OneSidedException", JoinSet(OneSided(o0, o1)))
     ELSE IF KindChange(o0, o1) # {} THEN R("PermAgree", JoinSet(KindChange(o0, o1)))
     ELSE LET b == BadPerm(o0, o1, e.perm, Tol)  g == JoinSet(BadGlobal(o0, o1)) IN
          IF b # "" /\ g # "" THEN R("PermAgree", b \o ";" \o g)
          ELSE IF b # "" \/ g # "" THEN R("PermAgree", b \o g)
          ELSE <<"ACCEPT", "", "", Tags(e)>>

Verdicts == TLCEval([k \in 1..Len(Trace) |-> Verdict(Trace[k])])
Init == i = 1
Next == /\ i <= Len(Trace)
        /\ LET v == Verdicts[i]
           IN PrintT(<<"V", Trace[i].case, v[1], v[2], v[3], v[4]>>)
        /\ i' = i + 1
=============================================================================
