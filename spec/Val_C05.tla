------------------------------ MODULE Val_C05 ------------------------------
(* VAL for C05: one abstract network realised through every constructor path    *)
(* of NetworkSM!Paths.  For each path: ReprDef - node count, link count, link    *)
(* density, adjacency (symmetric with empty diagonal when undirected), sparse     *)
(* matrix, embedded graph, node weights with total and mean, link attribute all    *)
(* equal their definition on the abstract network; Functional - a panel of         *)
(* measures that consume the internal representation equals the dense path's.      *)
EXTENDS NetworkSM, Json, IOUtils, TLC

Trace == ndJsonDeserialize(IOEnv.TRACE_FILE)
VARIABLE i
Tol == 60
CloseRel(a, b) == Close(a, b, Max2(Tol, Abs(b) \div 20000))
SameSeq(a, b) == Len(a) = Len(b) /\ \A k \in 1..Len(a) : CloseRel(a[k], b[k])

AbsOf(e) == [A |-> e.A, dir |-> e.directed, w |-> e.w4]
\* link attribute restricted to the links of the network
LaOnLinks(e) == [a \in 1..e.n |-> [b \in 1..e.n |-> IF e.A[a][b] = 1 THEN e.la[a][b] ELSE 0]]
\* for undirected_copy of an undirected network nothing changes
FailsOfPath(e, nm) ==
  LET o == e.paths[nm]  n == e.n
      w4 == IF nm \in UnitWeightPaths THEN [k \in 1..n |-> 4] ELSE e.w4
      a == [A |-> e.A, dir |-> e.directed, w |-> w4] IN
  IF o.exc # "" THEN {"Applicable|" \o nm \o ":" \o o.exc}
  ELSE {nm \o "." \o f : f \in
    (IF o.N # n THEN {"N"} ELSE {})
    \cup (IF o.directed # e.directed THEN {"directed"} ELSE {})
    \cup (IF o.n_links # NLinks(a) THEN {"n_links"} ELSE {})
    \cup (IF n >= 2 /\ ~Close(o.ld, FxDiv(NLinksDir(a), n * (n - 1), 1000000), Tol) THEN {"link_density"} ELSE {})
    \cup (IF o.adj # e.A THEN {"adjacency"} ELSE {})
    \cup (IF o.spA # e.A THEN {"sp_A"} ELSE {})
    \cup (IF e.directed = 0 /\ ~(IsSymmetric(o.adj) /\ EmptyDiagonal(o.adj)) THEN {"symmetry"} ELSE {})
    \cup (IF o.graph # e.A \/ o.graph_n # n THEN {"graph"} ELSE {})
    \cup (IF nm \notin FreeWeightPaths /\ o.w4 # w4 THEN {"node_weights"} ELSE {})
    \cup (IF nm \notin FreeWeightPaths /\ o.total4 # TotalWeight(a) THEN {"total_node_weight"} ELSE {})
    \cup (IF nm \notin FreeWeightPaths /\ ~Close(o.mean6, FxDiv(TotalWeight(a) * 250000, n, 1), Tol)
          THEN {"mean_node_weight"} ELSE {})
    \* total and mean are those of the weight vector the network reports (every path; in units of 10^-4, slack of one
    \* unit per node for the rounding)
    \cup (IF Abs(o.totalfine - SumN(LAMBDA k : o.wfine[k], 1, Len(o.wfine))) > n + 1 THEN {"total_node_weight(consistency)"} ELSE {})
    \cup (IF Abs(o.meanfine * n - o.totalfine) > n + 1 THEN {"mean_node_weight(consistency)"} ELSE {})
    \* (an undirected copy keeps no attributes: i->j and j->i may carry different values)
    \cup (IF e.hasla = 1 /\ nm # "undirected_copy" /\ (o.la_exc # "" \/ o.la # LaOnLinks(e))
          THEN {"link_attribute"} ELSE {})
    \* (paths that end with unit weights are compared with the dense path on the weight-free measures only)
    \cup {"panel:" \o m : m \in {mm \in DOMAIN o.panel \cap DOMAIN e.paths["ndarray"].panel :
                                  /\ ~(nm \in UnitWeightPaths \cup FreeWeightPaths /\ mm \in {"nsi_degree", "nsi_average_path_length"})
                                  /\ ~SameSeq(o.panel[mm], e.paths["ndarray"].panel[mm])}}
    \cup {"panel-exception:" \o m : m \in (DOMAIN o.x \ DOMAIN e.paths["ndarray"].x)
                                           \cup (DOMAIN e.paths["ndarray"].x \ DOMAIN o.x)}}
Tags(e) == e.blk \o (IF e.directed = 1 THEN ",directed" ELSE "")
           \o (IF NLinksDir(AbsOf(e)) = 0 THEN ",edgeless" ELSE "")
           \o (IF e.n = 1 THEN ",single_node" ELSE "")
           \o (IF e.hasla = 1 THEN ",link_attribute" ELSE "")
           \o (IF \E k \in 1..e.n : e.w4[k] # 4 THEN ",weights" ELSE "")
Verdict(e) ==
  IF \E nm \in DOMAIN e.paths : nm \notin Paths THEN <<"REJECT", "UnknownPath", "adapter", Tags(e)>>
  ELSE LET fails == UNION {FailsOfPath(e, nm) : nm \in DOMAIN e.paths} IN
       IF fails = {} THEN <<"ACCEPT", "", "", Tags(e)>> ELSE <<"REJECT", "ReprDef", JoinSet(fails), Tags(e)>>
Verdicts == TLCEval([k \in 1..Len(Trace) |-> Verdict(Trace[k])])
Init == i = 1
Next == /\ i <= Len(Trace)
        /\ LET v == Verdicts[i] IN PrintT(<<"V", Trace[i].case, v[1], v[2], v[3], v[4]>>)
        /\ i' = i + 1
=============================================================================
