------------------------------ MODULE Val_C06 ------------------------------
(* VAL for C06 (purity).  In ObjectSM a query is not a mutator: it leaves the   *)
(* abstract state unchanged, hence                                              *)
(*   Pure           every observation made after query q equals the observation  *)
(*                  on a fresh twin that never ran q (all ordered pairs (q, b)),  *)
(*   Repeatable     q called twice returns equal values,                          *)
(*   InputsUntouched  caller-owned arrays and shared data objects have the same    *)
(*                  content digest before and after,                               *)
(*   NoStaleHit     every cache hit (guarded lookup hook, shadow re-evaluation)     *)
(*                  returned what the method computes on the current state.         *)
(* Random queries are observed through a deterministic functional of their result  *)
(* (sorted values, spectral amplitudes), as stated in the label after "~".         *)
EXTENDS Integers, Sequences, FiniteSets, TLC, Fx, Json, IOUtils

Trace == ndJsonDeserialize(IOEnv.TRACE_FILE)
VARIABLE i
Tol == 60
CloseRel(a, b) == Close(a, b, Max2(Tol, Abs(b) \div 5000))
SameSeq(a, b) == Len(a) = Len(b) /\ \A k \in 1..Len(a) : CloseRel(a[k], b[k])
\* names whose observation after q differs from the twin's
Interfered(e) ==
  {nm \in DOMAIN e.after \cap DOMAIN e.base : ~SameSeq(e.after[nm], e.base[nm])}
  \cup ((DOMAIN e.after \ DOMAIN e.base) \cup (DOMAIN e.base \ DOMAIN e.after))
  \cup {nm \in DOMAIN e.afterx \cup DOMAIN e.basex :
          ~(nm \in DOMAIN e.afterx /\ nm \in DOMAIN e.basex /\ e.afterx[nm] = e.basex[nm])}
Touched(e) == {nm \in DOMAIN e.inputs_before : e.inputs_before[nm] # e.inputs_after[nm]}
Tags(e) == e.target \o "," \o e.mode
Verdict(e) ==
  IF e.skip = 1 THEN <<"ACCEPT", "", "", Tags(e) \o ",absent">>
  ELSE LET bad == {"Pure|" \o e.q \o "->" \o nm : nm \in Interfered(e)}
                  \cup (IF ~SameSeq(e.rep[1], e.rep[2]) THEN {"Repeatable|" \o e.q} ELSE {})
                  \cup {"InputsUntouched|" \o e.q \o "->" \o nm : nm \in Touched(e)}
                  \* every cache hit during the case returned what the undecorated method computes now
                  \* (a memoised array edited in place by another query shows up here, at its owner)
                  \cup {"NoStaleHit|" \o e.stale[k] : k \in 1..Len(e.stale)}
       IN IF bad = {} THEN <<"ACCEPT", "", "", Tags(e)>> ELSE <<"REJECT", "Multi", JoinSet(bad), Tags(e)>>
Verdicts == TLCEval([k \in 1..Len(Trace) |-> Verdict(Trace[k])])
Init == i = 1
Next == /\ i <= Len(Trace)
        /\ LET v == Verdicts[i] IN PrintT(<<"V", Trace[i].case, v[1], v[2], v[3], v[4]>>)
        /\ i' = i + 1
=============================================================================
