------------------------------ MODULE Val_C07 ------------------------------
(* VAL for C07: recorded recurrence matrices / networks against              *)
(* Defs_Recurrence; applicability of the RQA methods on every derived class   *)
(* is checked against Defs_Lines on the recorded matrix.                      *)
EXTENDS Defs_Recurrence, Defs_Lines, TLC, Json, IOUtils

Trace == ndJsonDeserialize(IOEnv.TRACE_FILE)
VARIABLE i
Tol == 20

\* ---- single-series plots and networks ------------------------------------------
Traj(e) == IF e.kind = "rp2" THEN e.pts
           ELSE IF e.dim = 1 THEN Scalar(e.s) ELSE Embed(e.s, e.dim, e.tau)
MvE(e) == IF e.kind = "rp2" THEN Zeros(Len(e.pts))
          ELSE IF e.mvflag = 0 THEN Zeros(Len(Traj(e)))
          ELSE EmbedMask(e.mv, e.dim, e.tau)
HasMv(e) == e.kind = "rp" /\ e.mvflag = 1
ExpR(e) == LET X == Traj(e) IN
  IF e.mode = "thr" THEN RecFixed(e.metric, X, X, MvE(e), MvE(e), 1, e.pn, e.pd)
  ELSE IF e.mode = "rr" THEN RecRate(e.metric, X, X, e.pn, e.pd)
  ELSE RecLocalRate(e.metric, X, e.pn, e.pd)
SquareOf(R, n) == Len(R) = n /\ \A r \in 1..n : Len(R[r]) = n
MatrixDef(e, o) ==
  IF e.mode = "ans"
  THEN \* adaptive neighbourhood: symmetric, every state has at least pn other neighbours
       /\ IsSymM(o.R)
       /\ (e.pn <= Len(o.R) - 1 => \A r \in 1..Len(o.R) : RowSumOff(o.R, r) >= e.pn)
  ELSE IF e.mode = "tstd" THEN AgreesUpToTies(o.R, RecStd(e.metric, Traj(e), e.s, e.pn, e.pd))
  ELSE o.R = ExpR(e)
\* local rate: rows whose cut is tie-free have the same number of recurrences
EqualLocal(e, o) == e.mode = "lrr" =>
  LET X == Traj(e)  n == Len(X)  k == (e.pn * (n - 1)) \div e.pd
  IN \A r \in 1..n : TieFreeRow(e.metric, X, r, e.pn, e.pd) =>
        Sum(LAMBDA j : o.R[r][j], 1..n) = k
RateDef(o) == Close(o.rr, FxDiv(Total(o.R), Len(o.R) * Len(o.R), 1000000), Tol)
\* every RQA method is applicable: histograms of the right length and equal to the
\* run-length count of the reported matrix (diagonal lines only for symmetric matrices:
\* the non-symmetric case is C08's known finding)
LinesOK(l, R, mv) ==
  /\ l.exc = ""
  /\ Len(l.vert) = Len(R) /\ Len(l.diag) = Len(R) /\ Len(l.white) = Len(R)
  /\ (IsSymM(R) => l.diag = DiagHist(R, mv))
  /\ (IsSymM(R) => l.vert = VertHist(R, mv, 1))
  /\ (IsSymM(R) => l.white = VertHist(R, Zeros(Len(R)), 0))
NetDef(e, o) == /\ o.adj = NoDiag(SubMat(o.R, MvE(e)))
                /\ o.directed = (IF e.mode = "lrr" THEN 1 ELSE 0)
RpTags(e) == e.kind \o "," \o e.mode \o (IF HasMv(e) THEN ",missing" ELSE "")
             \o (IF e.kind = "rp" /\ e.dim > 1 THEN ",embedded" ELSE "")
             \o (IF Len(Traj(e)) = 1 THEN ",single_state" ELSE "")
             \o (IF e.obs.via = 1 THEN ",via_setter" ELSE IF e.obs.via = 2 THEN ",there_and_back" ELSE "")
RpVerdict(e) ==
  LET R_(c, s) == <<"REJECT", c, s, RpTags(e)>>
      n == Len(Traj(e))
      p == e.obs.rp  q == e.obs.rn
  IN \* an adaptive neighbourhood larger than the number of other states is not defined
     IF e.mode = "ans" /\ e.pn > n - 1 THEN <<"ACCEPT", "", "", RpTags(e) \o ",undefined">>
     ELSE IF p.exc # "" THEN R_("Applicable", "RecurrencePlot." \o p.exc)
     ELSE IF q.exc # "" THEN R_("Applicable", "RecurrenceNetwork." \o q.exc)
     ELSE IF ~(SquareOf(p.R, n) /\ p.N = n) THEN R_("Sizes", "RecurrencePlot.N/R")
     ELSE IF ~SquareOf(q.R, n) THEN R_("Sizes", "RecurrenceNetwork.R")
     \* from here on every clause is evaluated and every failing site is named (a listed finding at one site
     \* does not hide another)
     ELSE LET f == (IF ~MatrixDef(e, p) THEN {"MatrixDef|RecurrencePlot.recurrence_matrix"} ELSE {})
                   \cup (IF ~MatrixDef(e, q) THEN {"MatrixDef|RecurrenceNetwork.recurrence_matrix"} ELSE {})
                   \cup (IF ~EqualLocal(e, p) THEN {"EqualLocal|set_fixed_local_recurrence_rate"} ELSE {})
                   \cup (IF ~RateDef(p) THEN {"RateDef|RecurrencePlot.recurrence_rate"} ELSE {})
                   \cup (IF ~NetDef(e, q) THEN {"NetDef|RecurrenceNetwork.adjacency"} ELSE {})
                   \cup (IF ~LinesOK(p.lines, p.R, MvE(e)) THEN {"RQAApplicable|RecurrencePlot:" \o p.lines.exc} ELSE {})
                   \cup (IF ~(q.N = Len(q.R)) THEN {"Sizes|RecurrenceNetwork.N"} ELSE {})
                   \cup (IF ~LinesOK(q.lines, q.R, MvE(e)) THEN {"RQAApplicable|RecurrenceNetwork:" \o q.lines.exc} ELSE {})
          IN IF f = {} THEN <<"ACCEPT", "", "", RpTags(e)>> ELSE R_("Multi", JoinSet(f))

\* ---- cross and inter-system ----------------------------------------------------
XT(e, s, tau) == IF e.emb = 1 THEN Embed(s, 2, tau) ELSE Scalar(s)
RecOf(e, A, B) == IF e.mode = "thr"
                  THEN RecFixed(e.metric, A, B, Zeros(Len(A)), Zeros(Len(B)), 1, e.pn, e.pd)
                  ELSE RecRate(e.metric, A, B, e.pn, e.pd)
XTags(e) == "x," \o e.mode \o (IF e.emb = 1 THEN ",embedded" ELSE "")
            \o (IF e.taux # e.tauy THEN ",unequal_delays" ELSE "")
XLinesOK(c) ==
  \/ c.xl.exc = "NotImplementedError"
  \/ /\ c.xl.exc = ""
     /\ (HistHolds(c.xl.diag, XDiagLens(c.CR, TRUE)) \/ HistHolds(c.xl.diag, XDiagLens(c.CR, FALSE)))
     /\ \/ HistHolds(c.xl.vert, XColLens(c.CR, 1)) /\ HistHolds(c.xl.white, XColLens(c.CR, 0))
        \/ HistHolds(c.xl.vert, XRowLens(c.CR, 1)) /\ HistHolds(c.xl.white, XRowLens(c.CR, 0))
XVerdict(e) ==
  LET R_(c, s) == <<"REJECT", c, s, XTags(e)>>
      \* the cross plot embeds both series with its single delay, the inter-system network each with its own
      CX == XT(e, e.x, e.ctau)  CY == XT(e, e.y, e.ctau)
      X == XT(e, e.x, e.taux)  Y == XT(e, e.y, e.tauy)
      c == e.obs.crp  n == e.obs.isrn
  IN IF c.exc # "" THEN R_("Applicable", "CrossRecurrencePlot:" \o c.exc)
     ELSE IF ~(c.N = Len(CX) /\ c.M = Len(CY) /\ Len(c.CR) = Len(CX)
               /\ \A r \in 1..Len(CX) : Len(c.CR[r]) = Len(CY)) THEN R_("Sizes", "CrossRecurrencePlot.N/M/CR")
     ELSE IF c.CR # RecOf(e, CX, CY) THEN R_("MatrixDef", "CrossRecurrencePlot.recurrence_matrix")
     ELSE IF ~Close(c.crr, FxDiv(Total(c.CR), Len(CX) * Len(CY), 1000000), Tol)
          THEN R_("RateDef", "cross_recurrence_rate")
     \* (without embedding the cross plot keeps the series in double precision, where the level 2^27 is exact; the
     \* embedding is stored in single precision, which cannot hold such a level - nothing is demanded there)
     ELSE IF e.emb = 0 /\ c.CRfar # c.CR THEN R_("Translation", "CrossRecurrencePlot.recurrence_matrix(level 2^27)")
     \* line statistics of a cross plot: refused as not implemented, or - where offered - the run-length counts of
     \* the reported matrix (all diagonals, with or without the one of offset 0; vertical = along either axis, the
     \* orientation is not documented)
     ELSE IF ~XLinesOK(c) THEN R_("RQAApplicable", "CrossRecurrencePlot.diagline_dist/vertline_dist/white_vertline_dist:" \o c.xl.exc)
     ELSE IF n.exc # "" THEN R_("Applicable", "InterSystemRecurrenceNetwork:" \o n.exc)
     ELSE IF ~(n.Nx = Len(X) /\ n.Ny = Len(Y) /\ n.N = Len(X) + Len(Y)) THEN R_("Sizes", "InterSystemRecurrenceNetwork.N_x/N_y/N")
     ELSE IF n.adj # NoDiag(InterSystem(RecOf(e, X, X), RecOf(e, Y, Y), RecOf(e, X, Y)))
          THEN R_("Composition", "InterSystemRecurrenceNetwork.adjacency")
     ELSE <<"ACCEPT", "", "", XTags(e)>>

\* ---- joint ------------------------------------------------------------------------
\* each series is embedded with its own dimension (delay 1) and both are pruned to the shorter number of states
JEmb(s, d) == IF d = 1 THEN Scalar(s) ELSE Embed(s, d, 1)
JLen(e) == Min2(Len(JEmb(e.x, e.dx)), Len(JEmb(e.y, e.dy)))
JTraj(e, s, d) == SubSeq(JEmb(s, d), 1, JLen(e))
\* (mode tstd: the threshold is pn/pd times the standard deviation of the WHOLE series s as given; a pair exactly at
\* the threshold is marked 2 - the floating-point comparison may go either way)
JRec(e, T, s, metric, pn, pd) ==
  IF e.mode = "thr" THEN RecFixed(metric, T, T, Zeros(Len(T)), Zeros(Len(T)), 1, pn, pd)
  ELSE IF e.mode = "tstd" THEN RecStd(metric, T, s, pn, pd)
  ELSE RecRate(metric, T, T, pn, pd)
JointTie(RX, RY, lag) ==
  LET n == Len(RX)  a == Abs(lag)
      C(u, v) == IF u = 0 \/ v = 0 THEN 0 ELSE IF u = 1 /\ v = 1 THEN 1 ELSE 2
  IN [p \in 1..(n - a) |-> [q \in 1..(n - a) |->
       IF lag >= 0 THEN C(RX[p][q], RY[p + a][q + a]) ELSE C(RY[p][q], RX[p + a][q + a])]]
ExpJR(e) == JointTie(JRec(e, JTraj(e, e.x, e.dx), e.x, e.mx, e.p1n, e.p1d),
                     JRec(e, JTraj(e, e.y, e.dy), e.y, e.my, e.p2n, e.p2d), e.lag)
JTags(e) == "j," \o e.mode \o (IF e.lag # 0 THEN ",lag" ELSE "")
            \o (IF JLen(e) - Abs(e.lag) = 1 THEN ",single_state" ELSE "")
            \o (IF e.dx + e.dy > 2 THEN ",embedded" ELSE "") \o (IF e.mx # e.my THEN ",two_metrics" ELSE "")
JOne(e, o, name, net) ==
  LET n == JLen(e) - Abs(e.lag) IN
  IF o.exc # "" THEN <<"Applicable", name \o ":" \o o.exc>>
  ELSE IF ~SquareOf(o.JR, n) THEN <<"Sizes", name \o ".JR">>
  ELSE IF ~AgreesUpToTies(o.JR, ExpJR(e)) THEN <<"Composition", name \o ".recurrence_matrix">>
  ELSE IF o.N # n THEN <<"Sizes", name \o ".N">>
  ELSE IF net /\ o.adj # NoDiag(o.JR) THEN <<"NetDef", name \o ".adjacency">>
  ELSE IF ~LinesOK(o.lines, o.JR, Zeros(n)) THEN <<"RQAApplicable", name \o ":" \o o.lines.exc>>
  ELSE IF ~Close(o.rr, FxDiv(Total(o.JR), n * n, 1000000), Tol) THEN <<"RateDef", name \o ".recurrence_rate">>
  ELSE <<"", "">>
JVerdict(e) ==
  LET a == JOne(e, e.obs.jrp, "JointRecurrencePlot", FALSE)
      b == JOne(e, e.obs.jrn, "JointRecurrenceNetwork", TRUE)
  IN IF a[1] # "" THEN <<"REJECT", a[1], a[2], JTags(e)>>
     ELSE IF b[1] # "" THEN <<"REJECT", b[1], b[2], JTags(e)>>
     ELSE <<"ACCEPT", "", "", JTags(e)>>

Verdict(e) == IF e.kind = "rp" \/ e.kind = "rp2" THEN RpVerdict(e)
              ELSE IF e.kind = "x" THEN XVerdict(e) ELSE JVerdict(e)
\* all verdicts, evaluated once at constant level (TLC caches LET definitions only there)
Verdicts == TLCEval([k \in 1..Len(Trace) |-> Verdict(Trace[k])])
Init == i = 1
Next == /\ i <= Len(Trace)
        /\ LET v == Verdicts[i]
           IN PrintT(<<"V", Trace[i].case, v[1], v[2], v[3], v[4]>>)
        /\ i' = i + 1
=============================================================================
