------------------------------ MODULE Val_C08 ------------------------------
(* VAL for C08: recorded RQA line statistics against Defs_Lines.              *)
(* Record: blk = "craft" (R prescribed by GEN, realised through CraftSeries)   *)
(* or "rand" (seeded dyadic series; R is the recorded matrix).  mat = the      *)
(* observation in matrix mode, seq = in sequential (sparse_rqa) mode.          *)
EXTENDS Defs_Lines, TLC, Json, IOUtils

Trace == ndJsonDeserialize(IOEnv.TRACE_FILE)
VARIABLE i

IsSym(R) == \A a \in 1..Len(R) : \A b \in 1..Len(R) : R[a][b] = R[b][a]
\* matrix the statistics refer to: rows/columns of missing states are cleared
Masked(R, mv) == [a \in 1..Len(R) |-> [b \in 1..Len(R) |->
                    IF mv[a] = 1 \/ mv[b] = 1 THEN 0 ELSE R[a][b]]]
Mv(e) == IF e.mvflag = 1 THEN e.mv ELSE NoMv(Len(e.mv))
Small(e) == e.n <= 6
Tol(e) == IF Small(e) THEN 20 ELSE 3000

Crafted(e) == e.blk = "craft" => e.mat.R = Masked(e.R, e.mv)
Rm(e) == e.mat.R

DiagDef(e) == LET h == IF Small(e) THEN DiagHistDecl(Rm(e), Mv(e)) ELSE DiagHist(Rm(e), Mv(e))
              IN e.mat.diag = h
VertDef(e) == LET h == IF Small(e) THEN VertHistDecl(Rm(e), Mv(e), 1) ELSE VertHist(Rm(e), Mv(e), 1)
              IN e.mat.vert = h
\* for a non-symmetric matrix the property does not say whether "vertical" runs along
\* the first or the second index: either reading is accepted
VertDefNonSym(e) == \/ e.mat.vert = VertHist(Rm(e), Mv(e), 1)
                    \/ e.mat.vert = VertHistCols(Rm(e), Mv(e), 1)
WhiteDef(e) == IF IsSym(Rm(e))
               THEN e.mat.white = (IF Small(e) THEN VertHistDecl(Rm(e), NoMv(e.n), 0)
                                   ELSE VertHist(Rm(e), NoMv(e.n), 0))
               ELSE \/ e.mat.white = VertHist(Rm(e), NoMv(e.n), 0)
                    \/ e.mat.white = VertHistCols(Rm(e), NoMv(e.n), 0)
Conservation(e) == e.mvflag = 0 =>
   /\ Mass(e.mat.diag) = OffDiagBlack(Rm(e))
   /\ Mass(e.mat.vert) = Points(Rm(e), 1)
   /\ Mass(e.mat.white) = Points(Rm(e), 0)
SeqEqMatrix(e) == e.hasseq = 1 => (e.seq.diag = e.mat.diag /\ e.seq.vert = e.mat.vert)

\* scalar measures are the stated functions of the (recorded) histograms
ScalarsOf(o, n, tol, white, nomv) ==
  /\ o.maxd = MaxLen(o.diag) /\ o.maxv = MaxLen(o.vert)
  /\ \A lm \in 1..3 :
       /\ Close(o.sc.det[lm], Fraction(o.diag, lm), tol)
       /\ Close(o.sc.L[lm], AvgLen(o.diag, lm), tol)
       /\ Close(o.sc.dent[lm], Entropy(o.diag, lm), tol)
       /\ Close(o.sc.lam[lm], Fraction(o.vert, lm), tol)
       /\ Close(o.sc.tt[lm], AvgLen(o.vert, lm), tol)
       /\ Close(o.sc.trap[lm], o.sc.tt[lm], 0)
       /\ Close(o.sc.vent[lm], Entropy(o.vert, lm), tol)
       /\ white => /\ Close(o.sc.mrt[lm], AvgLen(o.white, lm), tol)
                   /\ Close(o.sc.mrt2[lm], o.sc.mrt[lm], 0)
                   /\ Close(o.sc.went[lm], Entropy(o.white, lm), tol)
  /\ white => o.maxw = MaxLen(o.white)
  \* the summary is the four measures with the minimal lengths it was asked for (l_min = 3, v_min = 1)
  /\ o.summary_keys = <<"DET", "L", "LAM", "RR">>
  /\ Close(o.summary[1], o.rr, 0) /\ Close(o.summary[2], o.sc.det[3], 0)
  /\ Close(o.summary[3], o.sc.L[3], 0) /\ Close(o.summary[4], o.sc.lam[1], 0)
  \* without missing states every recurrence point lies on exactly one vertical line
  /\ nomv => Close(o.rr, FxDiv(Mass(o.vert), n * n, S6), tol)
Scalars(e) == /\ ScalarsOf(e.mat, e.n, Tol(e), TRUE, e.mvflag = 0)
              /\ e.hasseq = 1 => ScalarsOf(e.seq, e.n, Tol(e), FALSE, e.mvflag = 0)
\* probability that the trajectory recurs after `lag` steps: the mean of the lag-th diagonal of R
RProbDef(e) == \A lag \in 0..(Len(e.mat.rprob) - 1) :
   Close(e.mat.rprob[lag + 1], FxDiv(SumN(LAMBDA k : Rm(e)[k][k + lag], 1, e.n - lag), e.n - lag, S6), Tol(e))
RRDef(e) == Close(e.mat.rr, FxDiv(Points(Rm(e), 1), e.n * e.n, S6), Tol(e))

Tags(e) == e.blk \o (IF e.mvflag = 1 THEN ",missing" ELSE "")
           \o (IF e.mat.exc = "" /\ ~IsSym(e.mat.R) THEN ",nonsymmetric" ELSE "")
           \o (IF e.n = 1 THEN ",single_state" ELSE "")
           \* the specific wrong behaviour of known finding C08-diag-nonsymmetric: the
           \* histogram is twice the count over the lower triangle only
           \o (IF e.mat.exc = "" /\ ~IsSym(e.mat.R) /\ Len(e.mat.diag) = e.n
                  /\ e.mat.diag = [l \in 1..e.n |-> 2 * LowerDiagHist(e.mat.R, Mv(e))[l]]
               THEN ",diag_twice_lower_triangle" ELSE "")
\* resampling M lines from a histogram leaves the histogram alone and returns M lines (none if there is no line)
StableAfterResampling(o) ==
  /\ o.diag2 = o.diag /\ o.vert2 = o.vert /\ o.maxd2 = o.maxd /\ o.maxv2 = o.maxv
  /\ o.rs_mass[1] = (IF o.maxd = 0 THEN 0 ELSE 7) /\ o.rs_mass[2] = (IF o.maxv = 0 THEN 0 ELSE 7)
R_(clause, site, e) == <<"REJECT", clause, site, Tags(e)>>
Verdict(e) ==
  IF e.mat.exc # "" THEN R_("Applicable", e.mat.exc, e)
  ELSE IF e.hasseq = 1 /\ e.seq.exc # "" THEN R_("Applicable", "sequential:" \o e.seq.exc, e)
  ELSE IF ~(Len(e.mat.R) = e.n /\ Len(e.mat.diag) = e.n /\ Len(e.mat.vert) = e.n
            /\ Len(e.mat.white) = e.n) THEN R_("Shape", "histogram length", e)
  \* from here on every clause is evaluated and every failing site is named (the recorded finding about diagonal
  \* lines of non-symmetric matrices does not hide the other clauses of the same case)
  ELSE LET f == (IF ~Crafted(e) THEN {"Crafted|recurrence_matrix"} ELSE {})
                \cup (IF ~IsSym(Rm(e)) /\ ~VertDefNonSym(e) THEN {"VertDef|vertline_dist"} ELSE {})
                \cup (IF IsSym(Rm(e)) /\ ~VertDef(e) THEN {"VertDef|vertline_dist"} ELSE {})
                \cup (IF ~DiagDef(e) THEN {"DiagDef|diagline_dist"} ELSE {})
                \cup (IF ~WhiteDef(e) THEN {"WhiteDef|white_vertline_dist"} ELSE {})
                \cup (IF ~Conservation(e) THEN {"Conservation|line mass"} ELSE {})
                \cup (IF ~SeqEqMatrix(e) THEN {"SeqEqMatrix|sparse_rqa"} ELSE {})
                \cup (IF ~RRDef(e) THEN {"RRDef|recurrence_rate"} ELSE {})
                \cup (IF ~Scalars(e) THEN {"Scalars|rqa measures"} ELSE {})
                \cup (IF ~RProbDef(e) THEN {"Scalars|recurrence_probability"} ELSE {})
                \cup (IF ~StableAfterResampling(e.mat) THEN {"Stable|line distributions after resample_*line_dist"} ELSE {})
                \cup (IF e.hasseq = 1 /\ ~StableAfterResampling(e.seq)
                      THEN {"Stable|line distributions after resample_*line_dist (sequential)"} ELSE {})
       IN IF f = {} THEN <<"ACCEPT", "", "", Tags(e)>> ELSE R_("Multi", JoinSet(f), e)

\* all verdicts, evaluated once at constant level (TLC caches LET definitions only there)
Verdicts == TLCEval([k \in 1..Len(Trace) |-> Verdict(Trace[k])])
Init == i = 1
Next == /\ i <= Len(Trace)
        /\ LET v == Verdicts[i]
           IN PrintT(<<"V", Trace[i].case, v[1], v[2], v[3], v[4]>>)
        /\ i' = i + 1
=============================================================================
