----------------------------- MODULE Val_C08long -----------------------------
(* VAL for C08 on LONG lines (beyond 127 / 255 points): recurrence plots and cross recurrence plots of     *)
(* series with long plateaus; the recorded histograms against the run-length scan of Defs_Lines on the       *)
(* recorded matrix (the scan is proved equal to the declarative definition of maximal runs by MC_Lines).      *)
(* A cross plot may refuse line statistics as not implemented; where it offers them they are the counts of    *)
(* the reported matrix (all diagonals with or without offset 0; vertical along either axis).                   *)
EXTENDS Defs_Lines, TLC, Json, IOUtils
Trace == ndJsonDeserialize(IOEnv.TRACE_FILE)
VARIABLE i
\* (the three histograms are evaluated ONCE - Strict - and then compared: TLC would otherwise re-evaluate a LET
\* definition at every reference)
RpFails(e) ==
  LET o == e.obs  n == Len(o.R)  z == NoMv(n) IN
  Strict(<<DiagHist(o.R, z), VertHist(o.R, z, 1), VertHist(o.R, z, 0)>>, LAMBDA h :
    Strict(<<MaxLen(h[1]), MaxLen(h[2]), MaxLen(h[3])>>, LAMBDA m :
      (IF o.diag # h[1] THEN {"CountsDef|diagline_dist(long lines)"} ELSE {})
      \cup (IF o.vert # h[2] THEN {"CountsDef|vertline_dist(long lines)"} ELSE {})
      \cup (IF o.white # h[3] THEN {"CountsDef|white_vertline_dist(long lines)"} ELSE {})
      \cup (IF o.maxd # m[1] \/ o.maxv # m[2] \/ o.maxw # m[3]
            THEN {"MaxDef|max_diaglength/max_vertlength/max_white_vertlength(long lines)"} ELSE {})))
XFails(e) ==
  LET o == e.obs IN
  IF o.lexc = "NotImplementedError" THEN {}
  ELSE IF o.lexc # "" THEN {"RQAApplicable|CrossRecurrencePlot:" \o o.lexc}
  ELSE (IF ~(HistHolds(o.diag, XDiagLens(o.R, TRUE)) \/ HistHolds(o.diag, XDiagLens(o.R, FALSE)))
        THEN {"CountsDef|CrossRecurrencePlot.diagline_dist(long lines)"} ELSE {})
       \cup (IF ~(\/ HistHolds(o.vert, XColLens(o.R, 1)) /\ HistHolds(o.white, XColLens(o.R, 0))
                  \/ HistHolds(o.vert, XRowLens(o.R, 1)) /\ HistHolds(o.white, XRowLens(o.R, 0)))
             THEN {"CountsDef|CrossRecurrencePlot.vertline_dist/white_vertline_dist(long lines)"} ELSE {})
Tags(e) == e.kind \o ",plateau" \o ToString(e.L)
Verdict(e) == IF e.obs.exc # "" THEN <<"REJECT", "Applicable", e.obs.exc, Tags(e)>>
              ELSE LET f == IF e.kind = "crp" THEN XFails(e) ELSE RpFails(e) IN
                   IF f = {} THEN <<"ACCEPT", "", "", Tags(e)>> ELSE <<"REJECT", "Multi", JoinSet(f), Tags(e)>>
Init == i = 1
Next == /\ i <= Len(Trace)
        /\ LET v == Verdict(Trace[i]) IN PrintT(<<"V", Trace[i].case, v[1], v[2], v[3], v[4]>>)
        /\ i' = i + 1
=============================================================================
