------------------------------ MODULE Val_C09 ------------------------------
(* VAL for C09: a recorded history of a ClimateNetwork is replayed through     *)
(* ClimateSM; each observation is checked against the abstract state.          *)
EXTENDS ClimateSM, TLC, Json, IOUtils

Trace == ndJsonDeserialize(IOEnv.TRACE_FILE)
VARIABLES i, l, st
Tol == 5

AbsM(S) == [a \in 1..Len(S) |-> [b \in 1..Len(S) |-> Abs(S[a][b])]]
\* local links suppressed: the documented weight 0.5 (tanh(20 (d - 0.05)) + 1) lies in (0.2, 0.3) for the
\* near pairs of the harness' grids (1 - 1.5 degrees apart) and above 0.98 for all others (>= 30 degrees)
NonLocalDef(S, thr6, adj, near) ==
  \A p \in OffDiag(Len(S)) :
    LET s6 == S[p[1]][p[2]] * 250000  isnear == \E k \in 1..Len(near) : near[k] = <<p[1], p[2]>> IN
    IF isnear THEN /\ (s6 * 2 > 10 * thr6 => adj[p[1]][p[2]] = 1)
                   /\ (s6 * 3 < 10 * thr6 => adj[p[1]][p[2]] = 0)
    ELSE /\ ((s6 \div 50) * 49 > thr6 => adj[p[1]][p[2]] = 1)
         /\ (s6 <= thr6 => adj[p[1]][p[2]] = 0)
Observe(rec, s, o) ==
  LET S == AbsM(rec.S4)  N == Len(S)  E == Links(o.adj) IN
  IF o.exc # "" THEN <<"Applicable", o.exc>>
  ELSE IF ~(Len(o.adj) = N /\ ZeroDiag(o.adj) /\ (rec.directed = 0 => IsSym(o.adj)))
       THEN <<"Structure", "adjacency">>
  ELSE IF o.n_links # (IF rec.directed = 1 THEN E ELSE E \div 2) THEN <<"Consistent", "n_links">>
  ELSE IF ~Close(o.ld, FxDiv(E, N * (N - 1), 1000000), Tol) THEN <<"Consistent", "link_density">>
  ELSE IF o.nl # s.nl THEN <<"Consistent", "non_local">>
  ELSE IF s.thr # UNKNOWN /\ o.thr # s.thr THEN <<"Consistent", "threshold">>
  ELSE IF o.nl = 0 /\ o.adj # ThresholdAdj(S, o.thr) THEN <<"LinkDef", "adjacency">>
  ELSE IF o.nl = 1 /\ ~Subset(o.adj, ThresholdAdj(S, o.thr)) THEN <<"NonLocalSubset", "adjacency">>
  ELSE IF o.nl = 1 /\ o.thr >= 0 /\ ~NonLocalDef(S, o.thr, o.adj, rec.near) THEN <<"NonLocalDef", "adjacency">>
  ELSE IF s.rho # <<>> /\ o.nl = 0 /\ ~DensityBound(S, s.rho[1], s.rho[2], o.thr, o.adj)
       THEN <<"DensityBound", "set_link_density">>
  ELSE IF s.rho # <<>> /\ o.nl = 1 /\ ~(E * s.rho[2] <= s.rho[1] * N * (N - 1))
       THEN <<"DensityBound", "set_link_density(non_local)">>
  ELSE IF \E p \in s.seen : p[2] = o.nl /\ ((p[1] <= o.thr /\ ~Subset(o.adj, p[3]))
                                         \/ (p[1] >= o.thr /\ ~Subset(p[3], o.adj)))
       THEN <<"Monotone", "adjacency">>
  ELSE IF o.adj # o.twin.adj THEN <<"Functional", "adjacency">>
  ELSE IF o.n_links # o.twin.n_links \/ o.ld # o.twin.ld THEN <<"Functional", "n_links/link_density">>
  ELSE IF o.degree # o.twin.degree THEN <<"Functional", "degree">>
  ELSE IF o.m # o.twin.m THEN <<"Functional", "measures">>
  ELSE <<"", "">>

Rec == Trace[i]
DiagMax(S) == \A a \in 1..Len(S) : \A p \in OffDiag(Len(S)) : Abs(S[a][a]) >= Abs(S[p[1]][p[2]])
Tags(r) == (IF "kind" \in DOMAIN r THEN r.kind \o "," ELSE "") \o (IF r.directed = 1 THEN "directed," ELSE "")
           \o (IF ~DiagMax(r.S4) THEN "diag_not_max," ELSE "")
           \o "n" \o ToString(Len(r.S4))
Init == i = 1 /\ l = 1 /\ st = Init0
NextCase == i' = i + 1 /\ l' = 1 /\ st' = Init0
Adv(s) == st' = s /\ l' = l + 1 /\ i' = i
Next ==
  /\ i <= Len(Trace)
  /\ IF l > Len(Rec.events)
     THEN PrintT(<<"V", Rec.case, "ACCEPT", "", "", Tags(Rec)>>) /\ NextCase
     ELSE LET ev == Rec.events[l] IN
          IF ev.op = "construct"
          THEN Adv([(IF ev.by = "threshold" THEN SetThreshold(Init0, ev.n, ev.d)
                     ELSE SetLinkDensity(Init0, ev.n, ev.d)) EXCEPT !.nl = ev.nl])
          ELSE IF ev.op = "set_threshold" THEN Adv(SetThreshold(st, ev.n, ev.d))
          ELSE IF ev.op = "set_link_density" THEN Adv(SetLinkDensity(st, ev.n, ev.d))
          ELSE IF ev.op = "set_non_local" THEN Adv(SetNonLocal(st, ev.b))
          ELSE LET r == Observe(Rec, st, ev.obs) IN
               IF r[1] = ""
               THEN Adv([st EXCEPT !.thr = ev.obs.thr,
                                   !.seen = @ \cup {<<ev.obs.thr, ev.obs.nl, ev.obs.adj>>}])
               ELSE PrintT(<<"V", Rec.case, "REJECT", r[1], r[2] \o "@" \o Rec.events[l - 1].op, Tags(Rec)>>) /\ NextCase
=============================================================================
