------------------------------ MODULE Val_C09d ------------------------------
(* VAL for C09, data-driven subclasses (Tsonis, Hilbert, ...): histories of     *)
(* ObjectSM are replayed on the real class; after every step the object reports  *)
(* its similarity matrix S (times 10^6), threshold, adjacency, link count and     *)
(* density.  The similarity is real-valued here, so the link rule is decided up    *)
(* to a margin around the threshold:                                               *)
(*   LinkDef     |S_ab| > thr + margin => link,  |S_ab| < thr - margin => no link   *)
(*               (local links not suppressed; with non_local only the second half)  *)
(*   Structure   empty diagonal, symmetric unless directed                          *)
(*   Consistent  n_links / link_density agree with the adjacency                    *)
(*   DensityBound after set_link_density: realised links never exceed the request   *)
EXTENDS Integers, Sequences, FiniteSets, TLC, Fx, Json, IOUtils

Trace == ndJsonDeserialize(IOEnv.TRACE_FILE)
VARIABLE i
Margin == 5
Tol == 5
Links(A) == SumN(LAMBDA a : SumN(LAMBDA b : A[a][b], 1, Len(A)), 1, Len(A))
ObsFails(o, step) ==
  LET N == Len(o.adj)  E == Links(o.adj) IN
  IF o.exc # "" THEN {"Applicable|" \o o.exc \o "@" \o step}
  ELSE
  (IF \E a \in 1..N : o.adj[a][a] # 0 THEN {"Structure|diagonal@" \o step} ELSE {})
  \cup (IF o.directed = 0 /\ \E a \in 1..N : \E b \in 1..N : o.adj[a][b] # o.adj[b][a]
        THEN {"Structure|symmetry@" \o step} ELSE {})
  \cup (IF o.n_links # (IF o.directed = 1 THEN E ELSE E \div 2) THEN {"Consistent|n_links@" \o step} ELSE {})
  \cup (IF ~Close(o.ld, FxDiv(E, N * (N - 1), 1000000), Tol) THEN {"Consistent|link_density@" \o step} ELSE {})
  \cup (IF \E a \in 1..N : \E b \in 1..N : a # b /\ o.adj[a][b] = 1 /\ Abs(o.S6[a][b]) < o.thr - Margin
        THEN {"LinkDef|link below the threshold@" \o step} ELSE {})
  \* (a directed Hilbert network keeps only one direction of each pair above the threshold)
  \cup (IF o.nl = 0 /\ o.filtered = 0 /\ \E a \in 1..N : \E b \in 1..N :
             a # b /\ o.adj[a][b] = 0 /\ Abs(o.S6[a][b]) > o.thr + Margin
        THEN {"LinkDef|pair above the threshold not linked@" \o step} ELSE {})
  \cup (IF o.filtered = 1 /\ \E a \in 1..N : \E b \in 1..N :
             a # b /\ o.adj[a][b] = 0 /\ o.adj[b][a] = 0 /\ o.nl = 0 /\ Abs(o.S6[a][b]) > o.thr + Margin
             /\ o.phase[a][b] # 0
        THEN {"LinkDef|pair above the threshold not linked in either direction@" \o step} ELSE {})
  \cup (IF o.rho # <<>> /\ o.filtered = 0 /\ E * o.rho[2] > o.rho[1] * N * (N - 1)
        THEN {"DensityBound|set_link_density@" \o step} ELSE {})
  \* ... and miss it by at most the pairs tied at the selected value (here: within the margin of the threshold),
  \* the selected pair itself and rounding (3 ordered pairs)
  \cup (IF o.rho # <<>> /\ o.filtered = 0 /\ o.nl = 0 /\
           (E + 3 + Cardinality({p \in (1..N) \X (1..N) : p[1] # p[2] /\ Abs(Abs(o.S6[p[1]][p[2]]) - o.thr) <= Margin}))
              * o.rho[2] < o.rho[1] * N * (N - 1)
        THEN {"DensityMiss|set_link_density@" \o step} ELSE {})
  \* the threshold selected for a prescribed density is an order statistic of the CURRENT off-diagonal similarities,
  \* hence one of them
  \cup (IF o.rho # <<>> /\ ~\E a \in 1..N : \E b \in 1..N : a # b /\ Abs(Abs(o.S6[a][b]) - o.thr) <= Margin
        THEN {"QuantileDef|threshold is not a value of the similarity matrix@" \o step} ELSE {})
Verdict(e) ==
  LET f == UNION {ObsFails(e.steps[k].obs, e.steps[k].after) : k \in 1..Len(e.steps)} IN
  IF f = {} THEN <<"ACCEPT", "", "", e.family>> ELSE <<"REJECT", "Multi", JoinSet(f), e.family>>
Verdicts == TLCEval([k \in 1..Len(Trace) |-> Verdict(Trace[k])])
Init == i = 1
Next == /\ i <= Len(Trace)
        /\ LET v == Verdicts[i] IN PrintT(<<"V", Trace[i].case, v[1], v[2], v[3], v[4]>>)
        /\ i' = i + 1
=============================================================================
