------------------------------ MODULE Val_C10 ------------------------------
(* VAL for C10 (partial): recorded similarity / coupling estimates against the  *)
(* exact rational statistics of Defs_Coupling, plus relational clauses.          *)
EXTENDS Defs_Coupling, Json, IOUtils
Trace == ndJsonDeserialize(IOEnv.TRACE_FILE)
VARIABLE i
N == 3
Tol == 1500                       \* float32 kernels: 1.5e-3
Col(e, j) == Window(e.data, j, 1, e.T)
CCAllDef(e) == \A a \in 1..N : \A b \in 1..N : \A L \in 0..e.taumax :
   RIs(e.obs.all[a][b][L + 1], LagX(e.data, a, L, e.taumax), LagY(e.data, b, e.taumax))
\* value and lag at the absolute maximum: the lag belongs to the arg-max set (ties undecided)
CCMaxDef(e) == \A a \in 1..N : \A b \in 1..N : a # b =>
   LET L == e.obs.maxl[a][b]
       q(l) == RSq6(LagX(e.data, a, l, e.taumax), LagY(e.data, b, e.taumax))
   IN /\ L \in 0..e.taumax
      /\ \A l \in 0..e.taumax : q(L) >= q(l) - 6000
      /\ RIs(e.obs.maxv[a][b], LagX(e.data, a, L, e.taumax), LagY(e.data, b, e.taumax))
\* the pure-Python class: lag function k (0 .. 2 taumax) of the pair (a, b) is the Pearson correlation of the central
\* window of series a (rows taumax+1 .. T-taumax) with series b on the window starting at row k+1
PureAllDef(e) == (e.obs.pure_all # <<>>) =>
   LET R == e.T - 2 * e.taumax IN
   /\ Len(e.obs.pure_all) = 2 * e.taumax + 1
   /\ \A k \in 0..(2 * e.taumax) : \A a \in 1..N : \A b \in 1..N : a # b =>
        RIs(e.obs.pure_all[k + 1][a][b], Window(e.data, a, e.taumax + 1, e.taumax + R), Window(e.data, b, k + 1, k + R))
\* max mode and all mode agree
MaxIsAll(e) == \A a \in 1..N : \A b \in 1..N : a # b =>
   Close(e.obs.maxv[a][b], e.obs.all[a][b][e.obs.maxl[a][b] + 1], Tol)
SymDef(e) == \A a \in 1..N : \A b \in 1..N : a < b =>
   LET u == e.obs.maxv[a][b]  v == e.obs.maxv[b][a] IN
   /\ Close(e.obs.symv[a][b], e.obs.symv[b][a], 0)
   /\ (Abs(u) > Abs(v) + Tol => Close(e.obs.symv[a][b], u, Tol) /\ e.obs.syml[b][a] = -e.obs.maxl[a][b])
   /\ (Abs(v) > Abs(u) + Tol => Close(e.obs.symv[a][b], v, Tol) /\ e.obs.syml[a][b] = -e.obs.maxl[b][a])
Bounded(e) == \A a \in 1..N : \A b \in 1..N : \A L \in 0..e.taumax : Abs(e.obs.all[a][b][L + 1]) <= 1000000 + Tol
GaussDef(e) == "gauss" \notin DOMAIN e.obs.x => \A a \in 1..N : \A b \in 1..N : \A L \in 0..e.taumax :
   LET x == LagX(e.data, a, L, e.taumax)  y == LagY(e.data, b, e.taumax) IN
   (a # b /\ GaussMIDefined(x, y)) => Close(e.obs.gauss[a][b][L + 1], GaussMI6(x, y), 4000 + GaussMI6(x, y) \div 200)
PureAgrees(e) == e.taumax = 0 => \A a \in 1..N : \A b \in 1..N : Close(e.obs.pure0[a][b], e.obs.all[a][b][1], Tol)
\* (the climate classes store the ABSOLUTE similarity: sign is not compared)
AbsRIs(r6, x, y) == LET r3 == RDiv(r6, 1000) IN IsNum(r6) /\ Abs(r6) <= 2000000 /\ r6 >= -5 /\ Abs(r3 * r3 - RSq6(x, y)) <= 2 * Abs(r3) * 2 + 2500
TsonisDef(e) == \A a \in 1..N : \A b \in 1..N : (Var(Col(e, a)) > 0 /\ Var(Col(e, b)) > 0) =>
   AbsRIs(e.obs.tsonis[a][b], Col(e, a), Col(e, b)) /\ Close(e.obs.tsonis[a][b], e.obs.tsonis[b][a], 5)
SpearmanDef(e) == \A a \in 1..N : \A b \in 1..N : (Var(Col(e, a)) > 0 /\ Var(Col(e, b)) > 0) =>
   AbsRIs(e.obs.spearman[a][b], Rank2(Col(e, a)), Rank2(Col(e, b))) /\ Close(e.obs.spearman[a][b], e.obs.spearman[b][a], 5)
AffineInv(e) == \A a \in 1..N : \A b \in 1..N : \A L \in 0..e.taumax : Close(e.obs.all_aff[a][b][L + 1], e.obs.all[a][b][L + 1], Tol)
\* translation by a large offset (2^27: level-to-fluctuation ratio 10^8) changes nothing, in the compiled and in the pure-Python class
ShiftInv(e) == /\ \A a \in 1..N : \A b \in 1..N : \A L \in 0..e.taumax :
                     Close(e.obs.all_big[a][b][L + 1], e.obs.all[a][b][L + 1], Tol)
               /\ \A a \in 1..N : \A b \in 1..N : Close(e.obs.pure0_big[a][b], e.obs.pure0[a][b], Tol)
Perm == <<3, 1, 2>>               \* series k of the reordered data set is series Perm[k]
PermConsistent(e) == \A a \in 1..N : \A b \in 1..N : \A L \in 0..e.taumax :
   Close(e.obs.all_perm[a][b][L + 1], e.obs.all[Perm[a]][Perm[b]][L + 1], Tol)
\* surrogate test matrices: original = the data (series as rows), surrogate j = twice series j+1 advanced
\* by one step (so that the two arrays have different ranges)
Orig(e, a) == [t \in 1..e.T |-> e.data[t][a]]
Surr(e, b) == [t \in 1..e.T |-> 2 * e.data[(t % e.T) + 1][(b % N) + 1]]
AllVals(e) == UNION {{Orig(e, a)[t] : t \in 1..e.T} \cup {Surr(e, a)[t] : t \in 1..e.T} : a \in 1..N}
MinV(e) == CHOOSE v \in AllVals(e) : \A u \in AllVals(e) : v <= u
MaxV(e) == CHOOSE v \in AllVals(e) : \A u \in AllVals(e) : v >= u
TestPearsonDef(e) == \A a \in 1..N : \A b \in 1..N :
   Close(e.obs.tpear[a][b], IF a = b THEN 0 ELSE MeanProduct6(Orig(e, a), Surr(e, b)), Tol)
\* (bins are exact in floating point when the common range is a power of two: 1, 2 or 4 here)
TestMIDef(e, key, nb) == (MaxV(e) - MinV(e)) \in {1, 2, 4} => \A a \in 1..N : \A b \in 1..N :
   Close(e.obs[key][a][b], IF a = b THEN 0 ELSE BinnedMI6(Orig(e, a), Surr(e, b), MinV(e), MaxV(e), nb), Tol)
CovMat(e) == [a \in 1..N |-> [b \in 1..N |-> Cov(Col(e, a), Col(e, b))]]
PartialDef(e) == "partial" \notin DOMAIN e.obs.x => \A a \in 1..N : \A b \in 1..N :
   (a # b /\ PartialDefined(CovMat(e), a, b)) =>
   LET r3 == RDiv(e.obs.partial[a][b], 1000) IN
   /\ e.obs.partial[a][b] >= -5
   /\ Abs(r3 * r3 - PartialSq6(CovMat(e), a, b)) <= 2 * Abs(r3) * 2 + 2500
   /\ Close(e.obs.partial[a][b], e.obs.partial[b][a], 5)
\* binned mutual information of MutualInfoClimateNetwork: symmetric, the same for the same pair of series
\* whatever their position in the data set (reordered data), equal series have equal scores, non-negative
MIRelations(e) == ("mi" \notin DOMAIN e.obs.x /\ "mi_perm" \notin DOMAIN e.obs.x) =>
   /\ \A a \in 1..N : \A b \in 1..N : Close(e.obs.mi[a][b], e.obs.mi[b][a], Tol)
   /\ \A a \in 1..N : \A b \in 1..N : Close(e.obs.mi_perm[a][b], e.obs.mi[Perm[a]][Perm[b]], Tol)
   /\ \A a \in 1..N : \A b \in 1..N : \A c \in 1..N :
         (a # b /\ c # a /\ c # b /\ Col(e, a) = Col(e, b)) => Close(e.obs.mi[a][c], e.obs.mi[b][c], Tol)
   /\ \A a \in 1..N : \A b \in 1..N : IsNum(e.obs.mi[a][b]) => e.obs.mi[a][b] >= -Tol
\* binned mutual information (2 aequi-quantile bins) on the lagged windows of M = T - tau_max samples:
\* BinnedMIDef - the statistic itself (numerator / M); BinnedMIScale - what the library is pinned to by its
\* own test (numerator / T, i.e. the statistic times M / T: the same for tau_max = 0)
BinMIWith(e, den) == "bin2" \notin DOMAIN e.obs.x => \A a \in 1..N : \A b \in 1..N : \A L \in 0..e.taumax :
   a # b => Close(e.obs.bin2[a][b][L + 1],
                  RDiv(QuantileMINumerator(LagX(e.data, a, L, e.taumax), LagY(e.data, b, e.taumax), 2), den), Tol)
\* lag_mode = "max" of mutual_information: the value is the largest entry of the lag function (not below 0,
\* where the search starts) and the lag points at an entry with that value
MIMaxIsAll(e, all, mx) == (all \notin DOMAIN e.obs.x /\ mx \notin DOMAIN e.obs.x /\ e.obs[mx] # <<>>) =>
   \A a \in 1..N : \A b \in 1..N : a # b =>
     LET f == e.obs[all][a][b]  v == e.obs[mx][1][a][b]  l == e.obs[mx][2][a][b]
         nums == {f[k] : k \in {kk \in 1..Len(f) : IsNum(f[kk])}}
         top == IF nums = {} THEN 0 ELSE Max2(0, CHOOSE t \in nums : \A u \in nums : t >= u)
     IN (\A k \in 1..Len(f) : IsNum(f[k]) /\ f[k] < 1500000000) =>
          /\ Close(v, top, Tol)
          /\ (top > Tol => l \in 0..e.taumax /\ Close(f[l + 1], top, Tol))
Checks(e) == <<
  <<"MaxIsAll|mutual_information(binning)", MIMaxIsAll(e, "bin2", "bin2max")>>,
  <<"MaxIsAll|mutual_information(gauss)", MIMaxIsAll(e, "gauss", "gaussmax")>>,
  <<"BinnedMIScale|mutual_information(binning)", BinMIWith(e, e.T)>>,
  <<"BinnedMIDef|mutual_information(binning)", BinMIWith(e, e.T - e.taumax)>>,
  <<"Relations|MutualInfoClimateNetwork.similarity_measure", MIRelations(e)>>,
  <<"PartialCorrDef|PartialCorrelationClimateNetwork.similarity_measure", PartialDef(e)>>,
  \* data flagged "already anomalies" (not centred): the correlation statistics are the same
  <<"AnomaliesFlag|climate similarity classes on data flagged as anomalies",
    /\ ("tsonis" \in DOMAIN e.obs.x) = ("tsonis_anom" \in DOMAIN e.obs.x)
    /\ ("partial" \in DOMAIN e.obs.x) = ("partial_anom" \in DOMAIN e.obs.x)
    /\ ("tsonis_anom" \notin DOMAIN e.obs.x => CloseMat(e.obs.tsonis_anom, e.obs.tsonis, 5))
    /\ ("spearman_anom" \notin DOMAIN e.obs.x => CloseMat(e.obs.spearman_anom, e.obs.spearman, 5))
    /\ ("partial_anom" \notin DOMAIN e.obs.x =>
            \A a \in 1..N : \A b \in 1..N : (a # b /\ PartialDefined(CovMat(e), a, b)) =>
                 Close(e.obs.partial_anom[a][b], e.obs.partial[a][b], 50))>>,
  <<"MeanProductDef|Surrogates.test_pearson_correlation", TestPearsonDef(e)>>,
  <<"BinnedMIDef|Surrogates.test_mutual_information(2)", TestMIDef(e, "tmi2", 2)>>,
  <<"BinnedMIDef|Surrogates.test_mutual_information(4)", TestMIDef(e, "tmi4", 4)>>,
  <<"CCDef|cross_correlation(all)", CCAllDef(e)>>, <<"CCDef|cross_correlation(max)", CCMaxDef(e)>>,
  <<"Repeatable|cross_correlation(after symmetrize_by_absmax)",
    e.obs.maxv2 = e.obs.maxv /\ e.obs.maxl2 = e.obs.maxl /\ e.obs.all2 = e.obs.all>>,
  <<"MaxIsAll|cross_correlation", MaxIsAll(e)>>, <<"SymDef|symmetrize_by_absmax", SymDef(e)>>,
  <<"Bounded|cross_correlation", Bounded(e)>>, <<"GaussMIDef|mutual_information(gauss)", GaussDef(e)>>,
  <<"ImplementationsAgree|CouplingAnalysisPurePython.cross_correlation", PureAgrees(e)>>,
  <<"CCDef|CouplingAnalysisPurePython.cross_correlation(all)", PureAllDef(e)>>,
  <<"PearsonDef|TsonisClimateNetwork.correlation", TsonisDef(e)>>,
  <<"SpearmanDef|SpearmanClimateNetwork.similarity_measure", SpearmanDef(e)>>,
  <<"AffineInv|cross_correlation", AffineInv(e)>>, <<"ShiftInv|cross_correlation(offset 2^27)", ShiftInv(e)>>, <<"PermConsistent|cross_correlation", PermConsistent(e)>> >>
Constant(e) == \E j \in 1..N : Var(Col(e, j)) = 0
Tags(e) == "T" \o ToString(e.T) \o ",tau" \o ToString(e.taumax) \o (IF Constant(e) THEN ",constant_series" ELSE "")
           \o (IF e.taumax > 0 THEN ",lagged" ELSE "") \o (IF e.hist = 1 THEN ",history" ELSE "")
\* the Gaussian estimator is undefined (singular covariance) when a window is constant or two
\* windows are perfectly correlated
GaussUndefined(e) == \E a \in 1..N : \E b \in 1..N : \E L \in 0..e.taumax :
   LET x == LagX(e.data, a, L, e.taumax)  y == LagY(e.data, b, e.taumax) IN
   a # b /\ (Var(x) = 0 \/ Var(y) = 0 \/ Var(x) * Var(y) = Cov(x, y) * Cov(x, y))
Verdict(e) ==
  \* (with a constant series the correlation matrix has no inverse: the partial correlation is undefined)
  IF DOMAIN e.obs.x \ ((IF GaussUndefined(e) THEN {"gauss", "gaussmax"} ELSE {}) \cup (IF Constant(e) THEN {"partial", "partial_anom"} ELSE {})
                     \* (all series constant: no common range to bin)
                     \cup (IF \A j \in 1..N : Var(Col(e, j)) = 0 THEN {"mi", "mi_perm"} ELSE {})) # {} THEN <<"REJECT", "Applicable", JoinSet({k \o ":" \o e.obs.x[k] : k \in DOMAIN e.obs.x}), Tags(e)>>
  ELSE LET f == FailsOf(Checks(e), "") IN
       IF f = {} THEN <<"ACCEPT", "", "", Tags(e)>> ELSE <<"REJECT", "Multi", JoinSet(f), Tags(e)>>
Verdicts == TLCEval([k \in 1..Len(Trace) |-> Verdict(Trace[k])])
Init == i = 1
Next == /\ i <= Len(Trace)
        /\ LET v == Verdicts[i] IN PrintT(<<"V", Trace[i].case, v[1], v[2], v[3], v[4]>>)
        /\ i' = i + 1
=============================================================================
