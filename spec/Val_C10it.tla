----------------------------- MODULE Val_C10it -----------------------------
(* VAL for C10, conditional information transfer (Gaussian estimator):         *)
(*   I(X^i_{t-tau}; X^j_t | Z) = -1/2 ln(1 - rho^2),  rho the partial correlation *)
(*   of the two series given Z,                                                  *)
(*   ITY: Z = X^j_{t-1..t-past};  MIT: Z = ITY's and X^i_{t-tau-1..t-tau-past},   *)
(* all series taken on the common window of T - (tau_max + past) samples.        *)
(* The reference value is computed from the integer data through the cofactors K  *)
(* of the matrix of covariances of (x, y, Z):  rho^2 = K_xy^2 / (K_xx K_yy),      *)
(* 1 - rho^2 = (K_xx K_yy - K_xy^2) / (K_xx K_yy), and the ln table.              *)
(*   ITDef      every defined entry of the lag function (lag_mode = "all")         *)
(*   MaxIsAll   value / lag at the maximum (lag_mode = "max") agree with it         *)
(*   Applicable no exception in either lag mode                                     *)
EXTENDS Defs_Coupling, Json, IOUtils

Trace == ndJsonDeserialize(IOEnv.TRACE_FILE)
VARIABLE i
NANV == 2000000001

Det2(M) == M[1][1] * M[2][2] - M[1][2] * M[2][1]
Det3m(M) == M[1][1] * (M[2][2] * M[3][3] - M[2][3] * M[3][2])
            - M[1][2] * (M[2][1] * M[3][3] - M[2][3] * M[3][1])
            + M[1][3] * (M[2][1] * M[3][2] - M[2][2] * M[3][1])
DetM(M) == IF Len(M) = 1 THEN M[1][1] ELSE IF Len(M) = 2 THEN Det2(M) ELSE Det3m(M)
Skip(k, j) == IF k < j THEN k ELSE k + 1
MinorM(C, a, b) == [r \in 1..(Len(C) - 1) |-> [c \in 1..(Len(C) - 1) |-> C[Skip(r, a)][Skip(c, b)]]]
Cofactor(C, a, b) == (IF (a + b) % 2 = 0 THEN 1 ELSE -1) * DetM(MinorM(C, a, b))
CovOf(ss) == [a \in 1..Len(ss) |-> [b \in 1..Len(ss) |-> Cov(ss[a], ss[b])]]
Max3(a, b, c) == Max2(a, Max2(b, c))
\* cofactors scaled down to 15 bits: <<|K_xy|, K_xx, K_yy>>
Parts(C) == LET kxy == Abs(Cofactor(C, 1, 2))  kxx == Cofactor(C, 1, 1)  kyy == Cofactor(C, 2, 2)
                g == (Max3(kxy, Abs(kxx), Abs(kyy)) \div 30000) + 1
            IN <<kxy \div g, kxx \div g, kyy \div g>>
\* the conditioning series are linearly independent, x and y are not determined by them, and the table
\* resolves 1 - rho^2 (rho^2 below about 0.9)
ITParts(C) == LET p == Parts(C)  A == p[2] * p[3]  B == A - p[1] * p[1]  h == (A \div 4096) + 1
              IN <<A, B, A \div h, RDiv(B, h)>>
ITDefined(C) == /\ DetM(MinorM(MinorM(C, 1, 1), 1, 1)) > 0
                /\ Parts(C)[2] > 100 /\ Parts(C)[3] > 100
                /\ ITParts(C)[1] >= 4096 /\ ITParts(C)[4] >= 400 /\ ITParts(C)[3] >= 1
IT6(C) == (Ln6(ITParts(C)[3]) - Ln6(ITParts(C)[4])) \div 2

\* the series of a configuration: rows max_lag + lag + 1 .. T + lag of a variable (1-based)
Ser(e, cf, var, lag) == Window(e.data, var, cf.taumax + cf.past + lag + 1, e.T + lag)
Series(e, cf, a, b, tau) ==
  <<Ser(e, cf, a, -tau), Ser(e, cf, b, 0)>>
  \o [p \in 1..cf.past |-> Ser(e, cf, b, -p)]
  \o (IF cf.cond = "mit" THEN [p \in 1..cf.past |-> Ser(e, cf, a, -tau - p)] ELSE <<>>)
Entry(e, cf, a, b, tau) == CovOf(Series(e, cf, a, b, tau))

CfFails(e, k) ==
  LET cf == e.confs[k]  o == e.obs[k]  tag == cf.cond \o ",past" \o ToString(cf.past) IN
  IF o.exc_all # "" THEN {"Applicable|information_transfer(gauss," \o tag \o ",all):" \o o.exc_all}
  ELSE IF o.exc_max # "" THEN {"Applicable|information_transfer(gauss," \o tag \o ",max):" \o o.exc_max}
  ELSE
  (IF \E a \in 1..3 : \E b \in 1..3 : \E tau \in 0..cf.taumax :
        a # b /\ ITDefined(Entry(e, cf, a, b, tau))
        /\ ~Close(o.all[a][b][tau + 1], IT6(Entry(e, cf, a, b, tau)), 2500 + IT6(Entry(e, cf, a, b, tau)) \div 100)
   THEN {"ITDef|information_transfer(gauss," \o tag \o ")"} ELSE {})
  \cup
  (IF \E a \in 1..3 : \E b \in 1..3 : a # b /\
        LET vals == {o.all[a][b][t] : t \in {tt \in 1..(cf.taumax + 1) : o.all[a][b][tt] # NANV}}
            mx == IF vals = {} THEN 0 ELSE Max2(0, CHOOSE v \in vals : \A u \in vals : v >= u)
        IN \/ ~Close(o.maxv[a][b], mx, 30)
           \/ (mx > 30 /\ ~(o.maxl[a][b] \in 0..cf.taumax /\ Close(o.all[a][b][o.maxl[a][b] + 1], mx, 30)))
   THEN {"MaxIsAll|information_transfer(gauss," \o tag \o ")"} ELSE {})
Defined(e) == Cardinality({<<k, a, b, tau>> \in (1..Len(e.confs)) \X (1..3) \X (1..3) \X (0..2) :
                 a # b /\ tau <= e.confs[k].taumax /\ ITDefined(Entry(e, e.confs[k], a, b, tau))})
Verdict(e) ==
  LET f == UNION {CfFails(e, k) : k \in 1..Len(e.confs)} IN
  IF f = {} THEN <<"ACCEPT", "", "", "T" \o ToString(e.T) \o ",defined" \o ToString(Defined(e) \div 10) \o "x">>
  ELSE <<"REJECT", "Multi", JoinSet(f), "T" \o ToString(e.T)>>
Verdicts == TLCEval([k \in 1..Len(Trace) |-> Verdict(Trace[k])])
Init == i = 1
Next == /\ i <= Len(Trace)
        /\ LET v == Verdicts[i] IN PrintT(<<"V", Trace[i].case, v[1], v[2], v[3], v[4]>>)
        /\ i' = i + 1
=============================================================================
