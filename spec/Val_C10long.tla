----------------------------- MODULE Val_C10long -----------------------------
(* VAL for C10 on LONG series (windows beyond 1024 samples, bin counts beyond     *)
(* 2^31 / sample): what can be stated without evaluating a definition on 10^5       *)
(* samples in TLC.                                                                  *)
(*  cc  : three series of small integers, T in {1030, 1100, 2500}: the compiled and  *)
(*        the pure-Python cross-correlation at lag 0 agree (ImplementationsAgree),    *)
(*        unit diagonal, symmetric, |r| <= 1                                          *)
(*  tmi : periodic 0/1 series of T samples: the binned mutual information (2 bins)     *)
(*        of a balanced binary series with itself is ln 2, with an independent         *)
(*        balanced series 0 - closed forms of the histogram definition (the general     *)
(*        definition is decided on the short series by Val_C10)                         *)
EXTENDS Integers, Sequences, TLC, Fx, Json, IOUtils
Trace == ndJsonDeserialize(IOEnv.TRACE_FILE)
VARIABLE i
Tol == 1500
Ln2 == 693147
CCFails(e) ==
  LET c == e.obs.cc  p == e.obs.pure  n == Len(c) IN
  (IF \E a \in 1..n : \E b \in 1..n : ~Close(c[a][b], p[a][b], Tol) THEN {"ImplementationsAgree|cross_correlation(long series)"} ELSE {})
  \cup (IF \E a \in 1..n : ~Close(c[a][a], 1000000, Tol) THEN {"Bounded|cross_correlation(long series, diagonal)"} ELSE {})
  \cup (IF \E a \in 1..n : \E b \in 1..n : Abs(c[a][b]) > 1000000 + Tol \/ ~Close(c[a][b], c[b][a], Tol)
        THEN {"Bounded|cross_correlation(long series)"} ELSE {})
TMIFails(e) ==
  LET m == e.obs.tmi IN
  \* rows 1 and 2 are the same balanced series, row 3 an independent balanced one; the diagonal is 0 by convention
  (IF ~Close(m[1][2], Ln2, Tol) \/ ~Close(m[2][1], Ln2, Tol) THEN {"BinnedMIDef|Surrogates.test_mutual_information(long series, identical)"} ELSE {})
  \cup (IF ~Close(m[1][3], 0, Tol) \/ ~Close(m[3][1], 0, Tol) \/ ~Close(m[2][3], 0, Tol)
        THEN {"BinnedMIDef|Surrogates.test_mutual_information(long series, independent)"} ELSE {})
Verdict(e) ==
  LET tags == "long," \o e.kind \o ",T" \o ToString(e.T) IN
  IF e.obs.exc # "" THEN <<"REJECT", "Applicable", e.obs.exc, tags>>
  ELSE LET f == IF e.kind = "cc" THEN CCFails(e) ELSE TMIFails(e) IN
       IF f = {} THEN <<"ACCEPT", "", "", tags>> ELSE <<"REJECT", "Multi", JoinSet(f), tags>>
Init == i = 1
Next == /\ i <= Len(Trace)
        /\ LET v == Verdict(Trace[i]) IN PrintT(<<"V", Trace[i].case, v[1], v[2], v[3], v[4]>>)
        /\ i' = i + 1
=============================================================================
