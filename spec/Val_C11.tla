------------------------------ MODULE Val_C11 ------------------------------
(* VAL for C11: recorded cross / internal measures of InteractingNetworks       *)
(* against Defs_Interacting, plus the relations DenseEqSparse, SwapSym and       *)
(* WholeLimit between recorded observations.                                     *)
EXTENDS Defs_Interacting, Json, IOUtils

Trace == ndJsonDeserialize(IOEnv.TRACE_FILE)
VARIABLE i
Tol == 40

HasS(o, nm) == nm \in DOMAIN o.s
HasV(o, nm) == nm \in DOMAIN o.v
HasM(o, nm) == nm \in DOMAIN o.m
HasN(o, nm) == nm \in DOMAIN o.nodes
Sca(o, nm, val) == HasS(o, nm) => Close(o.s[nm], val, Tol)
Vec(o, nm, len, F(_)) == HasV(o, nm) => /\ Len(o.v[nm]) = len
                                        /\ \A a \in 1..len : Close(o.v[nm][a], F(a), Tol)
Nod(o, nm, n, F(_)) == HasN(o, nm) => \A k \in 1..n : Close(o.nodes[nm][k], F(k), Tol)
MatEq(o, nm, M) == HasM(o, nm) => o.m[nm] = [a \in 1..Len(M) |-> [b \in 1..Len(M[a]) |-> S * M[a][b]]]
SetOf(L) == {L[k] : k \in 1..Len(L)}

\* definitional checks of one observation o made with the lists (L1, L2)
DefChecks(G, o, L1, L2) ==
  LET n1 == Len(L1)  n2 == Len(L2)  und == G.dir = 0 IN <<
  <<"cross_adjacency", MatEq(o, "cross_adjacency", CrossAdj(G, L1, L2))>>,
  <<"cross_adjacency_sparse", MatEq(o, "cross_adjacency_sparse", CrossAdj(G, L1, L2))>>,
  <<"internal_adjacency", MatEq(o, "internal_adjacency", CrossAdj(G, L1, L1))>>,
  <<"cross_path_lengths", HasM(o, "cross_path_lengths") => CloseMat(o.m["cross_path_lengths"], CrossDist(G, L1, L2), Tol)>>,
  <<"internal_path_lengths", HasM(o, "internal_path_lengths") => CloseMat(o.m["internal_path_lengths"], CrossDist(G, L1, L1), Tol)>>,
  <<"cross_outdegree", Vec(o, "cross_outdegree", n1, LAMBDA a : S * CrossOutDeg(G, L1, L2, a))>>,
  <<"cross_indegree", Vec(o, "cross_indegree", n1, LAMBDA a : S * CrossInDeg(G, L1, L2, a))>>,
  <<"cross_degree", Vec(o, "cross_degree", n1, LAMBDA a : S * CrossDeg(G, L1, L2, a))>>,
  <<"cross_degree_density", Vec(o, "cross_degree_density", n1, LAMBDA a : Q(CrossDeg(G, L1, L2, a), n2))>>,
  <<"internal_outdegree", Vec(o, "internal_outdegree", n1, LAMBDA a : S * CrossOutDeg(G, L1, L1, a))>>,
  <<"internal_indegree", Vec(o, "internal_indegree", n1, LAMBDA a : S * CrossInDeg(G, L1, L1, a))>>,
  <<"internal_degree", Vec(o, "internal_degree", n1, LAMBDA a : S * CrossDeg(G, L1, L1, a))>>,
  <<"number_cross_links", Sca(o, "number_cross_links", S * NumCrossLinks(G, L1, L2))>>,
  <<"total_cross_degree", Sca(o, "total_cross_degree", Q(SumN(LAMBDA a : CrossDeg(G, L1, L2, a), 1, n1), n1))>>,
  <<"number_internal_links", Sca(o, "number_internal_links", S * NumInternalLinks(G, L1))>>,
  <<"cross_link_density", Sca(o, "cross_link_density", Q(NumCrossLinks(G, L1, L2), n1 * n2))>>,
  <<"internal_link_density", n1 >= 2 => Sca(o, "internal_link_density", Q(InternalSum(G, L1), n1 * (n1 - 1)))>>,
  <<"cross_local_clustering", und => Vec(o, "cross_local_clustering", n1, LAMBDA a : CrossLocalClustering(G, L1, L2, a))>>,
  <<"cross_global_clustering", und => Sca(o, "cross_global_clustering", CrossGlobalClustering(G, L1, L2))>>,
  <<"cross_transitivity", und => Sca(o, "cross_transitivity", CrossTransitivity(G, L1, L2))>>,
  <<"cross_average_path_length", CrossAPLDefined(G, L1, L2) => Sca(o, "cross_average_path_length", CrossAvgPathLength(G, L1, L2))>>,
  <<"internal_average_path_length", InternalAPLDefined(G, L1) => Sca(o, "internal_average_path_length", InternalAvgPathLength(G, L1))>>,
  <<"cross_closeness", Vec(o, "cross_closeness", n1, LAMBDA a : CrossCloseness(G, L1, L2, a))>>,
  <<"internal_closeness", Vec(o, "internal_closeness", n1, LAMBDA a : InternalCloseness(G, L1, a))>>,
  <<"average_cross_closeness", Sca(o, "average_cross_closeness",
        RDiv(SumN(LAMBDA a : CrossCloseness(G, L1, L2, a), 1, n1), n1))>>,
  <<"local_efficiency", SetOf(L1) \cap SetOf(L2) = {} =>
        Vec(o, "local_efficiency", n1, LAMBDA a : LocalEfficiency(G, L1, L2, a))>>,
  <<"cross_betweenness", (und /\ Divides(G.Sg)) =>
        Nod(o, "cross_betweenness", G.n, LAMBDA k : InterregionalBetweenness(G, k, SetOf(L1), SetOf(L2)))>>,
  <<"internal_betweenness", (und /\ Divides(G.Sg)) =>
        Nod(o, "internal_betweenness", G.n, LAMBDA k : InterregionalBetweenness(G, k, SetOf(L1), SetOf(L1)))>>,
  <<"nsi_cross_degree", Vec(o, "nsi_cross_degree", n1, LAMBDA a : S * NsiCrossDeg(G, L1, L2, a))>>,
  <<"nsi_internal_degree", Vec(o, "nsi_internal_degree", n1, LAMBDA a : S * NsiCrossDeg(G, L1, L1, a))>>,
  <<"nsi_cross_mean_degree", Sca(o, "nsi_cross_mean_degree", NsiCrossMeanDeg(G, L1, L2))>>,
  <<"nsi_cross_edge_density", Sca(o, "nsi_cross_edge_density", NsiCrossEdgeDensity(G, L1, L2))>>,
  <<"nsi_cross_local_clustering", (und /\ \A a \in 1..n1 : NsiCrossLocalClusteringDefined(G, L1, L2, a)) =>
        Vec(o, "nsi_cross_local_clustering", n1, LAMBDA a : NsiCrossLocalClustering(G, L1, L2, a))>>,
  <<"nsi_internal_local_clustering", und =>
        Vec(o, "nsi_internal_local_clustering", n1, LAMBDA a : NsiCrossLocalClustering(G, L1, L1, a))>>,
  <<"nsi_cross_transitivity", (und /\ NsiCrossTransitivityDefined(G, L1, L2)) =>
        Sca(o, "nsi_cross_transitivity", NsiCrossTransitivity(G, L1, L2))>>,
  <<"nsi_cross_closeness_centrality", Vec(o, "nsi_cross_closeness_centrality", n1, LAMBDA a : NsiCrossCloseness(G, L1, L2, a))>>,
  <<"nsi_cross_average_path_length", CrossAPLDefined(G, L1, L2) =>
        Sca(o, "nsi_cross_average_path_length", NsiCrossAvgPathLength(G, L1, L2))>>,
  <<"nsi_cross_betweenness", und =>
        Nod(o, "nsi_cross_betweenness", G.n, LAMBDA k : NsiBetweenness(G, k, SetOf(L1), SetOf(L2)))>> >>

\* the compiled and the "_sparse" variant of one measure agree
DenseEqSparse(o) ==
  /\ (HasS(o, "cross_global_clustering") /\ HasS(o, "cross_global_clustering_sparse")) =>
        Close(o.s["cross_global_clustering"], o.s["cross_global_clustering_sparse"], Tol)
  /\ (HasS(o, "cross_transitivity") /\ HasS(o, "cross_transitivity_sparse")) =>
        Close(o.s["cross_transitivity"], o.s["cross_transitivity_sparse"], Tol)
  /\ (HasV(o, "cross_local_clustering") /\ HasV(o, "cross_local_clustering_sparse")) =>
        CloseSeq(o.v["cross_local_clustering"], o.v["cross_local_clustering_sparse"], Tol)
\* measures whose definition is symmetric in the two groups (undirected networks)
Symmetric == {"number_cross_links", "cross_link_density", "cross_average_path_length",
              "nsi_cross_edge_density", "nsi_cross_average_path_length"}
\* link-weighted variants (link attribute "c" = Defs_Network!RootMat: lengths 1 or 2 fixed by the node
\* numbers): the same definitions on the weighted shortest-path matrix
WCtx(G) == [G EXCEPT !.D = WDistMat(G.A, RootMat(G.A, G.dir))]
WStrength(G, L1, L2, a) == SumN(LAMBDA b : RootMat(G.A, G.dir)[L1[a]][L2[b]], 1, Len(L2))
WInStrength(G, L1, L2, a) == SumN(LAMBDA b : RootMat(G.A, G.dir)[L2[b]][L1[a]], 1, Len(L2))
GEffIs(o, ge, le, n1) ==
  (HasS(o, ge) /\ HasV(o, le) /\ IsNum(o.s[ge]) /\ \A a \in 1..n1 : IsNum(o.v[le][a])) =>
     LET sum == SumN(LAMBDA a : o.v[le][a], 1, n1) IN
     sum > 1000 => Close(o.s[ge], FxDiv(n1 * 1000000, sum, 1000000), Tol + o.s[ge] \div 10000)
DefChecksW(G, o, L1, L2) ==
  LET n1 == Len(L1)  GW == WCtx(G) IN <<
  <<"cross_path_lengths(c)", HasM(o, "cross_path_lengths(c)") => CloseMat(o.m["cross_path_lengths(c)"], CrossDist(GW, L1, L2), Tol)>>,
  <<"internal_path_lengths(c)", HasM(o, "internal_path_lengths(c)") => CloseMat(o.m["internal_path_lengths(c)"], CrossDist(GW, L1, L1), Tol)>>,
  <<"cross_average_path_length(c)", CrossAPLDefined(GW, L1, L2) => Sca(o, "cross_average_path_length(c)", CrossAvgPathLength(GW, L1, L2))>>,
  <<"internal_average_path_length(c)", InternalAPLDefined(GW, L1) => Sca(o, "internal_average_path_length(c)", InternalAvgPathLength(GW, L1))>>,
  <<"cross_closeness(c)", Vec(o, "cross_closeness(c)", n1, LAMBDA a : CrossCloseness(GW, L1, L2, a))>>,
  <<"internal_closeness(c)", Vec(o, "internal_closeness(c)", n1, LAMBDA a : InternalCloseness(GW, L1, a))>>,
  <<"local_efficiency(c)", Vec(o, "local_efficiency(c)", n1, LAMBDA a : LocalEfficiency(GW, L1, L2, a))>>,
  <<"cross_outdegree(c)", Vec(o, "cross_outdegree(c)", n1, LAMBDA a : S * WStrength(G, L1, L2, a))>>,
  <<"cross_link_attribute(c)", HasM(o, "cross_link_attribute(c)") =>
        o.m["cross_link_attribute(c)"] = [a \in 1..n1 |-> [b \in 1..Len(L2) |-> S * RootMat(G.A, G.dir)[L1[a]][L2[b]]]]>>,
  <<"internal_link_attribute(c)", HasM(o, "internal_link_attribute(c)") =>
        o.m["internal_link_attribute(c)"] = [a \in 1..n1 |-> [b \in 1..n1 |-> S * RootMat(G.A, G.dir)[L1[a]][L1[b]]]]>>,
  <<"cross_indegree(c)", Vec(o, "cross_indegree(c)", n1, LAMBDA a : S * WInStrength(G, L1, L2, a))>>,
  <<"cross_degree(c)", Vec(o, "cross_degree(c)", n1, LAMBDA a :
        S * (IF G.dir = 1 THEN WStrength(G, L1, L2, a) + WInStrength(G, L1, L2, a) ELSE WStrength(G, L1, L2, a)))>>,
  <<"internal_outdegree(c)", Vec(o, "internal_outdegree(c)", n1, LAMBDA a : S * WStrength(G, L1, L1, a))>>,
  <<"internal_indegree(c)", Vec(o, "internal_indegree(c)", n1, LAMBDA a : S * WInStrength(G, L1, L1, a))>>,
  <<"internal_degree(c)", Vec(o, "internal_degree(c)", n1, LAMBDA a :
        S * (IF G.dir = 1 THEN WStrength(G, L1, L1, a) + WInStrength(G, L1, L1, a) ELSE WStrength(G, L1, L1, a)))>>,
  <<"average_cross_closeness(c)", Sca(o, "average_cross_closeness(c)",
        RDiv(SumN(LAMBDA a : CrossCloseness(GW, L1, L2, a), 1, n1), n1))>>,
  \* global efficiency = 1 / mean(local efficiency), with and without link lengths (from the recorded vectors)
  <<"global_efficiency(c)", GEffIs(o, "global_efficiency(c)", "local_efficiency(c)", n1)>>,
  <<"global_efficiency", GEffIs(o, "global_efficiency", "local_efficiency", n1)>> >>
BadSwap(e) == IF e.directed = 1 THEN {} ELSE
   {nm \in Symmetric : HasS(e.obs, nm) /\ HasS(e.swap, nm) /\ ~Close(e.obs.s[nm], e.swap.s[nm], Tol)}
\* both groups = the whole node set reproduces the single-network measure
WholePairs == << <<"cross_global_clustering", "global_clustering">>, <<"cross_transitivity", "transitivity">>,
                 <<"nsi_cross_global_clustering", "nsi_global_clustering">>,
                 <<"nsi_cross_transitivity", "nsi_transitivity">>,
                 <<"nsi_cross_average_path_length", "nsi_average_path_length">>,
                 <<"internal_link_density", "link_density">> >>
WholeVecs == << <<"internal_degree", "degree">>, <<"cross_local_clustering", "local_clustering">>,
                <<"nsi_cross_degree", "nsi_degree">>, <<"nsi_internal_degree", "nsi_degree">>,
                <<"nsi_cross_local_clustering", "nsi_local_clustering">>,
                <<"nsi_internal_local_clustering", "nsi_local_clustering">> >>
WholeNodes == << <<"internal_betweenness", "betweenness">>, <<"nsi_cross_betweenness", "nsi_betweenness">> >>
BadWhole(e) ==
  {WholePairs[k][1] : k \in {kk \in 1..Len(WholePairs) :
       (e.directed = 0 \/ kk >= 5) /\ HasS(e.whole, WholePairs[kk][1]) /\ WholePairs[kk][2] \in DOMAIN e.plain.s
       /\ IsNum(e.plain.s[WholePairs[kk][2]])
       /\ ~Close(e.whole.s[WholePairs[kk][1]], e.plain.s[WholePairs[kk][2]], Tol)}}
  \cup {WholeVecs[k][1] : k \in {kk \in 1..Len(WholeVecs) :
       e.directed = 0 /\ HasV(e.whole, WholeVecs[kk][1]) /\ WholeVecs[kk][2] \in DOMAIN e.plain.v
       /\ ~CloseSeq(e.whole.v[WholeVecs[kk][1]], e.plain.v[WholeVecs[kk][2]], Tol)}}
  \cup {WholeNodes[k][1] : k \in {kk \in 1..Len(WholeNodes) :
       e.directed = 0 /\ HasN(e.whole, WholeNodes[kk][1]) /\ WholeNodes[kk][2] \in DOMAIN e.plain.v
       /\ ~(\A q \in 1..e.n : Close(e.whole.nodes[WholeNodes[kk][1]][q],
              (IF WholeNodes[kk][1] = "internal_betweenness" THEN 2 ELSE 1) * e.plain.v[WholeNodes[kk][2]][q], Tol))}}

AllFail(cs) == JoinSet({cs[k][1] : k \in {kk \in 1..Len(cs) : ~cs[kk][2]}})
\* exceptions: the same call must not raise for one order of the groups only, and nothing
\* may raise on an undirected network with a link between the groups
\* (0/0: link density of a one-node group, n.s.i. cross transitivity without cross links)
MayRaiseFor(e, o, L1, L2, nm) ==
  \/ nm = "internal_link_density" /\ Len(L1) = 1
  \/ nm = "nsi_cross_transitivity" /\ ~NsiCrossTransitivityDefined(Ctx(e.A, e.directed, e.w), L1, L2)
Unexpected(e) == {nm \in DOMAIN e.obs.x : e.directed = 0 /\ ~MayRaiseFor(e, e.obs, e.L1, e.L2, nm)}
                 \cup {nm \in DOMAIN e.swap.x : e.directed = 0 /\ ~MayRaiseFor(e, e.swap, e.L2, e.L1, nm)}
IsSorted(L) == \A k \in 1..(Len(L) - 1) : L[k] < L[k + 1]
Tags(e) == e.blk \o (IF e.directed = 1 THEN ",directed" ELSE "")
           \o (IF ~(IsSorted(e.L1) /\ IsSorted(e.L2)) THEN ",unsorted_list" ELSE "")
\* contexts of all records, evaluated once (a top-level constant definition is always cached)
CtxTable == TLCEval([k \in 1..Len(Trace) |-> Ctx(Trace[k].A, Trace[k].directed, Trace[k].w)])
AllFails(e, G) ==
  FailsOf(DefChecks(G, e.obs, e.L1, e.L2), "Def|") \cup FailsOf(DefChecks(G, e.swap, e.L2, e.L1), "Def|")
  \cup FailsOf(DefChecksW(G, e.obs, e.L1, e.L2), "Def|") \cup FailsOf(DefChecksW(G, e.swap, e.L2, e.L1), "Def|")
  \cup (IF e.directed = 0 /\ ~(DenseEqSparse(e.obs) /\ DenseEqSparse(e.swap) /\ DenseEqSparse(e.whole))
        THEN {"DenseEqSparse|cross clustering"} ELSE {})
Pre(c, T) == {c \o "|" \o x : x \in T}
Combine(e, fails) ==
  LET all == fails \cup Pre("SwapSym", BadSwap(e)) \cup Pre("WholeLimit", BadWhole(e))
  IN IF all # {} THEN <<"REJECT", "Multi", JoinSet(all), Tags(e)>> ELSE <<"ACCEPT", "", "", Tags(e)>>
Verdict(e, G) ==
  IF Unexpected(e) # {}
  THEN <<"REJECT", "Applicable",
         JoinSet({nm \o ":" \o (IF nm \in DOMAIN e.obs.x THEN e.obs.x[nm] ELSE e.swap.x[nm]) : nm \in Unexpected(e)}),
         Tags(e)>>
  ELSE Combine(e, AllFails(e, G))

\* all verdicts, evaluated once at constant level
Verdicts == TLCEval([k \in 1..Len(Trace) |-> Verdict(Trace[k], CtxTable[k])])
Init == i = 1
Next == /\ i <= Len(Trace)
        /\ LET v == Verdicts[i]
           IN PrintT(<<"V", Trace[i].case, v[1], v[2], v[3], v[4]>>)
        /\ i' = i + 1
=============================================================================
