----------------------------- MODULE Val_C11big -----------------------------
(* VAL for C11, large groups: group 2 is a "cocktail party" graph on k nodes (a   *)
(* clique without a perfect matching: node 2p-1 and 2p are NOT linked), group 1     *)
(* has two nodes: a hub linked to all k nodes and a node linked to the first k/2.   *)
(* Closed forms (counting linked pairs among the cross neighbours):                  *)
(*   hub        C(k,2) - k/2 linked pairs of C(k,2)   ->  (k-2)/(k-1)                 *)
(*   half node  h = k/2 neighbours 1..h: C(h,2) - floor(h/2) pairs of C(h,2)          *)
(*   transitivity = sum of linked pairs / sum of pairs                                *)
(* For k <= 8 the closed forms are PROVED against Defs_Interacting on the graph        *)
(* itself (clause GenExact); for k = 300 the hub has 44 700 linked pairs among its      *)
(* neighbours - beyond 16-bit counters.  Compiled and `_sparse` variants alike.         *)
EXTENDS Defs_Interacting, Json, IOUtils
Trace == ndJsonDeserialize(IOEnv.TRACE_FILE)
VARIABLE i
Tol == 40
HubTri(k) == Choose2(k) - (k \div 2)
HalfTri(k) == LET h == k \div 2 IN Choose2(h) - (h \div 2)
HubCC(k) == Q(HubTri(k), Choose2(k))
HalfCC(k) == Q(HalfTri(k), Choose2(k \div 2))
Trans(k) == Q(HubTri(k) + HalfTri(k), Choose2(k) + Choose2(k \div 2))
\* the graph: nodes 1, 2 = group 1; nodes 3 .. k+2 = group 2
Adj(k) == TLCEval([a \in 1..(k + 2) |-> TLCEval([b \in 1..(k + 2) |->
  IF a = b THEN 0
  ELSE IF a > 2 /\ b > 2 THEN (IF ((a - 3) \div 2 = (b - 3) \div 2) THEN 0 ELSE 1)
  ELSE IF (a = 1 /\ b > 2) \/ (b = 1 /\ a > 2) THEN 1
  ELSE IF (a = 2 /\ b > 2 /\ b - 2 <= k \div 2) \/ (b = 2 /\ a > 2 /\ a - 2 <= k \div 2) THEN 1 ELSE 0])])
Proved(k) == LET G == Ctx(Adj(k), 0, [a \in 1..(k + 2) |-> 1])  L1 == <<1, 2>>  L2 == [p \in 1..k |-> p + 2] IN
  /\ CrossLocalClustering(G, L1, L2, 1) = HubCC(k) /\ CrossLocalClustering(G, L1, L2, 2) = HalfCC(k)
  /\ CrossTransitivity(G, L1, L2) = Trans(k)
Fails(e) ==
  LET o == e.obs  k == e.k IN
  (IF k <= 8 /\ ~Proved(k) THEN {"GenExact|closed form of the cocktail-party family"} ELSE {})
  \cup UNION {IF ~(Len(o[nm]) = 2 /\ Close(o[nm][1], HubCC(k), Tol) /\ Close(o[nm][2], HalfCC(k), Tol))
              THEN {"Def|" \o nm \o "(large group)"} ELSE {} : nm \in {"cross_local_clustering", "cross_local_clustering_sparse"}}
  \cup UNION {IF ~Close(o[nm], Trans(k), Tol) THEN {"Def|" \o nm \o "(large group)"} ELSE {}
              : nm \in {"cross_transitivity", "cross_transitivity_sparse"}}
  \cup UNION {IF ~Close(o[nm], RDiv(HubCC(k) + HalfCC(k), 2), Tol) THEN {"Def|" \o nm \o "(large group)"} ELSE {}
              : nm \in {"cross_global_clustering", "cross_global_clustering_sparse"}}
Verdict(e) == IF e.obs.exc # "" THEN <<"REJECT", "Applicable", e.obs.exc, "bigclique,k" \o ToString(e.k)>>
              ELSE LET f == Fails(e) IN IF f = {} THEN <<"ACCEPT", "", "", "bigclique,k" \o ToString(e.k)>>
                                        ELSE <<"REJECT", "Multi", JoinSet(f), "bigclique,k" \o ToString(e.k)>>
Init == i = 1
Next == /\ i <= Len(Trace)
        /\ LET v == Verdict(Trace[i]) IN PrintT(<<"V", Trace[i].case, v[1], v[2], v[3], v[4]>>)
        /\ i' = i + 1
=============================================================================
