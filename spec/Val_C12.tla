------------------------------ MODULE Val_C12 ------------------------------
(* VAL for C12: recorded distance matrices, lookups and weights against          *)
(* Defs_Geometry (exact sub-domain) and the metric laws (all coordinates).        *)
EXTENDS Defs_Geometry, Json, IOUtils
Trace == ndJsonDeserialize(IOEnv.TRACE_FILE)
VARIABLE i
AngTol == 977                      \* 2^-10 rad in units of 10^-6
MetricOK(D, tol) ==
  LET n == Len(D) IN
  /\ \A a \in 1..n : D[a][a] <= tol /\ D[a][a] >= 0
  /\ \A a \in 1..n : \A b \in 1..n : D[a][b] >= 0 /\ D[a][b] <= Pi6 + 1 /\ D[a][b] = D[b][a]
  /\ \A a \in 1..n : \A b \in 1..n : \A c \in 1..n : D[a][c] <= D[a][b] + D[b][c] + tol
GeoFails(e) ==
  LET o == e.obs  n == Len(e.lat) IN
  (IF o.sym # 1 THEN {"Symmetric|angular_distance"} ELSE {})
  \cup (IF ~MetricOK(o.ang, AngTol) THEN {"Metric|angular_distance"} ELSE {})
  \cup (IF \E a \in 1..n : \E b \in 1..n : ExactPair(e.lat[a], e.lon[a], e.lat[b], e.lon[b])
             /\ ~Close(o.ang[a][b], Rad6(AngleDeg(e.lat[a], e.lon[a], e.lat[b], e.lon[b])), AngTol)
        THEN {"ClosedForm|angular_distance"} ELSE {})
  \cup (IF \E a \in 1..n : ~Close(o.coslat4[a], CosLat4(e.lat[a]), 2) \/ ~Close(o.w4[a], CosLat4(e.lat[a]), 2)
        THEN {"CosLat|node_weights"} ELSE {})
  \cup (IF \E a \in 1..n : ~Close(o.awc6[a],
             FxDiv(SumN(LAMBDA b : o.A[b][a] * CosLat4(e.lat[b]), 1, n), SumN(LAMBDA b : CosLat4(e.lat[b]), 1, n), 1000000), 300)
        THEN {"CosLat|area_weighted_connectivity"} ELSE {})
  \* ... under every node-weight type (the network is undirected: in = out = total)
  \cup (IF \E a \in 1..n : ~(Close(o.awc6_irr[a], o.awc6[a], 3) /\ Close(o.awc6_none[a], o.awc6[a], 3)
                               /\ Close(o.awc6_in[a], o.awc6[a], 3) /\ Close(o.awc6_out[a], o.awc6[a], 3))
        THEN {"CosLat|area_weighted_connectivity(node_weight_type)"} ELSE {})
  \cup (IF \E a \in 1..n : ~Close(o.maxld6[a], MaxN(LAMBDA b : o.A[a][b] * o.ang[a][b], 1, n, 0), 5)
        THEN {"Consistent|max_link_distance"} ELSE {})
  \* "irrigation" weights are cos^2(lat); totals and means are those of the weight vector in force
  \cup (IF \E a \in 1..n : ~Close(o.irr4[a], (CosLat4(e.lat[a]) * CosLat4(e.lat[a])) \div 10000, 4)
            \/ ~Close(o.sw4[a], o.irr4[a], 1)
        THEN {"CosLat|node_weights(irrigation)"} ELSE {})
  \cup (IF \E a \in 1..n : ~Close(o.back4[a], CosLat4(e.lat[a]), 2) THEN {"CosLat|node_weights(type requested again)"} ELSE {})
  \cup (IF ~Close(o.backtot4, SumN(LAMBDA a : o.back4[a], 1, n), n + 2) THEN {"Consistent|total_node_weight(type requested again)"} ELSE {})
  \cup (IF ~Close(o.tot4, SumN(LAMBDA a : o.w4[a], 1, n), n + 2)
            \/ ~Close(o.mean4 * n, SumN(LAMBDA a : o.w4[a], 1, n), 2 * n + 2)
        THEN {"Consistent|total_node_weight(surface)"} ELSE {})
  \cup (IF ~Close(o.irrtot4, SumN(LAMBDA a : o.irr4[a], 1, n), n + 2)
            \/ ~Close(o.irrmean4 * n, SumN(LAMBDA a : o.irr4[a], 1, n), 2 * n + 2)
            \/ ~Close(o.swtot4, SumN(LAMBDA a : o.sw4[a], 1, n), n + 2)
        THEN {"Consistent|total_node_weight(irrigation)"} ELSE {})
  \* the distances the grid serves after a network on it has been analysed are the same distances
  \cup (IF o.ang2 # o.ang \/ o.ang3 # o.ang THEN {"Stable|angular_distance"} ELSE {})
  \cup (IF o.lat_after # e.lat \/ o.lon_after # e.lon THEN {"Stable|coordinates"} ELSE {})
EucFails(e) ==
  LET o == e.obs  n == Len(e.pts) IN
  (IF o.sym # 1 \/ o.diag0 # 1 THEN {"Symmetric|euclidean_distance"} ELSE {})
  \cup (IF \E a \in 1..n : \E b \in 1..n : ~SqrtOK(o.d3[a][b], SqDist(e.pts[a], e.pts[b]))
        THEN {"ClosedForm|euclidean_distance"} ELSE {})
  \cup (IF o.d3b # o.d3 THEN {"Stable|euclidean_distance"} ELSE {})
  \cup (IF \E a \in 1..n : \E b \in 1..n : ~Close(o.d3far[a][b], o.d3[a][b], 1)
        THEN {"Translation|euclidean_distance"} ELSE {})
  \cup (IF \E a \in 1..n : \E b \in 1..n : ~Close(o.d3far2[a][b], o.d3near2[a][b], 1)
        THEN {"Translation|euclidean_distance(2^23 in one coordinate)"} ELSE {})
  \* Grid.node_number: the node reported for an integer query point is at minimal (squared) distance
  \cup (IF \E k \in 1..Len(o.queries) :
            LET r == o.nearest[k] + 1 IN
            r < 1 \/ r > n \/ \E a \in 1..n : SqDist(e.pts[a], o.queries[k]) < SqDist(e.pts[r], o.queries[k])
        THEN {"NearestNode|Grid.node_number"} ELSE {})
\* all tuples of the Cartesian product of the axes, as a set; each exactly once
ProductSet(axes) == IF Len(axes) = 2 THEN {<<a, b>> : a \in {axes[1][k] : k \in 1..Len(axes[1])}, b \in {axes[2][k] : k \in 1..Len(axes[2])}}
                    ELSE {<<a, b, c>> : a \in {axes[1][k] : k \in 1..Len(axes[1])}, b \in {axes[2][k] : k \in 1..Len(axes[2])},
                                        c \in {axes[3][k] : k \in 1..Len(axes[3])}}
RectFails(e) ==
  LET o == e.obs  d == Len(e.axes)  m == Len(o.seq[1])
      tuples == [k \in 1..m |-> [j \in 1..d |-> o.seq[j][k]]]
  IN (IF {tuples[k] : k \in 1..m} # ProductSet(e.axes) \/ m # Cardinality(ProductSet(e.axes))
      THEN {"CartesianProduct|coord_sequence_from_rect_grid"} ELSE {})
     \* two axes: first axis varies slowest (documented example)
     \cup (IF d = 2 /\ \E k \in 1..m : tuples[k] # <<e.axes[1][((k - 1) \div Len(e.axes[2])) + 1], e.axes[2][((k - 1) % Len(e.axes[2])) + 1]>>
           THEN {"ProductOrder|coord_sequence_from_rect_grid"} ELSE {})
     \cup (IF d = 2 /\ (o.geoseq[1] # o.seq[1] \/ o.geoseq[2] # o.seq[2]) THEN {"CartesianProduct|GeoGrid.coord_sequence_from_rect_grid"} ELSE {})
     \* axes of different types (integer latitudes with fractional longitudes, ...): in quarters of a degree the node
     \* sequence is the product of the axes, first axis slowest - from the static helper and from the grid object
     \cup (IF \E q \in 1..Len(o.mixed) :
              LET x == o.mixed[q]  n1 == Len(x.ax1) IN
              \/ Len(x.lat4) # Len(x.ax0) * n1 \/ Len(x.lon4) # Len(x.ax0) * n1
              \/ \E k \in 1..Len(x.lat4) : x.lat4[k] # x.ax0[((k - 1) \div n1) + 1] \/ x.lon4[k] # x.ax1[((k - 1) % n1) + 1]
              \/ x.glat4 # x.lat4 \/ x.glon4 # x.lon4
           THEN {"CartesianProduct|GeoGrid.coord_sequence_from_rect_grid(mixed axis types)"} ELSE {})
     \* the grid objects built from the axes have exactly these nodes (time axis of 3 samples)
     \cup (IF o.regseq # o.seq \/ o.regN # m \/ o.regsize # <<3, m>> THEN {"CartesianProduct|Grid.RegularGrid"} ELSE {})
     \cup (IF d = 2 /\ o.georegseq # <<o.seq[1], o.seq[2]>> THEN {"CartesianProduct|GeoGrid.RegularGrid"} ELSE {})
     \* longitudes of the 0..360 convention above 180 are moved by -360, the others kept
     \cup (IF d = 2 /\ (Len(o.lon180) # Len(o.lon360) \/ \E k \in 1..Len(o.lon360) :
                 o.lon180[k] # (IF o.lon360[k] > 180 THEN o.lon360[k] - 360 ELSE o.lon360[k]))
           THEN {"LonConvention|convert_lon_coordinates"} ELSE {})
     \* region_indices: exactly the nodes strictly inside the rectangle (bounds in quarter degrees)
     \cup (IF d = 2 /\ (Len(o.inside) # m \/ \E k \in 1..m :
                 o.inside[k] # (IF /\ 4 * o.seq[1][k] > o.reg4[1] /\ 4 * o.seq[1][k] < o.reg4[2]
                                   /\ 4 * o.seq[2][k] > o.reg4[3] /\ 4 * o.seq[2][k] < o.reg4[4] THEN 1 ELSE 0))
           THEN {"RegionDef|region_indices"} ELSE {})
LookFails(e) ==
  LET n == Len(e.lat)  k == e.obs.node + 1
      exact == \A a \in 1..n : ExactPair(e.lat[a], e.lon[a], e.q[1], e.q[2])
      dist(a) == AngleDeg(e.lat[a], e.lon[a], e.q[1], e.q[2])
  IN IF ~exact THEN {"GenExact|lookup"}
     ELSE IF k < 1 \/ k > n \/ \E a \in 1..n : dist(a) < dist(k) THEN {"NearestNode|node_number"} ELSE {}
\* general position: every pair against the haversine closed form
Tol2m10 == 97656                   \* 2^-10 rad in units of 10^-8
HTol == 100                        \* 10^-6 in the haversine: a few float32 ulps of the cosine (twice the measured maximum)
GenFails(e) ==
  LET o == e.obs  n == Len(e.lat) IN
  (IF o.sym # 1 THEN {"Symmetric|angular_distance"} ELSE {})
  \cup (IF \E a \in 1..n : \E b \in 1..n :
            ~AngleWithin(o.ang8[a][b], Tol2m10, e.lat[a], e.lon[a], e.lat[b], e.lon[b])
        THEN {"ClosedForm|angular_distance(general position, 2^-10)"} ELSE {})
  \cup (IF \E a \in 1..n : \E b \in 1..n : ~HavClose(o.ang8[a][b], HTol, e.lat[a], e.lon[a], e.lat[b], e.lon[b])
        THEN {"SinglePrecision|angular_distance(general position)"} ELSE {})
\* the node returned for a query point in general position is at minimal distance, up to the single-precision
\* accuracy of the distances
GLookFails(e) ==
  LET n == Len(e.lat)  k == e.obs.node + 1
      h(a) == HavTrue8(e.lat[a], e.lon[a], e.q[1], e.q[2])
  IN IF k < 1 \/ k > n THEN {"NearestNode|node_number(general position)"}
     ELSE IF \E a \in 1..n : h(a) + 2 * HTol < h(k) THEN {"NearestNode|node_number(general position)"} ELSE {}
RandFails(e) ==
  LET o == e.obs IN
  (IF o.sym # 1 THEN {"Symmetric|angular_distance"} ELSE {})
  \cup (IF ~MetricOK(o.ang, AngTol) THEN {"Metric|angular_distance"} ELSE {})
  \cup (IF o.esym # 1 \/ o.ediag0 # 1 THEN {"Symmetric|euclidean_distance"} ELSE {})
  \cup (IF \E a \in 1..Len(o.euc) : \E b \in 1..Len(o.euc) : \E c \in 1..Len(o.euc) : o.euc[a][c] > o.euc[a][b] + o.euc[b][c] + 5
        THEN {"Metric|euclidean_distance"} ELSE {})
Verdict(e) ==
  IF e.obs.exc # "" THEN <<"REJECT", "Applicable", e.obs.exc, e.blk>>
  ELSE LET f == IF e.blk = "geo" THEN GeoFails(e) ELSE IF e.blk = "euc" THEN EucFails(e)
                ELSE IF e.blk = "rect" THEN RectFails(e) ELSE IF e.blk = "look" THEN LookFails(e)
                ELSE IF e.blk = "gen" THEN GenFails(e) ELSE IF e.blk = "glook" THEN GLookFails(e) ELSE RandFails(e)
       IN IF f = {} THEN <<"ACCEPT", "", "", e.blk>> ELSE <<"REJECT", "Multi", JoinSet(f), e.blk>>
Verdicts == TLCEval([k \in 1..Len(Trace) |-> Verdict(Trace[k])])
Init == i = 1
Next == /\ i <= Len(Trace)
        /\ LET v == Verdicts[i] IN PrintT(<<"V", Trace[i].case, v[1], v[2], v[3], v[4]>>)
        /\ i' = i + 1
=============================================================================
