------------------------------ MODULE Val_C13 ------------------------------
(* VAL for C13: a recorded history of a ClimateData object is replayed         *)
(* through the actions of DataSM; every "observe" event must equal the          *)
(* observations DataSM defines for the abstract state reached so far.           *)
EXTENDS DataSM, TLC, Json, IOUtils

Trace == ndJsonDeserialize(IOEnv.TRACE_FILE)
VARIABLES i, l, st
vars == <<i, l, st>>
S == 1000000
Tol == 30

Shape(m, r, c) == Len(m) = r /\ \A a \in 1..r : Len(m[a]) = c

PhaseMeanOK(d, s, o) ==
  /\ Len(o.phase_mean) = d.cycle
  /\ \A p \in 1..d.cycle : Len(o.phase_mean[p]) = Len(s.s)
  /\ \A p \in 1..d.cycle : \A b \in 1..Len(s.s) :
       LET cnt == Card(InPhase(d, s, p)) IN
       cnt > 0 => /\ IsNum(o.phase_mean[p][b])
                  /\ Abs(o.phase_mean[p][b] * cnt - PhaseSum(d, s, p, b) * S) <= Tol * cnt
\* anomalies: zero sum within every phase, and anomaly + phase mean = observable
AnomalyOK(d, s, o) ==
  IF d.anom = 1 THEN o.anomaly = [a \in 1..Len(s.t) |-> [b \in 1..Len(s.s) |-> S * Observable(d, s)[a][b]]]
  ELSE /\ \A p \in 1..d.cycle : \A b \in 1..Len(s.s) :
            Abs(Sum(LAMBDA a : o.anomaly[a][b], InPhase(d, s, p))) <= Tol * (1 + Card(InPhase(d, s, p)))
       /\ \A a \in 1..Len(s.t) : \A b \in 1..Len(s.s) :
            Close(o.anomaly[a][b] + o.phase_mean[PhaseOf(d, a)][b], S * Observable(d, s)[a][b], 2 * Tol)

\* returns <<clause, site>> of the first failing clause, <<"", "">> if none
Observe(d, s, o) ==
  IF o.exc # "" THEN <<"Applicable", o.exc>>
  ELSE IF o.observable # Observable(d, s) THEN <<"WindowDef", "observable">>
  ELSE IF o.time # TimeSeq(d, s) \/ o.lat # LatSeq(d, s) \/ o.lon # LonSeq(d, s) THEN <<"WindowDef", "grid">>
  ELSE IF o.window # Boundaries(d, s) THEN <<"WindowDef", "window">>
  ELSE IF o.phase_indices # PhaseIndices(d, s) THEN <<"PhaseDef", "phase_indices">>
  ELSE IF LET pi == PhaseIndices(d, s)
              want == UNION {{pi[o.sel_phases[k] + 1][y] : y \in 1..Len(pi[o.sel_phases[k] + 1])} : k \in 1..Len(o.sel_phases)}
          IN ~(/\ {o.isp[k] : k \in 1..Len(o.isp)} = want /\ Len(o.isp) = Cardinality(want)
               /\ \A k \in 1..(Len(o.isp) - 1) : o.isp[k] < o.isp[k + 1])
       THEN <<"PhaseDef", "indices_selected_phases">>
  ELSE IF ~PhaseMeanOK(d, s, o) THEN <<"PhaseDef", "phase_mean">>
  ELSE IF ~Shape(o.anomaly, Len(s.t), Len(s.s)) THEN <<"Shapes", "anomaly">>
  ELSE IF ~AnomalyOK(d, s, o) THEN <<"AnomalyDef", "anomaly">>
  ELSE IF ~(Shape(o.shuffled, Len(s.t), Len(s.s)) /\ \A b \in 1..Len(s.s) : \A a \in 1..Len(s.t) :
              Cardinality({t \in 1..Len(s.t) : o.shuffled[t][b] = o.anomaly[a][b]})
              = Cardinality({t \in 1..Len(s.t) : o.anomaly[t][b] = o.anomaly[a][b]}))
       THEN <<"AnomalyDef", "shuffled_anomaly">>
  ELSE IF o.anomaly_after # o.anomaly \/ o.phase_mean_after # o.phase_mean \/ o.observable_after # o.observable
       THEN <<"Pure", "shuffled_anomaly">>
  ELSE <<"", "">>

Rec == Trace[i]
Tags(r) == r.repr \o "," \o (IF r.data.anom = 1 THEN "anomalies_flag," ELSE "")
           \o (IF Len(r.data.time) % r.data.cycle # 0 THEN "cycle_not_dividing," ELSE "")
           \o "steps" \o ToString(Len(r.steps))
Init == i = 1 /\ l = 1 /\ st = <<>>
NextCase == i' = i + 1 /\ l' = 1 /\ st' = <<>>
Next ==
  /\ i <= Len(Trace)
  /\ IF l > Len(Rec.events)
     THEN PrintT(<<"V", Rec.case, "ACCEPT", "", "", Tags(Rec)>>) /\ NextCase
     ELSE LET ev == Rec.events[l]  d == Rec.data IN
          IF ev.op = "construct" THEN st' = Construct(d) /\ l' = l + 1 /\ i' = i
          ELSE IF ev.op = "set_window" THEN st' = SetWindow(d, st, ev.w) /\ l' = l + 1 /\ i' = i
          ELSE IF ev.op = "set_global_window" THEN st' = SetGlobalWindow(d, st) /\ l' = l + 1 /\ i' = i
          ELSE IF ev.op = "set_window_current" THEN st' = SetWindowCurrent(d, st) /\ l' = l + 1 /\ i' = i
          ELSE LET r == Observe(d, st, ev.obs) IN
               IF r[1] = "" THEN UNCHANGED st /\ l' = l + 1 /\ i' = i
               ELSE PrintT(<<"V", Rec.case, "REJECT", r[1], r[2] \o "@event" \o ToString(l), Tags(Rec)>>) /\ NextCase
=============================================================================
