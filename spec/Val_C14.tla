------------------------------ MODULE Val_C14 ------------------------------
(* VAL for C14: every recorded execution of VisibilityGraph is checked       *)
(* against Defs_Visibility.  One record = one GEN case replayed on the real  *)
(* class three times: on the input (obs), on its time reversal (rev), on a   *)
(* positive dyadic affine image of values and times (aff).                   *)
EXTENDS Defs_Visibility, TLC, Json, IOUtils

Trace == ndJsonDeserialize(IOEnv.TRACE_FILE)
VARIABLE i

S == 1000000
Tol == 20

\* --- clauses ---------------------------------------------------------------
Applicable(e) == e.obs.exc = "" /\ e.rev.exc = "" /\ e.affobs.exc = ""

Shape(o, n) == /\ Len(o.adj) = n /\ \A r \in 1..n : Len(o.adj[r]) = n
               /\ \A nm \in DOMAIN o.m : Len(o.m[nm]) = n

AdjDef(e)  == e.obs.adj = VisAdj(e.kind, e.x, e.t, e.mv)
RevDef(e)  == e.rev.adj = VisAdj(e.kind, RevSeq(e.x), ReverseTimes(e.t), RevSeq(e.mv))
AffDef(e)  == e.affobs.adj =
                VisAdj(e.kind, AffineSeq(e.x, e.aff.xm[1], e.aff.xa * e.aff.xm[2]),
                       AffineSeq(e.t, e.aff.tm[1], e.aff.ta * e.aff.tm[2]), e.mv)
\* metamorphic relations between the recorded observations themselves
AffineInv(e)    == e.affobs.adj = e.obs.adj
\* a change of the units of values and times by (extreme) powers of two changes nothing
UnitInv(e)      == e.unitexc = "" /\ e.unitadj = e.obs.adj
TimeReversal(e) == e.rev.adj = MirrorMat(e.obs.adj)

DegSplit(o) == LET n == Len(o.adj) IN \A k \in 1..n :
   /\ o.m["retarded_degree"][k] = S * RetDeg(o.adj, k)
   /\ o.m["advanced_degree"][k] = S * AdvDeg(o.adj, k)
   /\ o.m["degree"][k] = S * Deg(o.adj, k)
   /\ o.m["retarded_degree"][k] + o.m["advanced_degree"][k] = o.m["degree"][k]

ClustDef(o) == LET n == Len(o.adj) IN \A k \in 1..n :
   /\ Close(o.m["retarded_local_clustering"][k], RetClust(o.adj, k, S), Tol)
   /\ Close(o.m["advanced_local_clustering"][k], AdvClust(o.adj, k, S), Tol)

\* every retarded_<m> of the reversed series is the mirrored advanced_<m> and v.v.
Pairs == << <<"retarded_degree", "advanced_degree">>,
            <<"retarded_local_clustering", "advanced_local_clustering">>,
            <<"retarded_closeness", "advanced_closeness">>,
            <<"retarded_betweenness", "advanced_betweenness">> >>
Selfs == <<"degree", "trans_betweenness", "boundary_corrected_degree",
           "boundary_corrected_closeness", "boundary_corrected_betweenness">>
MirrorOK(a, b) == CloseSeq(a, RevSeq(b), Tol)
Exchange(e) ==
   /\ \A p \in 1..Len(Pairs) :
        /\ MirrorOK(e.rev.m[Pairs[p][1]], e.obs.m[Pairs[p][2]])
        /\ MirrorOK(e.rev.m[Pairs[p][2]], e.obs.m[Pairs[p][1]])
   /\ \A p \in 1..Len(Selfs) :
        Selfs[p] \in DOMAIN e.obs.m => MirrorOK(e.rev.m[Selfs[p]], e.obs.m[Selfs[p]])
AffMeasures(e) == \A nm \in DOMAIN e.obs.m : CloseSeq(e.affobs.m[nm], e.obs.m[nm], Tol)

\* --- input classes (tags used to key known findings) ------------------------
Tags(e) == (IF Len(e.x) = 1 THEN "single_sample," ELSE "")
           \o (IF e.mvflag = 1 THEN "missing," ELSE "")
           \o e.kind
FirstExc(e) == IF e.obs.exc # "" THEN e.obs.exc
               ELSE IF e.rev.exc # "" THEN e.rev.exc ELSE e.affobs.exc

R(clause, site, e) == <<"REJECT", clause, site, Tags(e)>>
Verdict(e) ==
  LET n == Len(e.x) IN
  IF ~Applicable(e) THEN R("Applicable", FirstExc(e), e)
  ELSE IF ~(Shape(e.obs, n) /\ Shape(e.rev, n) /\ Shape(e.affobs, n)) THEN R("Shape", "adjacency", e)
  ELSE IF ~AdjDef(e) THEN R("AdjDef", "visibility_relations", e)
  \* the pairwise / per-node queries report the same relation
  ELSE IF e.obs.vis # e.obs.adj THEN R("AdjDef", "visibility", e)
  ELSE IF e.obs.vis1 # e.obs.adj THEN R("AdjDef", "visibility_single", e)
  ELSE IF ~RevDef(e) THEN R("AdjDef", "visibility_relations(reversed)", e)
  ELSE IF ~AffDef(e) THEN R("AdjDef", "visibility_relations(affine)", e)
  ELSE IF ~AffineInv(e) THEN R("AffineInv", "adjacency", e)
  ELSE IF ~UnitInv(e) THEN R("AffineInv", "adjacency(units 2^-90 / 2^-70 or 2^70 / 2^60)" \o e.unitexc, e)
  ELSE IF ~TimeReversal(e) THEN R("TimeReversal", "adjacency", e)
  ELSE IF e.obs.m2 # e.obs.m \/ e.rev.m2 # e.rev.m \/ e.affobs.m2 # e.affobs.m
       THEN R("Repeatable", JoinSet({nm \in DOMAIN e.obs.m : e.obs.m2[nm] # e.obs.m[nm] \/ e.rev.m2[nm] # e.rev.m[nm]
                                                              \/ e.affobs.m2[nm] # e.affobs.m[nm]}), e)
  ELSE IF ~(DegSplit(e.obs) /\ DegSplit(e.rev)) THEN R("DegSplit", "retarded/advanced_degree", e)
  ELSE IF ~(ClustDef(e.obs) /\ ClustDef(e.rev)) THEN R("ClustDef", "retarded/advanced_local_clustering", e)
  ELSE IF ~Exchange(e) THEN R("Exchange", "retarded<->advanced", e)
  ELSE IF ~AffMeasures(e) THEN R("AffineInv", "measures", e)
  ELSE <<"ACCEPT", "", "", Tags(e)>>

\* all verdicts, evaluated once at constant level (TLC caches LET definitions only there)
Verdicts == TLCEval([k \in 1..Len(Trace) |-> Verdict(Trace[k])])
Init == i = 1
Next == /\ i <= Len(Trace)
        /\ LET v == Verdicts[i]
           IN PrintT(<<"V", Trace[i].case, v[1], v[2], v[3], v[4]>>)
        /\ i' = i + 1
=============================================================================
