------------------------------ MODULE Val_C15 ------------------------------
(* VAL for C15: recorded surrogates against Defs_Surrogates.                    *)
EXTENDS Defs_Surrogates, Json, IOUtils
Trace == ndJsonDeserialize(IOEnv.TRACE_FILE)
VARIABLE i
Scaled(row) == [t \in 1..Len(row) |-> 1000 * row[t]]
AllNum(M) == \A r \in 1..Len(M) : \A t \in 1..Len(M[r]) : IsNum(M[r][t])
\* some non-zero, non-Nyquist Fourier amplitude of the data vanishes
ZeroAmplitude(e) == \E r \in 1..Len(e.data) : \E f \in InnerFreqs(e.n) : Power(Scaled(e.data[r]), f) = 0
SpecFails(e) ==
  LET o == e.obs  rows == 1..Len(e.data) IN
  IF ~(AllNum(o.white) /\ AllNum(o.corr) /\ AllNum(o.aaft) /\ AllNum(o.ramp) /\ AllNum(o.rspec))
  THEN {"FiniteValues|" \o (IF ~AllNum(o.corr) THEN "correlated_noise_surrogates" ELSE IF ~AllNum(o.aaft) THEN "AAFT_surrogates"
                              ELSE IF ~AllNum(o.rspec) \/ ~AllNum(o.ramp) THEN "refined_AAFT_surrogates" ELSE "white_noise_surrogates")}
  ELSE
  (IF \E r \in rows : ~IsPermutation(o.white[r], Scaled(e.data[r])) THEN {"ShufflePermutation|white_noise_surrogates"} ELSE {})
  \cup (IF \E r \in rows : ~SameSpectrum(o.corr[r], Scaled(e.data[r])) THEN {"FourierSpectrum|correlated_noise_surrogates"} ELSE {})
  \cup (IF \E r \in rows : ~IsPermutation(o.aaft[r], Scaled(e.data[r])) THEN {"AAFTPermutation|AAFT_surrogates"} ELSE {})
  \cup (IF \E r \in rows : ~IsPermutation(o.ramp[r], Scaled(e.data[r])) THEN {"AAFTPermutation|refined_AAFT_surrogates(true_amplitudes)"} ELSE {})
  \cup (IF \E r \in rows : ~SameSpectrum(o.rspec[r], Scaled(e.data[r])) THEN {"FourierSpectrum|refined_AAFT_surrogates(true_spectrum)"} ELSE {})
  \cup (IF \E r \in rows : o.data_after[r] # Scaled(e.data[r]) THEN {"DataUntouched|original_data"} ELSE {})
  \* after normalize_original_data: zero mean, unit variance, order preserved; the surrogates are those of
  \* the normalised data
  \cup (IF "data_norm" \notin DOMAIN o THEN {}
        ELSE IF ~(AllNum(o.data_norm) /\ AllNum(o.n_corr) /\ AllNum(o.n_aaft) /\ AllNum(o.n_ramp) /\ AllNum(o.n_rspec))
             THEN {"FiniteValues|after normalize_original_data"}
        ELSE
        (IF \E r \in rows : LET z == o.data_norm[r]  n == Len(z) IN
              \/ Abs(SumN(LAMBDA t : z[t], 1, n)) > n
              \/ Abs(SumN(LAMBDA t : (z[t] * z[t]) \div 1000, 1, n) - 1000 * n) > 3 * n + 3
              \/ \E t \in 1..n : \E u \in 1..n : (e.data[r][t] < e.data[r][u]) # (z[t] < z[u])
         THEN {"Normalised|normalize_original_data"} ELSE {})
        \* (a series with unit variance has |x_t| <= sqrt(n), and so has every series with its amplitude spectrum)
        \cup (IF \E r \in rows : \E t \in 1..Len(o.n_corr[r]) :
                   \/ Abs(o.n_corr[r][t]) > 40000 \/ o.n_corr[r][t] * o.n_corr[r][t] > 1100000 * Len(o.n_corr[r])
                   \/ Abs(o.n_rspec[r][t]) > 40000 \/ o.n_rspec[r][t] * o.n_rspec[r][t] > 1100000 * Len(o.n_corr[r])
              THEN {"FourierSpectrum|magnitude after normalize_original_data"}
              ELSE
        (IF \E r \in rows : ~SameSpectrum(o.n_corr[r], o.data_norm[r]) THEN {"FourierSpectrum|correlated_noise_surrogates after normalize_original_data"} ELSE {})
        \cup (IF \E r \in rows : ~IsPermutation(o.n_aaft[r], o.data_norm[r]) THEN {"AAFTPermutation|AAFT_surrogates after normalize_original_data"} ELSE {})
        \cup (IF \E r \in rows : ~IsPermutation(o.n_ramp[r], o.data_norm[r]) THEN {"AAFTPermutation|refined_AAFT_surrogates(true_amplitudes) after normalize_original_data"} ELSE {})
        \cup (IF \E r \in rows : ~SameSpectrum(o.n_rspec[r], o.data_norm[r]) THEN {"FourierSpectrum|refined_AAFT_surrogates(true_spectrum) after normalize_original_data"} ELSE {})))
\* position (0-based) of value v in the distinct-valued series x
IdxOf(x, v) == (CHOOSE t \in 1..Len(x) : x[t] = v) - 1
\* one series x of the object with its recorded twins and surrogate
\* (Surrogates: states at a distance <= threshold recur; RecurrencePlot: distance < threshold - a tie at
\* the threshold is where the two documented conventions differ, thr - 1/2 expresses the strict one on integers)
TwinFailsOf(e, x, twins, surr, row, strict) ==
  LET X == Embed(x, e.dim, 1)
      R == IF strict THEN RecS(X, e.thr - 1) ELSE RecS(X, e.thr)
      tw == Twins(R, e.md)
      n == Len(X)
  IN (IF twins # tw THEN {"TwinsDef|twins" \o row} ELSE {})
     \* (a surrogate consists of original STATES: of the first components of the n embedded state vectors)
     \cup (IF Len(surr) # n \/ \E j \in 1..Len(surr) : ~(\E t \in 1..n : x[t] = surr[j])
           THEN {"OriginalStates|twin_surrogates" \o row}
           ELSE IF ~TwinWalk(tw, n, [j \in 1..Len(surr) |-> IdxOf(x, surr[j])])
                THEN {"TwinWalk|twin_surrogates" \o row} ELSE {})
SortedRows(tw) == [k \in 1..Len(tw) |-> SortSeq(tw[k], LAMBDA a, b : a < b)]
TwinFails(e) == TwinFailsOf(e, e.x, e.obs.twins, e.obs.surr, "", FALSE)
                \cup TwinFailsOf(e, e.x2, e.obs.twins2, e.obs.surr2, "[row 1]", FALSE)
                \* RecurrencePlot: same twins (as sets), same walk; result shape (surrogates, states, dimension)
                \cup TwinFailsOf(e, e.x, e.obs.rp_twins, e.obs.rp_surr, "[RecurrencePlot]", TRUE)
                \cup (IF \E k \in 1..Len(e.obs.rp_twins_low) : e.obs.rp_twins_low[k] # 0
                      THEN {"TwinsDef|RecurrencePlot.twins after set_fixed_threshold"} ELSE {})
                \cup (IF e.obs.rp_twins_back # e.obs.rp_twins
                      THEN {"TwinsDef|RecurrencePlot.twins after set_fixed_threshold (back)"} ELSE {})
                \cup (IF e.obs.rn_twins_rr # e.obs.rp_twins_rr
                      THEN {"TwinsDef|RecurrenceNetwork.twins after set_fixed_recurrence_rate"} ELSE {})
                \cup (IF e.obs.rn_twins_thr # e.obs.rp_twins
                      THEN {"TwinsDef|RecurrenceNetwork.twins after set_fixed_threshold"} ELSE {})
                \cup (IF e.obs.rp_shape # <<2, Len(Embed(e.x, e.dim, 1)), e.dim>>
                      THEN {"Shape|RecurrencePlot.twin_surrogates"} ELSE {})
\* ---- periodic series x_t = t mod q, threshold 1/2: closed form of the twins -------------------------------------
\* the twins of state j (1-based) are the states of the same phase further apart than md (0-based, ascending) -
\* provided the phase has more than one state
RECURSIVE PeriodicTwinList(_, _, _, _, _)
PeriodicTwinList(n, q, md, j, k) ==
  IF k > n THEN <<>>
  ELSE (IF (k - j) % q = 0 /\ Abs(k - j) > md THEN <<k - 1>> ELSE <<>>) \o PeriodicTwinList(n, q, md, j, k + 1)
PhaseSize(n, q, j) == Cardinality({k \in 1..n : (k - j) % q = 0})
PeriodicTwins(n, q, md) == [j \in 1..n |-> IF PhaseSize(n, q, j) > 1 THEN PeriodicTwinList(n, q, md, j, 1) ELSE <<>>]
BigTwinFails(e) ==
  LET n == e.n  cf == PeriodicTwins(n, e.q, e.md)
      x == [t \in 1..n |-> (t - 1) % e.q]
  IN \* on the small instances the closed form IS the definition (states at distance 0 recur)
     (IF n <= 12 /\ cf # Twins(RecS(Embed(x, 1, 1), 0), e.md) THEN {"GenExact|closed form of periodic twins"} ELSE {})
     \cup (IF e.obs.rp_twins # cf THEN {"TwinsDef|RecurrencePlot.twins(periodic series)"} ELSE {})
     \cup (IF e.obs.s_twins # cf THEN {"TwinsDef|Surrogates.twins(periodic series)"} ELSE {})
Verdict(e) ==
  LET tags == e.blk \o (IF e.blk = "spec" THEN (IF ZeroAmplitude(e) THEN ",zero_amplitude" ELSE "") \o ",n" \o ToString(e.n) \o ",k" \o ToString(e.k)
                        ELSE IF e.blk = "bigtwin" THEN ",n" \o ToString(e.n) \o ",period" \o ToString(e.q) \o ",md" \o ToString(e.md)
                        ELSE ",dim" \o ToString(e.dim) \o ",md" \o ToString(e.md) \o ",thr" \o ToString(e.thr)) IN
  IF e.obs.exc # "" THEN <<"REJECT", "Applicable", e.obs.exc, tags>>
  ELSE LET f == IF e.blk = "spec" THEN SpecFails(e) ELSE IF e.blk = "bigtwin" THEN BigTwinFails(e) ELSE TwinFails(e) IN
       IF f = {} THEN <<"ACCEPT", "", "", tags>> ELSE <<"REJECT", "Multi", JoinSet(f), tags>>
Verdicts == TLCEval([k \in 1..Len(Trace) |-> Verdict(Trace[k])])
Init == i = 1
Next == /\ i <= Len(Trace)
        /\ LET v == Verdicts[i] IN PrintT(<<"V", Trace[i].case, v[1], v[2], v[3], v[4]>>)
        /\ i' = i + 1
=============================================================================
