------------------------------ MODULE Val_C15 ------------------------------
(* VAL for C15: recorded surrogates against Defs_Surrogates.                    *)
EXTENDS Defs_Surrogates, Json, IOUtils
Trace == ndJsonDeserialize(IOEnv.TRACE_FILE)
VARIABLE i
Scaled(row) == [t \in 1..Len(row) |-> 1000 * row[t]]
AllNum(M) == \A r \in 1..Len(M) : \A t \in 1..Len(M[r]) : IsNum(M[r][t])
\* some non-zero, non-Nyquist Fourier amplitude of the data vanishes
ZeroAmplitude(e) == \E r \in 1..Len(e.data) : \E f \in InnerFreqs(e.n) : Power(Scaled(e.data[r]), f) = 0
SpecFails(e) ==
  LET o == e.obs  rows == 1..Len(e.data) IN
  IF ~(AllNum(o.white) /\ AllNum(o.corr) /\ AllNum(o.aaft) /\ AllNum(o.ramp) /\ AllNum(o.rspec))
  THEN {"FiniteValues|" \o (IF ~AllNum(o.corr) THEN "correlated_noise_surrogates" ELSE IF ~AllNum(o.aaft) THEN "AAFT_surrogates"
                              ELSE IF ~AllNum(o.rspec) \/ ~AllNum(o.ramp) THEN "refined_AAFT_surrogates" ELSE "white_noise_surrogates")}
  ELSE
  (IF \E r \in rows : ~IsPermutation(o.white[r], Scaled(e.data[r])) THEN {"ShufflePermutation|white_noise_surrogates"} ELSE {})
  \cup (IF \E r \in rows : ~SameSpectrum(o.corr[r], Scaled(e.data[r])) THEN {"FourierSpectrum|correlated_noise_surrogates"} ELSE {})
  \cup (IF \E r \in rows : ~IsPermutation(o.aaft[r], Scaled(e.data[r])) THEN {"AAFTPermutation|AAFT_surrogates"} ELSE {})
  \cup (IF \E r \in rows : ~IsPermutation(o.ramp[r], Scaled(e.data[r])) THEN {"AAFTPermutation|refined_AAFT_surrogates(true_amplitudes)"} ELSE {})
  \cup (IF \E r \in rows : ~SameSpectrum(o.rspec[r], Scaled(e.data[r])) THEN {"FourierSpectrum|refined_AAFT_surrogates(true_spectrum)"} ELSE {})
  \cup (IF \E r \in rows : o.data_after[r] # Scaled(e.data[r]) THEN {"DataUntouched|original_data"} ELSE {})
\* position (0-based) of value v in the distinct-valued series x
IdxOf(x, v) == (CHOOSE t \in 1..Len(x) : x[t] = v) - 1
\* one series x of the object with its recorded twins and surrogate
TwinFailsOf(e, x, twins, surr, row) ==
  LET X == Embed(x, e.dim, 1)
      R == RecS(X, 8)
      tw == Twins(R, e.md)
      n == Len(X)
  IN (IF twins # tw THEN {"TwinsDef|twins" \o row} ELSE {})
     \cup (IF Len(surr) # n \/ \E j \in 1..Len(surr) : ~(\E t \in 1..Len(x) : x[t] = surr[j])
           THEN {"OriginalStates|twin_surrogates" \o row}
           ELSE IF ~TwinWalk(tw, n, [j \in 1..Len(surr) |-> IdxOf(x, surr[j])])
                THEN {"TwinWalk|twin_surrogates" \o row} ELSE {})
SortedRows(tw) == [k \in 1..Len(tw) |-> SortSeq(tw[k], LAMBDA a, b : a < b)]
TwinFails(e) == TwinFailsOf(e, e.x, e.obs.twins, e.obs.surr, "")
                \cup TwinFailsOf(e, e.x2, e.obs.twins2, e.obs.surr2, "[row 1]")
                \* RecurrencePlot: same twins (as sets), same walk; result shape (surrogates, states, dimension)
                \cup TwinFailsOf(e, e.x, e.obs.rp_twins, e.obs.rp_surr, "[RecurrencePlot]")
                \cup (IF \E k \in 1..Len(e.obs.rp_twins_low) : e.obs.rp_twins_low[k] # 0
                      THEN {"TwinsDef|RecurrencePlot.twins after set_fixed_threshold"} ELSE {})
                \cup (IF e.obs.rp_twins_back # e.obs.rp_twins
                      THEN {"TwinsDef|RecurrencePlot.twins after set_fixed_threshold (back)"} ELSE {})
                \cup (IF e.obs.rp_shape # <<2, Len(Embed(e.x, e.dim, 1)), e.dim>>
                      THEN {"Shape|RecurrencePlot.twin_surrogates"} ELSE {})
Verdict(e) ==
  LET tags == e.blk \o (IF e.blk = "spec" THEN (IF ZeroAmplitude(e) THEN ",zero_amplitude" ELSE "") \o ",n" \o ToString(e.n) \o ",k" \o ToString(e.k)
                        ELSE ",dim" \o ToString(e.dim) \o ",md" \o ToString(e.md)) IN
  IF e.obs.exc # "" THEN <<"REJECT", "Applicable", e.obs.exc, tags>>
  ELSE LET f == IF e.blk = "spec" THEN SpecFails(e) ELSE TwinFails(e) IN
       IF f = {} THEN <<"ACCEPT", "", "", tags>> ELSE <<"REJECT", "Multi", JoinSet(f), tags>>
Verdicts == TLCEval([k \in 1..Len(Trace) |-> Verdict(Trace[k])])
Init == i = 1
Next == /\ i <= Len(Trace)
        /\ LET v == Verdicts[i] IN PrintT(<<"V", Trace[i].case, v[1], v[2], v[3], v[4]>>)
        /\ i' = i + 1
=============================================================================
