------------------------------ MODULE Val_C15w ------------------------------
(* VAL for C15, scripted twin walk: a behaviour of TwinWalkSM (pattern, embedding   *)
(* dimension, minimal twin distance, threshold, draws) was replayed on              *)
(* Surrogates.twin_surrogates with Python's random source scripted to exactly these  *)
(* draws.  TLC replays the draws through TwinWalkSM!WalkOf and requires              *)
(*   TwinsDef       the library's twin lists are the specification's                  *)
(*   DrawsConsumed  exactly the scripted draws were consumed (no hidden draw, none     *)
(*                  left over, no exception)                                           *)
(*   StepConformance the surrogate is exactly the walk the draws determine: the LAST    *)
(*                  option is the state's own successor, option c < #twins the           *)
(*                  successor of twin c, a missing successor draws a new state           *)
EXTENDS Defs_Surrogates, Json, IOUtils
CONSTANTS LenT, Symbols, Free
VARIABLES p, dim, md, thr, k, j, draws, free
W == INSTANCE TwinWalkSM

Trace == ndJsonDeserialize(IOEnv.TRACE_FILE)
VARIABLE i
Verdict(e) ==
  LET x == W!XOf(e.p)
      tw == W!TwOf(e.p, e.dim, e.md, e.thr)
      n == W!NOf(e.p, e.dim)
      w == W!WalkOf(tw, n, e.draws)
      tags == "walk,dim" \o ToString(e.dim) \o ",md" \o ToString(e.md) \o ",thr" \o ToString(e.thr)
      R(c, s) == <<"REJECT", c, s, tags>>
  IN IF ~w[3] \/ Len(w[2]) # 0 THEN R("GenExact", "draws do not determine a walk")
     ELSE IF e.obs.twins # tw THEN R("TwinsDef", "twins")
     ELSE IF e.obs.exc # "" THEN R("DrawsConsumed", "twin_surrogates:" \o e.obs.exc)
     ELSE IF e.obs.used # Len(e.draws) THEN R("DrawsConsumed", "twin_surrogates")
     ELSE IF e.obs.surr # [q \in 1..n |-> x[w[1][q] + 1]] THEN R("StepConformance", "twin_surrogates")
     ELSE <<"ACCEPT", "", "", tags>>
Verdicts == TLCEval([q \in 1..Len(Trace) |-> Verdict(Trace[q])])
Init == i = 1 /\ p = <<>> /\ dim = 0 /\ md = 0 /\ thr = 0 /\ k = 0 /\ j = 0 /\ draws = <<>> /\ free = 0
Next == /\ i <= Len(Trace)
        /\ LET v == Verdicts[i] IN PrintT(<<"V", Trace[i].case, v[1], v[2], v[3], v[4]>>)
        /\ i' = i + 1
        /\ UNCHANGED <<p, dim, md, thr, k, j, draws, free>>
=============================================================================
