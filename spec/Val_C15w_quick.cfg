CONSTANTS
  LenT = 4
  Symbols = {0, 1}
  Free = 3
INIT Init
NEXT Next
CHECK_DEADLOCK FALSE
