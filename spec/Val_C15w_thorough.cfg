CONSTANTS
  LenT = 5
  Symbols = {0, 1, 2}
  Free = 3
INIT Init
NEXT Next
CHECK_DEADLOCK FALSE
