------------------------------ MODULE Val_C16 ------------------------------
(* VAL for C16: recorded event synchronisation / coincidence results against  *)
(* Defs_Events.  blk = "pair": the two static pairwise methods incl. the       *)
(* Derive actions exchange, shift, rescale; "mat": event_series_analysis;      *)
(* "thr": make_event_matrix.                                                   *)
EXTENDS Defs_Events, TLC, Json, IOUtils

Trace == ndJsonDeserialize(IOEnv.TRACE_FILE)
VARIABLE i
Tol == 30
One == 1000000

Ex(e) == Events(e.x, e.ts)
Ey(e) == Events(e.y, e.ts)
InRange(v) == ~IsNum(v) \/ (v >= -Tol /\ v <= One + Tol)

\* ---- pair ------------------------------------------------------------------------
ESDef(e)   == LET d == ES6(Ex(e), Shift(Ey(e), e.lag), e.tm)
              IN Close(e.obs.es[1], d[1], Tol) /\ Close(e.obs.es[2], d[2], Tol)
ESRange(e) == InRange(e.obs.es[1]) /\ InRange(e.obs.es[2])
ESExchange(e) == e.lag = 0 => /\ Close(e.obs.es_sw[1], e.obs.es[2], Tol)
                              /\ Close(e.obs.es_sw[2], e.obs.es[1], Tol)
ESShift(e) == CloseSeq(e.obs.es_shift, e.obs.es, Tol)
ESBigShift(e) == e.obs.es_bigshift_exc = "" /\ CloseSeq(e.obs.es_bigshift, e.obs.es, Tol)
\* a change of the time unit by a power of two (times, window and lag alike) changes nothing
ESUnit(e) == /\ e.obs.es_tiny_exc = e.obs.es_exc /\ e.obs.es_huge_exc = e.obs.es_exc
             /\ (e.obs.es_exc = "" => CloseSeq(e.obs.es_tiny, e.obs.es, Tol) /\ CloseSeq(e.obs.es_huge, e.obs.es, Tol))
ESScale(e) == e.tm = INF => CloseSeq(e.obs.es_scale, e.obs.es, Tol)
HasECA(e) == e.tm # INF
ECAAppl(e) == HasECA(e) => (e.obs.eca_exc = "" /\ e.obs.eca_sw_exc = "" /\ e.obs.eca_shift_exc = "")
ECADef(e) == HasECA(e) =>
   LET d == ECA(Ex(e), Ey(e), e.tm, e.lag)
   \* with an event-free series the library reports "undefined" (nan), as it does for ES;
   \* the value of the counting formula is accepted as well
   IN \A k \in 1..4 : \/ RateIs(e.obs.eca[k], d[k], Tol)
                        \/ (~ECADefined(Ex(e), Ey(e)) /\ e.obs.eca[k] = NAN)
ECARange(e) == HasECA(e) => \A k \in 1..4 : InRange(e.obs.eca[k])
ECAExchange(e) == HasECA(e) =>
   LET d == ECA(Ex(e), Ey(e), e.tm, e.lag)     \* compare only where the rate is defined
   IN /\ (d[1][2] # 0 => Close(e.obs.eca_sw[3], e.obs.eca[1], Tol))
      /\ (d[2][2] # 0 => Close(e.obs.eca_sw[4], e.obs.eca[2], Tol))
      /\ (d[3][2] # 0 => Close(e.obs.eca_sw[1], e.obs.eca[3], Tol))
      /\ (d[4][2] # 0 => Close(e.obs.eca_sw[2], e.obs.eca[4], Tol))
ECAShift(e) == HasECA(e) =>
   LET d == ECA(Ex(e), Ey(e), e.tm, e.lag)
   IN \A k \in 1..4 : d[k][2] # 0 => Close(e.obs.eca_shift[k], e.obs.eca[k], Tol)
ECABigShift(e) == HasECA(e) =>
   LET d == ECA(Ex(e), Ey(e), e.tm, e.lag)
   IN e.obs.eca_bigshift_exc = "" /\ \A k \in 1..4 : d[k][2] # 0 => Close(e.obs.eca_bigshift[k], e.obs.eca[k], Tol)

PairTags(e) == "pair"
   \o (IF SumSeq(e.x) = 0 \/ SumSeq(e.y) = 0 THEN ",event_free" ELSE "")
   \o (IF e.unit = 1 THEN ",unit_ts" ELSE ",irregular_ts")
   \o (IF e.tm = INF THEN ",unbounded" ELSE "") \o (IF e.lag # 0 THEN ",lag" ELSE "")
PairVerdict(e) ==
  LET R(c, s) == <<"REJECT", c, s, PairTags(e)>> IN
  IF e.obs.es_exc # "" THEN R("Applicable", "event_synchronization:" \o e.obs.es_exc)
  ELSE IF ~ECAAppl(e) THEN R("Applicable", "event_coincidence_analysis:"
                              \o e.obs.eca_exc \o e.obs.eca_sw_exc \o e.obs.eca_shift_exc)
  ELSE IF ~ESDef(e) THEN R("ESDef", "event_synchronization")
  ELSE IF ~ESRange(e) THEN R("Range01", "event_synchronization")
  ELSE IF ~ESExchange(e) THEN R("Exchange", "event_synchronization")
  ELSE IF ~ESShift(e) THEN R("ShiftInv", "event_synchronization")
  ELSE IF ~ESBigShift(e) THEN R("ShiftInv", "event_synchronization(2^25)")
  ELSE IF ~ESScale(e) THEN R("ScaleInv", "event_synchronization")
  ELSE IF ~ESUnit(e) THEN R("ScaleInv", "event_synchronization(time unit 2^-40 / 2^30)")
  ELSE IF ~ECADef(e) THEN R("ECADef", "event_coincidence_analysis")
  ELSE IF ~ECARange(e) THEN R("Range01", "event_coincidence_analysis")
  ELSE IF ~ECAExchange(e) THEN R("Exchange", "event_coincidence_analysis")
  ELSE IF ~ECAShift(e) THEN R("ShiftInv", "event_coincidence_analysis")
  ELSE IF ~ECABigShift(e) THEN R("ShiftInv", "event_coincidence_analysis(2^25)")
  ELSE <<"ACCEPT", "", "", PairTags(e)>>

\* ---- matrix ------------------------------------------------------------------------
Ev(e, k) == Events(e.cols[k], e.ts)
ESDirected(e) ==
  [a \in 1..3 |-> [b \in 1..3 |->
     IF a = b THEN 0
     ELSE IF a < b THEN ES6(Ev(e, a), Shift(Ev(e, b), e.lag), e.tm)[1]
     ELSE ES6(Ev(e, b), Shift(Ev(e, a), e.lag), e.tm)[2]]]
ESOpts == <<"directed", "symmetric", "antisym", "mean", "max", "min">>
ECAOpts == <<"directed", "mean", "max", "min">>
Windows == <<"advanced", "retarded", "symmetric">>
MatESDef(e) == CloseMat(e.obs.es.directed, ESDirected(e), Tol)
MatESSym(e) == \A k \in 1..Len(ESOpts) :
                 CloseMat(e.obs.es[ESOpts[k]], Sym(e.obs.es.directed, ESOpts[k]), Tol)
ECAEntryOK(e, wt, a, b) ==
  IF a = b THEN e.obs.eca[wt].directed[a][b] = 0
  ELSE IF a < b THEN RateIs(e.obs.eca[wt].directed[a][b], ECAWindow(Ev(e, a), Ev(e, b), e.tm, e.lag, wt)[1], Tol)
  ELSE RateIs(e.obs.eca[wt].directed[a][b], ECAWindow(Ev(e, b), Ev(e, a), e.tm, e.lag, wt)[2], Tol)
ECAEntryOKU(e, wt, a, b) ==
  \/ ECAEntryOK(e, wt, a, b)
  \/ (a # b /\ ~ECADefined(Ev(e, a), Ev(e, b)) /\ e.obs.eca[wt].directed[a][b] = NAN)
MatECADef(e) == e.tm # INF => \A w \in 1..3 : \A a \in 1..3 : \A b \in 1..3 :
                   ECAEntryOKU(e, Windows[w], a, b)
MatECASym(e) == e.tm # INF => \A w \in 1..3 : \A k \in 1..Len(ECAOpts) :
   CloseMat(e.obs.eca[Windows[w]][ECAOpts[k]], Sym(e.obs.eca[Windows[w]].directed, ECAOpts[k]), Tol)
MatRange(e) == /\ \A a \in 1..3 : \A b \in 1..3 : InRange(e.obs.es.directed[a][b])
               /\ e.tm # INF => \A w \in 1..3 : \A a \in 1..3 : \A b \in 1..3 :
                                    InRange(e.obs.eca[Windows[w]].directed[a][b])
\* EventSeriesClimateNetwork (unit time steps): similarity = directed ES matrix, links = positive scores
MatESCN(e) == e.obs.escn # <<>> =>
   /\ CloseMat(e.obs.escn, ESDirected(e), Tol)
   \* (an undefined score - a series without events - is not a positive score)
   /\ e.obs.escn_adj = [a \in 1..3 |-> [b \in 1..3 |->
         IF a # b /\ IsNum(ESDirected(e)[a][b]) /\ ESDirected(e)[a][b] > Tol THEN 1
         ELSE IF a # b /\ IsNum(ESDirected(e)[a][b]) /\ ESDirected(e)[a][b] > 0 THEN e.obs.escn_adj[a][b]
         ELSE 0]]
\* EventSeriesClimateNetwork built for coincidence rates and asked, as one object, for every window type and
\* symmetrisation in turn: the matrices of the plain EventSeries object (themselves held against ECAWindow above)
MatESCNECA(e) == e.obs.escn_eca_w0 # "" =>
   /\ CloseMat(e.obs.escn_eca_first, e.obs.eca[e.obs.escn_eca_w0].directed, Tol)
   /\ \A w \in 1..3 : \A k \in 1..Len(ECAOpts) :
        CloseMat(e.obs.escn_eca[Windows[w]][ECAOpts[k]], e.obs.eca[Windows[w]][ECAOpts[k]], Tol)
   /\ CloseMat(e.obs.escn_es_after, e.obs.es.directed, Tol)
MatTags(e) == "mat" \o (IF e.tm = INF THEN ",unbounded" ELSE "") \o (IF e.lag # 0 THEN ",lag" ELSE "")
MatVerdict(e) ==
  LET R(c, s) == <<"REJECT", c, s, MatTags(e)>> IN
  IF e.obs.exc # "" THEN R("Applicable", e.obs.exc)
  ELSE IF ~MatESDef(e) THEN R("MatrixDef", "event_series_analysis(ES)")
  ELSE IF ~MatESSym(e) THEN R("Symmetrisation", "event_series_analysis(ES)")
  ELSE IF ~MatECADef(e) THEN R("MatrixDef", "event_series_analysis(ECA)")
  ELSE IF ~MatECASym(e) THEN R("Symmetrisation", "event_series_analysis(ECA)")
  ELSE IF ~MatRange(e) THEN R("Range01", "event_series_analysis")
  ELSE IF ~MatESCN(e) THEN R("MatrixDef", "EventSeriesClimateNetwork(ES)")
  ELSE IF ~MatESCNECA(e) THEN R("MatrixDef", "EventSeriesClimateNetwork(ECA).event_series_analysis")
  ELSE <<"ACCEPT", "", "", MatTags(e)>>

\* ---- thresholding ------------------------------------------------------------------
ThrDef(e) ==
  LET thrq == IF e.method = "value" THEN e.qa ELSE QuantileTimes(e.col, e.qa, e.qb)
  IN \A k \in 1..Len(e.col) :
       e.obs.ev[k] = (IF Beyond(e.col[k], thrq, e.qb, e.type) THEN 1 ELSE 0)
ThrTags(e) == "thr," \o e.method \o "," \o e.type \o (IF e.dv = 1 THEN ",default_value" ELSE "") \o (IF e.dt = 1 THEN ",default_type" ELSE "")
\* a value threshold outside the range of the data is documented to be refused
OutOfRange(e) == /\ e.method = "value"
                 /\ \/ \A k \in 1..Len(e.col) : e.col[k] * e.qb < e.qa
                    \/ \A k \in 1..Len(e.col) : e.col[k] * e.qb > e.qa
ThrVerdict(e) ==
  IF OutOfRange(e) THEN (IF e.obs.exc = "OSError" THEN <<"ACCEPT", "", "", ThrTags(e) \o ",refused">>
                         ELSE <<"REJECT", "ThresholdRefusal", "make_event_matrix", ThrTags(e)>>)
  ELSE IF e.obs.exc # "" THEN <<"REJECT", "Applicable", e.obs.exc, ThrTags(e)>>
  ELSE IF ~ThrDef(e) THEN <<"REJECT", "ThresholdDef", "make_event_matrix", ThrTags(e)>>
  ELSE <<"ACCEPT", "", "", ThrTags(e)>>

Verdict(e) == IF e.blk = "pair" THEN PairVerdict(e)
              ELSE IF e.blk = "mat" THEN MatVerdict(e) ELSE ThrVerdict(e)
\* all verdicts, evaluated once at constant level (TLC caches LET definitions only there)
Verdicts == TLCEval([k \in 1..Len(Trace) |-> Verdict(Trace[k])])
Init == i = 1
Next == /\ i <= Len(Trace)
        /\ LET v == Verdicts[i]
           IN PrintT(<<"V", Trace[i].case, v[1], v[2], v[3], v[4]>>)
        /\ i' = i + 1
=============================================================================
