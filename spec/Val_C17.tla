------------------------------ MODULE Val_C17 ------------------------------
(* VAL for C17.                                                                  *)
(*  geo / cross : the recorded draws are replayed through RewireCore; the final    *)
(*     network must equal the spec's, the documented invariants must hold, and the   *)
(*     kernel must have consumed exactly the scripted draws.                         *)
(*  seeded : before/after relations of generators whose random source cannot be      *)
(*     scripted (simple undirected loop-free graph, exact link counts, degrees,       *)
(*     untouched blocks).                                                             *)
EXTENDS RewireCore, Json, IOUtils
Trace == ndJsonDeserialize(IOEnv.TRACE_FILE)
VARIABLE i

RECURSIVE GeoReplay(_, _, _, _)
GeoReplay(e, g, k, deg) == IF k > Len(e.hist) THEN g
                           ELSE GeoReplay(e, GeoDraw(g, e.hist[k][1], e.hist[k][2], e.model, e.D, e.eps, deg), k + 1, deg)
GeoVerdict(e) ==
  LET g0 == [A |-> e.A0, edges |-> e.edges0]
      deg == DegreeSeq(e.A0)
      g1 == GeoReplay(e, g0, 1, deg)
      tags == "geo,model" \o e.model \o "," \o e.setup \o "," \o e.drep
  IN IF e.exc # "" THEN <<"REJECT", "DrawsConsumed", "randomly_rewire_geomodel_" \o e.model \o ":" \o e.exc, tags>>
     ELSE IF ~EdgesMatch(g0) THEN <<"REJECT", "EdgeList", "initial edge list", tags>>
     ELSE IF e.used # 2 * Len(e.hist) THEN <<"REJECT", "DrawsConsumed", "randomly_rewire_geomodel_" \o e.model, tags>>
     \* the node count (incl. an isolated highest node) is kept, and that node stays isolated
     ELSE IF e.N1 # Len(e.A0) + e.extra \/ e.shape1 # <<e.N1, e.N1>> \/ e.extra_links # 0
          THEN <<"REJECT", "NodeCount", "randomly_rewire_geomodel_" \o e.model, tags \o (IF e.extra = 1 THEN ",isolated_last_node" ELSE "")>>
     ELSE IF e.A1 # g1.A THEN <<"REJECT", "StepConformance", "randomly_rewire_geomodel_" \o e.model, tags>>
     ELSE IF ~(Simple(e.A1) /\ DegreeSeq(e.A1) = deg) THEN <<"REJECT", "DegreePreserved", "randomly_rewire_geomodel_" \o e.model, tags>>
     ELSE IF ~LengthsWithin(g1, g0, e.D, e.eps, e.iter) THEN <<"REJECT", "LinkLengths", "randomly_rewire_geomodel_" \o e.model, tags>>
     ELSE IF e.model = "III" /\ DegPairs(g1, deg) # DegPairs(g0, deg) THEN <<"REJECT", "DegreePairs", "randomly_rewire_geomodel_III", tags>>
     ELSE <<"ACCEPT", "", "", tags>>

RECURSIVE NonZeroX(_, _, _)
NonZeroX(X, a, b) == IF a > Len(X) THEN <<>> ELSE IF b > Len(X[1]) THEN NonZeroX(X, a + 1, 1)
                     ELSE (IF X[a][b] = 1 THEN << <<a, b>> >> ELSE <<>>) \o NonZeroX(X, a, b + 1)
RECURSIVE CrossReplay(_, _, _)
CrossReplay(e, c, k) == IF k > Len(e.hist) THEN c ELSE CrossReplay(e, CrossDraw(c, e.hist[k][1], e.hist[k][2]), k + 1)
Block(A, r0, r1, c0, c1) == [a \in 1..(r1 - r0 + 1) |-> [b \in 1..(c1 - c0 + 1) |-> A[r0 + a - 1][c0 + b - 1]]]
CrossVerdict(e) ==
  LET n == Len(e.A0)  n1 == e.n1
      c0 == [X |-> e.X0, links |-> NonZeroX(e.X0, 1, 1)]
      c1 == CrossReplay(e, c0, 1)
      tags == "cross," \o e.setup
  IN IF e.exc # "" THEN <<"REJECT", "DrawsConsumed", "RandomlyRewireCrossLinks:" \o e.exc, tags>>
     ELSE IF e.used # 2 * Len(e.hist) THEN <<"REJECT", "DrawsConsumed", "RandomlyRewireCrossLinks", tags>>
     ELSE IF Block(e.A1, 1, n1, n1 + 1, n) # c1.X THEN <<"REJECT", "StepConformance", "RandomlyRewireCrossLinks", tags>>
     ELSE IF ~Simple(e.A1) THEN <<"REJECT", "Simple", "RandomlyRewireCrossLinks", tags>>
     ELSE IF Block(e.A1, 1, n1, 1, n1) # Block(e.A0, 1, n1, 1, n1) \/ Block(e.A1, n1 + 1, n, n1 + 1, n) # Block(e.A0, n1 + 1, n, n1 + 1, n)
          THEN <<"REJECT", "UntouchedBlocks", "RandomlyRewireCrossLinks", tags>>
     ELSE IF RowSums(c1.X) # RowSums(e.X0) \/ ColSums(c1.X) # ColSums(e.X0) THEN <<"REJECT", "CrossDegrees", "RandomlyRewireCrossLinks", tags>>
     ELSE <<"ACCEPT", "", "", tags>>

NLinks(A) == SumN(LAMBDA a : SumN(LAMBDA b : A[a][b], 1, Len(A)), 1, Len(A)) \div 2
CrossCount(A, n1) == SumN(LAMBDA a : SumN(LAMBDA b : A[a][b], n1 + 1, Len(A)), 1, n1)
SeededVerdict(e) ==
  LET tags == "seeded," \o e.gen
      R(c) == <<"REJECT", c, e.gen, tags>>
      n == e.n
  IN IF e.exc # "" THEN R("Applicable")
     ELSE IF ~(Len(e.A1) = n /\ Simple(e.A1)) THEN R("Simple")
     ELSE IF e.gen \in {"ErdosRenyi_links", "ErdosRenyi_p0", "ErdosRenyi_p1", "Model_ErdosRenyi", "GeoModel_ErdosRenyi"}
             /\ NLinks(e.A1) # e.m THEN R("LinkCount")
     ELSE IF e.gen = "BarabasiAlbert" /\ NLinks(e.A1) # e.m * (n - e.m) THEN R("LinkCount")
     ELSE IF e.gen = "BarabasiAlbert_igraph" /\ NLinks(e.A1) > e.m * n THEN R("LinkCount")
     ELSE IF e.gen = "Configuration" /\ ~(\A k \in 1..n : DegreeSeq(e.A1)[k] <= e.deg[k]) THEN R("DegreesBounded")
     ELSE IF e.gen = "randomly_rewire" /\ DegreeSeq(e.A1) # DegreeSeq(e.A0) THEN R("DegreePreserved")
     \* a chain of degree-preserving randomisations on one object: after EVERY step a simple graph on the same
     \* nodes with the degree sequence (hence the link count) it started with
     ELSE IF e.gen = "chain" /\ ~(Len(e.steps) = 3 /\ \A k \in 1..Len(e.steps) :
                                   Len(e.steps[k]) = n /\ Simple(e.steps[k]) /\ DegreeSeq(e.steps[k]) = DegreeSeq(e.A0))
          THEN R("DegreePreserved")
     ELSE IF e.gen \in {"RandomlySetCrossLinks", "RandomlySetCrossLinks_sparse"} /\ e.mode = "count" /\
             ~(/\ Block(e.A1, 1, e.n1, 1, e.n1) = Block(e.A0, 1, e.n1, 1, e.n1)
               /\ Block(e.A1, e.n1 + 1, n, e.n1 + 1, n) = Block(e.A0, e.n1 + 1, n, e.n1 + 1, n)
               /\ CrossCount(e.A1, e.n1) = e.m)
          THEN R("UntouchedBlocks")
     \* prescribed by a density dn/dd: floor(dn * N1 * N2 / dd) cross links (none for density 0); not
     \* prescribed at all: as many as the given network has (null model)
     ELSE IF e.gen \in {"RandomlySetCrossLinks", "RandomlySetCrossLinks_sparse"} /\ e.mode \in {"density", "null"} /\
             ~(/\ Block(e.A1, 1, e.n1, 1, e.n1) = Block(e.A0, 1, e.n1, 1, e.n1)
               /\ Block(e.A1, e.n1 + 1, n, e.n1 + 1, n) = Block(e.A0, e.n1 + 1, n, e.n1 + 1, n))
          THEN R("UntouchedBlocks")
     ELSE IF e.gen \in {"RandomlySetCrossLinks", "RandomlySetCrossLinks_sparse"} /\ e.mode = "density" /\
             CrossCount(e.A1, e.n1) # (e.dn * e.n1 * (n - e.n1)) \div e.dd THEN R("LinkCount")
     ELSE IF e.gen \in {"RandomlySetCrossLinks", "RandomlySetCrossLinks_sparse"} /\ e.mode = "null" /\
             CrossCount(e.A1, e.n1) # CrossCount(e.A0, e.n1) THEN R("LinkCount")
     ELSE <<"ACCEPT", "", "", tags>>
Verdict(e) == IF e.blk = "geo" THEN GeoVerdict(e) ELSE IF e.blk = "cross" THEN CrossVerdict(e) ELSE SeededVerdict(e)
Verdicts == TLCEval([k \in 1..Len(Trace) |-> Verdict(Trace[k])])
Init == i = 1
Next == /\ i <= Len(Trace)
        /\ LET v == Verdicts[i] IN PrintT(<<"V", Trace[i].case, v[1], v[2], v[3], v[4]>>)
        /\ i' = i + 1
=============================================================================
