------------------------------ MODULE Val_C18 ------------------------------
(* VAL for C18: a recorded history construct / update_resistances of a          *)
(* ResNetwork is replayed; the abstract state is the current resistance matrix.   *)
(* Every observation is checked against Defs_Resistive (circuit laws and the       *)
(* defining sums) and against a fresh twin (Functional: everything follows a       *)
(* change of the resistances); Scaling relates the observations before and after    *)
(* the uniform rescaling r3 = 2 * r2.                                               *)
EXTENDS Defs_Resistive, Json, IOUtils

Trace == ndJsonDeserialize(IOEnv.TRACE_FILE)
VARIABLE i
Tol == 60
Tol4 == 25                          \* float32 kernels (scale 10^4)
CloseRel(a, b) == Close(a, b, Max2(Tol, Abs(b) \div 20000))

ERDef(r, o) == \A a \in 1..Len(r) : \A b \in 1..Len(r) : CloseRel(o.er[a][b], EffRes6(r, a, b))
Metric(r, o) ==
  LET n == Len(r) IN
  /\ \A a \in 1..n : o.er[a][a] = 0
  /\ \A a \in 1..n : \A b \in 1..n : a # b => (o.er[a][b] > 0 /\ Close(o.er[a][b], o.er[b][a], Tol))
  /\ \A a \in 1..n : \A b \in 1..n : \A c \in 1..n : o.er[a][c] <= o.er[a][b] + o.er[b][c] + Tol
PathBound(r, o) == LET P == PathResistance(r) IN
  \A a \in 1..Len(r) : \A b \in 1..Len(r) : o.er[a][b] <= 1000000 * P[a][b] + Tol
Foster(r, o) == Abs(FosterSum(r, o.er) - 8 * (Len(r) - 1) * 1000000) <= 8 * Tol * Len(r) * Len(r)
Aggregates(r, o) ==
  LET n == Len(r)  pairs == (n * (n - 1)) \div 2 IN
  /\ CloseRel(o.aer, RDiv(SumN(LAMBDA a : SumN(LAMBDA b : o.er[a][b], a + 1, n), 1, n), pairs))
  /\ CloseRel(o.der, MaxN(LAMBDA a : MaxN(LAMBDA b : o.er[a][b], 1, n, 0), 1, n, 0))
  /\ \A a \in 1..n : CloseRel(o.ercc[a], FxDiv((n - 1) * 1000000, SumN(LAMBDA b : o.er[a][b], 1, n), 1000000))
E4(o) == TLCEval([a \in 1..Len(o.er) |-> TLCEval([b \in 1..Len(o.er) |-> RDiv(o.er[a][b], 100)])])
CurrentFlow(r, o) ==
  LET e4 == E4(o)  n == Len(r) IN
  /\ \A a \in 1..n : Close(o.vcfb[a], Vcfb4(r, e4, a), Tol4)
  /\ \A a \in 1..n : \A b \in 1..n : Close(o.ecfb[a][b], Ecfb4(r, e4, a, b), Tol4)
Admittive(r, o) ==
  LET n == Len(r) IN
  /\ \A a \in 1..n : \A b \in 1..n : Close(o.adm[a][b], 125000 * G8(r, a, b), Tol)
  /\ \A a \in 1..n : Close(o.ad[a], 125000 * AdmDeg8(r, a), Tol)
  /\ \A a \in 1..n : CloseRel(o.anad[a], AvgNbAdmDeg6(r, a))
  /\ \A a \in 1..n : CloseRel(o.lac[a], LocalAdmClustering6(r, a))
  /\ CloseRel(o.gac, RDiv(SumN(LAMBDA a : LocalAdmClustering6(r, a), 1, n), n))
SameObs(o, t) ==
  /\ \A a \in 1..Len(o.er) : \A b \in 1..Len(o.er) : CloseRel(o.er[a][b], t.er[a][b])
  /\ CloseRel(o.aer, t.aer) /\ CloseRel(o.der, t.der)
  /\ \A a \in 1..Len(o.er) : CloseRel(o.ercc[a], t.ercc[a]) /\ Close(o.vcfb[a], t.vcfb[a], Tol4)
  /\ o.ecfb = t.ecfb /\ o.ad = t.ad /\ o.anad = t.anad /\ o.lac = t.lac /\ o.adm = t.adm
\* all resistances doubled: effective resistances double
Scaling(o2, o3) == \A a \in 1..Len(o2.er) : \A b \in 1..Len(o2.er) : CloseRel(o3.er[a][b], 2 * o2.er[a][b])

\* complex impedances z * r with z = 1 + 2i: every effective impedance is z times the effective resistance of
\* r (linearity), the average is the mean over the pairs (real and imaginary part), the closeness is
\* (n-1) / sum = closeness(r) / z = closeness(r) * (1 - 2i) / 5
ComplexFails(o, c, tag) ==
  IF o.exc # "" THEN {}
  ELSE IF c.exc # "" THEN {"Applicable|complex:" \o c.exc \o tag}
  ELSE LET n == Len(o.er)  pairs == (n * (n - 1)) \div 2 IN
    (IF \E a \in 1..n : \E b \in 1..n : ~(CloseRel(c.er_re[a][b], o.er[a][b]) /\ CloseRel(c.er_im[a][b], 2 * o.er[a][b]))
     THEN {"Scaling|complex effective_resistance" \o tag} ELSE {})
    \cup (IF ~(/\ CloseRel(c.aer_re, RDiv(SumN(LAMBDA a : SumN(LAMBDA b : c.er_re[a][b], a + 1, n), 1, n), pairs))
               /\ CloseRel(c.aer_im, RDiv(SumN(LAMBDA a : SumN(LAMBDA b : c.er_im[a][b], a + 1, n), 1, n), pairs)))
          THEN {"Aggregates|complex average" \o tag} ELSE {})
    \cup (IF \E a \in 1..n : ~(CloseRel(5 * c.ercc_re[a], o.ercc[a]) /\ CloseRel(5 * c.ercc_im[a], -2 * o.ercc[a]))
          THEN {"Aggregates|complex closeness" \o tag} ELSE {})
Fails(r, ev) ==
  IF ev.obs.exc # "" THEN {"Applicable|" \o ev.obs.exc}
  ELSE IF ev.twin.exc # "" THEN {"Applicable|twin:" \o ev.twin.exc}
  ELSE LET o == ev.obs IN
    (IF ~ERDef(r, o) THEN {"ERDef|effective_resistance"} ELSE {})
    \cup (IF ~Metric(r, o) THEN {"Metric|effective_resistance"} ELSE {})
    \cup (IF ~PathBound(r, o) THEN {"PathBound|effective_resistance"} ELSE {})
    \cup (IF ~Foster(r, o) THEN {"Foster|effective_resistance"} ELSE {})
    \cup (IF ~Aggregates(r, o) THEN {"Aggregates|average/diameter/closeness"} ELSE {})
    \cup (IF ~CurrentFlow(r, o) THEN {"SumDef|current_flow_betweenness"} ELSE {})
    \cup (IF ~Admittive(r, o) THEN {"SumDef|admittive measures"} ELSE {})
    \cup (IF ~SameObs(o, ev.twin) THEN {"Functional|after " \o ev.key} ELSE {})
Verdict(e) ==
  LET f1 == Fails(e.r, e.events[2])
      f2 == Fails(e.r2, e.events[4])
      f3 == Fails(e.r3, e.events[6])
      f4 == Fails(e.r, e.events[8])     \* back to r, through the caller's own (edited) array
      sc == IF e.events[4].obs.exc = "" /\ e.events[6].obs.exc = "" /\ ~Scaling(e.events[4].obs, e.events[6].obs)
            THEN {"Scaling|effective_resistance"} ELSE {}
      \* r5 = 3/2 r2 (non-integral resistances): effective resistances scale by 3/2, the object equals a fresh twin
      o5 == e.events[10]
      s5 == (IF o5.obs.exc # "" THEN {"Applicable|update4(3/2 r2):" \o o5.obs.exc}
             ELSE (IF ~SameObs(o5.obs, o5.twin) THEN {"Functional|after r5"} ELSE {})
                  \cup (IF e.events[4].obs.exc = "" /\ \E a \in 1..Len(o5.obs.er) : \E b \in 1..Len(o5.obs.er) :
                             ~CloseRel(2 * o5.obs.er[a][b], 3 * e.events[4].obs.er[a][b])
                        THEN {"Scaling|effective_resistance(3/2)"} ELSE {}))
      all == f1 \cup {x \o "@update1" : x \in f2} \cup {x \o "@update2" : x \in f3}
             \cup {x \o "@update3(same array)" : x \in f4} \cup sc \cup s5
             \cup (IF e.events[4].obs.exc # "" THEN {}
                   ELSE IF e.big.exc # "" THEN {"Applicable|update(2^24 r2):" \o e.big.exc}
                   ELSE IF \E a \in 1..e.n : ~Close(e.big.vcfb[a], e.events[4].obs.vcfb[a], Tol4)
                        THEN {"Scaling|vertex_current_flow_betweenness(2^24)"}
                   ELSE IF \E a \in 1..e.n : \E b \in 1..e.n : ~Close(e.big.ecfb[a][b], e.events[4].obs.ecfb[a][b], Tol4)
                        THEN {"Scaling|edge_current_flow_betweenness(2^24)"} ELSE {})
             \cup (IF e.events[4].obs.exc # "" THEN {}
                   ELSE IF e.giga.exc # "" THEN {"Applicable|update(2^30 r -> 2^30 r2):" \o e.giga.exc}
                   ELSE IF \E a \in 1..e.n : \E b \in 1..e.n : ~CloseRel(e.giga.er[a][b], e.events[4].obs.er[a][b])
                        THEN {"Scaling|effective_resistance(2^30 r -> 2^30 r2)"}
                   ELSE IF \E a \in 1..e.n : ~Close(e.giga.vcfb[a], e.events[4].obs.vcfb[a], Tol4)
                        THEN {"Scaling|vertex_current_flow_betweenness(2^30 r -> 2^30 r2)"} ELSE {})
             \cup (IF e.n >= 2 THEN ComplexFails(e.events[2].obs, e.complex[1], "@construct")
                                     \cup ComplexFails(e.events[4].obs, e.complex[2], "@update1") ELSE {})
  IN IF all = {} THEN <<"ACCEPT", "", "", "n" \o ToString(e.n)>>
     ELSE <<"REJECT", "Multi", JoinSet(all), "n" \o ToString(e.n)>>
Verdicts == TLCEval([k \in 1..Len(Trace) |-> Verdict(Trace[k])])
Init == i = 1
Next == /\ i <= Len(Trace)
        /\ LET v == Verdicts[i] IN PrintT(<<"V", Trace[i].case, v[1], v[2], v[3], v[4]>>)
        /\ i' = i + 1
=============================================================================
