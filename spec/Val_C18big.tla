----------------------------- MODULE Val_C18big -----------------------------
(* VAL for C18 on LARGE circuits of unit resistors (nodes 0 .. N-1), four families with closed forms of    *)
(* the defining sums (end nodes of a pair carry nothing: the kernel skips i = s, i = t):                      *)
(*   chain    : a unit current s -> t flows through node i exactly when s < i < t                             *)
(*                VCFB(i) = 2 i (N-1-i) / (N (N-1)),  ECFB(i,i+1) = 2 (i+1) (N-1-i) / (N (N-1)),  ER = |a-b|  *)
(*   ring     : the current splits (N-d)/N : d/N over the two arcs between nodes at distance d                *)
(*                VCFB = (N-2) / (3N) for every node,  ECFB = (N+1) / (3N) for every link,  ER = d (N-d) / N  *)
(*   star     : hub 0; every leaf-leaf current passes the hub                                                 *)
(*                VCFB(hub) = (N-2)/N, VCFB(leaf) = 0,  ECFB(hub,leaf) = 2/N,  ER = 1 (hub-leaf), 2 (leaves)   *)
(*   complete : 2/N over the direct link, 1/N over each of the N-2 two-step paths                             *)
(*                VCFB = (N-2) / N^2,  ECFB = 4 / N^2,  ER = 2/N                                               *)
(* The closed forms are PROVED here against the definitions of Defs_Resistive (determinant form of the        *)
(* effective resistance, defining sums of the betweenness) on every member of up to 6 nodes (beyond, the determinants leave 32 bits); the sums           *)
(* themselves are decided on all small circuits by Val_C18.  Values scaled by 10^6.                             *)
EXTENDS Defs_Resistive, TLC, Json, IOUtils
Trace == ndJsonDeserialize(IOEnv.TRACE_FILE)
VARIABLE i
RingDist(N, a, b) == Min2(Abs(a - b), N - Abs(a - b))
Linked(kind, N, a, b) ==                      \* nodes 0 .. N-1
  a # b /\ CASE kind = "chain" -> Abs(a - b) = 1
             [] kind = "ring" -> RingDist(N, a, b) = 1
             [] kind = "star" -> a = 0 \/ b = 0
             [] OTHER -> TRUE
VcfbC(kind, N, k) ==
  CASE kind = "chain" -> FxDiv(2 * k * (N - 1 - k), N * (N - 1), S)
    [] kind = "ring" -> FxDiv(N - 2, 3 * N, S)
    [] kind = "star" -> IF k = 0 THEN FxDiv(N - 2, N, S) ELSE 0
    [] OTHER -> FxDiv(N - 2, N * N, S)
EcfbC(kind, N, a, b) ==                        \* for a linked pair
  CASE kind = "chain" -> FxDiv(2 * (Min2(a, b) + 1) * (N - 1 - Min2(a, b)), N * (N - 1), S)
    [] kind = "ring" -> FxDiv(N + 1, 3 * N, S)
    [] kind = "star" -> FxDiv(2, N, S)
    [] OTHER -> FxDiv(4, N * N, S)
ErC(kind, N, a, b) ==
  IF a = b THEN 0 ELSE
  CASE kind = "chain" -> S * Abs(a - b)
    [] kind = "ring" -> FxDiv(RingDist(N, a, b) * (N - RingDist(N, a, b)), N, S)
    [] kind = "star" -> IF a = 0 \/ b = 0 THEN S ELSE 2 * S
    [] OTHER -> FxDiv(2, N, S)
\* ---- the closed forms against the definitions (small members) ------------------------------------------
RMat(kind, N) == [a \in 1..N |-> [b \in 1..N |-> IF Linked(kind, N, a - 1, b - 1) THEN 1 ELSE 0]]
Proved(kind, N) ==
  LET r == RMat(kind, N)
      e6 == [a \in 1..N |-> [b \in 1..N |-> EffRes6(r, a, b)]]
      e4 == [a \in 1..N |-> [b \in 1..N |-> RDiv(e6[a][b], 100)]]
  IN /\ \A a \in 1..N : \A b \in 1..N : Abs(e6[a][b] - ErC(kind, N, a - 1, b - 1)) <= 2
     /\ \A a \in 1..N : Abs(100 * Vcfb4(r, e4, a) - VcfbC(kind, N, a - 1)) <= 120
     /\ \A a \in 1..N : \A b \in 1..N : r[a][b] = 1 =>
          Abs(100 * Ecfb4(r, e4, a, b) - EcfbC(kind, N, a - 1, b - 1)) <= 120
\* ---- recorded values: relative tolerance 0.5 % (single-precision kernels), absolute 20 x 10^-6 -----------
Near(x, v) == IsNum(x) /\ Abs(x - v) <= Max2(20, v \div 200)
Kind(e) == IF "kind" \in DOMAIN e THEN e.kind ELSE "chain"
Fails(e) ==
  LET N == e.N  o == e.obs  kd == Kind(e)  nm == "(" \o kd \o ")" IN
  (IF N <= 6 /\ ~Proved(kd, N) THEN {"GenExact|closed forms of the family " \o kd} ELSE {})
  \cup (IF \E k \in 0..(N - 1) : ~Near(o.vcfb[k + 1], VcfbC(kd, N, k))
        THEN {"SumDef|vertex_current_flow_betweenness" \o nm} ELSE {})
  \cup (IF \E k \in 1..Len(o.links) : ~Near(o.ecfb_links[k], EcfbC(kd, N, o.links[k][1], o.links[k][2]))
        THEN {"SumDef|edge_current_flow_betweenness" \o nm} ELSE {})
  \cup (IF o.ecfb_unlinked_max > 20 THEN {"SumDef|edge_current_flow_betweenness" \o nm \o " of unlinked pairs"} ELSE {})
  \cup (IF \E k \in 1..Len(o.er_pairs) : ~Near(o.er[k], ErC(kd, N, o.er_pairs[k][1], o.er_pairs[k][2]))
        THEN {"ERDef|effective_resistance" \o nm} ELSE {})
Tags(e) == Kind(e) \o ",N" \o ToString(e.N)
Verdict(e) == IF e.obs.exc # "" THEN <<"REJECT", "Applicable", e.obs.exc, Tags(e)>>
              ELSE LET f == Fails(e) IN IF f = {} THEN <<"ACCEPT", "", "", Tags(e)>>
                                        ELSE <<"REJECT", "Multi", JoinSet(f), Tags(e)>>
Init == i = 1
Next == /\ i <= Len(Trace)
        /\ LET v == Verdict(Trace[i]) IN PrintT(<<"V", Trace[i].case, v[1], v[2], v[3], v[4]>>)
        /\ i' = i + 1
=============================================================================
