----------------------------- MODULE Val_C18big -----------------------------
(* VAL for C18 on LARGE circuits: a chain of N unit resistors (nodes 0 .. N-1).      *)
(* A unit current from s to t flows through node i exactly when s < i < t, so the      *)
(*   vertex current-flow betweenness of node i = 2 i (N-1-i) / (N (N-1))               *)
(*   effective resistance of (a, b) = |a - b|                                           *)
(*   edge current-flow betweenness of the link (i, i+1) = 2 (i+1) (N-1-i) / (N (N-1))    *)
(* (closed forms of the defining sums; the sums themselves are decided on all small      *)
(* circuits by Val_C18).  Values scaled by 10^4 / 10^6.                                   *)
EXTENDS Integers, Sequences, TLC, Fx, Json, IOUtils
Trace == ndJsonDeserialize(IOEnv.TRACE_FILE)
VARIABLE i
Tol4 == 25
Vcfb4(N, k) == FxDiv(2 * k * (N - 1 - k), N * (N - 1), 10000)
Ecfb4(N, k) == FxDiv(2 * (k + 1) * (N - 1 - k), N * (N - 1), 10000)
Fails(e) ==
  LET N == e.N  o == e.obs IN
  (IF \E k \in 0..(N - 1) : ~Close(o.vcfb[k + 1], Vcfb4(N, k), Tol4) THEN {"SumDef|vertex_current_flow_betweenness(chain)"} ELSE {})
  \cup (IF \E k \in 0..(N - 2) : ~Close(o.ecfb_chain[k + 1], Ecfb4(N, k), Tol4) THEN {"SumDef|edge_current_flow_betweenness(chain)"} ELSE {})
  \cup (IF \E k \in 1..Len(o.er_pairs) : ~Close(o.er[k], 1000000 * Abs(o.er_pairs[k][1] - o.er_pairs[k][2]),
                                                Max2(200, 10 * Abs(o.er_pairs[k][1] - o.er_pairs[k][2])))
        THEN {"ERDef|effective_resistance(chain)"} ELSE {})
Verdict(e) == IF e.obs.exc # "" THEN <<"REJECT", "Applicable", e.obs.exc, "chain,N" \o ToString(e.N)>>
              ELSE LET f == Fails(e) IN IF f = {} THEN <<"ACCEPT", "", "", "chain,N" \o ToString(e.N)>>
                                        ELSE <<"REJECT", "Multi", JoinSet(f), "chain,N" \o ToString(e.N)>>
Init == i = 1
Next == /\ i <= Len(Trace)
        /\ LET v == Verdict(Trace[i]) IN PrintT(<<"V", Trace[i].case, v[1], v[2], v[3], v[4]>>)
        /\ i' = i + 1
=============================================================================
