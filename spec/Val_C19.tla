------------------------------ MODULE Val_C19 ------------------------------
(* VAL for C19: every recorded master / worker event of a run of a distributed  *)
(* measure under the MPI stand-in is replayed through the next-state functions   *)
(* of MpiCore (each event must be enabled with exactly the logged arguments),    *)
(* the run must end in a complete "done" state, and the assembled vector must     *)
(* equal the serial one (Functional).                                             *)
EXTENDS MpiCore, Fx, Json, IOUtils

Trace == ndJsonDeserialize(IOEnv.TRACE_FILE)
VARIABLES i, l, st
Tol == 100

Rec == Trace[i]
Tags(r) == r.measure \o ",W" \o ToString(r.W) \o ",silence" \o ToString(r.silence) \o "," \o r.blk
Init == i = 1 /\ l = 1 /\ st = <<>>
NextCase == i' = i + 1 /\ l' = 1 /\ st' = <<>>
Reject(c, s) == PrintT(<<"V", Rec.case, "REJECT", c, s, Tags(Rec)>>) /\ NextCase
Adv(s) == st' = s /\ l' = l + 1 /\ i' = i
Vectors(r) == /\ Len(r.dist) = Len(r.serial)
              /\ \A k \in 1..Len(r.serial) : Close(r.dist[k], r.serial[k], Max2(Tol, Abs(r.serial[k]) \div 100000))
\* the chunks submitted in one round (one connected component) partition the node range [0, N) of that
\* component: first chunk starts at 0, every chunk is non-empty and starts where its predecessor ends, the last
\* one ends at N - whatever rule the bounds were chosen by (jobs that carry no bounds are not chunks)
Submits(r) == SelectSeq(r.events, LAMBDA ev : ev.ev = "submit")
RoundStart(r, k) == 1 + SumN(LAMBDA j : r.parts[j], 1, k - 1)
ChunkPartition(r) ==
  LET S == Submits(r) IN
  (Len(S) = SumN(LAMBDA j : r.parts[j], 1, Len(r.parts)) /\ \A q \in 1..Len(S) : S[q].lo >= 0) =>
  \A k \in 1..Len(r.parts) :
     LET a == RoundStart(r, k)  b == a + r.parts[k] - 1 IN
     /\ S[a].lo = 0 /\ S[b].hi = S[b].N
     /\ \A q \in a..b : S[q].lo < S[q].hi /\ S[q].N = S[a].N
     /\ \A q \in a..(b - 1) : S[q].hi = S[q + 1].lo
Next ==
  /\ i <= Len(Trace)
  /\ IF l = 1 /\ Rec.serial_exc # "" THEN Reject("Applicable", "serial:" \o Rec.serial_exc)
     ELSE IF l = 1 /\ Rec.exc # "" /\ Rec.events = <<>> THEN Reject("Applicable", "distributed:" \o Rec.exc)
     ELSE LET s0 == IF l = 1 THEN InitState(Rec.W, Rec.parts) ELSE st IN
     IF l > Len(Rec.events)
     THEN IF Rec.exc # "" THEN Reject("Applicable", "distributed:" \o Rec.exc)
          ELSE IF ~(s0.phase = "done" /\ Complete(s0) /\ ResultsRight(s0) /\ Rec.leftover = 0)
               THEN Reject("ProtocolComplete", "end of run")
          ELSE IF ~ChunkPartition(Rec) THEN Reject("ChunkPartition", Rec.measure)
          ELSE IF ~Vectors(Rec) THEN Reject("Functional", Rec.measure)
          ELSE PrintT(<<"V", Rec.case, "ACCEPT", "", "", Tags(Rec)>>) /\ NextCase
     ELSE LET ev == Rec.events[l] IN
          IF ev.ev = "submit"
          THEN IF CanSubmit(s0) /\ ev.id = s0.si /\ ev.slave = ArgMin(s0) THEN Adv(SubmitF(s0, ev.te))
               ELSE Reject("SubmitEnabled", "submit_call@event" \o ToString(l))
          ELSE IF ev.ev = "step"
          THEN IF CanStep(s0, ev.s) /\ Head(s0.inbox[ev.s])[2] = ev.id THEN Adv(StepF(s0, ev.s))
               ELSE Reject("StepEnabled", "serve@event" \o ToString(l))
          ELSE IF ev.ev = "get"
          THEN IF CanGet(s0) /\ ~WouldRaise(s0) /\ ev.id = s0.ci /\ ev.source = Source(s0) THEN Adv(GetF(s0))
               ELSE Reject("GetEnabled", "get_result@event" \o ToString(l))
          ELSE Reject("Exception", "get_result:" \o ev.exc)
=============================================================================
