------------------------------ MODULE Val_C19b ------------------------------
(* VAL for the chunk kernels and the multiprocessing pool of C19: the cut       *)
(* points form a contiguous partition of [0, n) and the assembled result equals  *)
(* the one-chunk result; pool result equals serial result.                       *)
EXTENDS Fx, TLC, Json, IOUtils
Trace == ndJsonDeserialize(IOEnv.TRACE_FILE)
VARIABLE i
Tol == 100
CloseRel(a, b) == Close(a, b, Max2(Tol, Abs(b) \div 100000))
SameVec(a, b) == Len(a) = Len(b) /\ \A k \in 1..Len(a) : CloseRel(a[k], b[k])
IsPartition(n, cuts) == /\ \A k \in 1..Len(cuts) : cuts[k] > 0 /\ cuts[k] < n
                        /\ \A k \in 1..(Len(cuts) - 1) : cuts[k] < cuts[k + 1]
Verdict(e) ==
  IF e.exc # "" THEN <<"REJECT", "Applicable", e.exc, e.blk>>
  ELSE IF e.blk = "chunks"
  THEN IF ~IsPartition(e.n, e.cuts) THEN <<"REJECT", "GenPartition", "cuts", e.blk>>
       ELSE IF ~SameVec(e.asm, e.full) THEN <<"REJECT", "ChunkAgree", e.measure, e.blk>>
       ELSE <<"ACCEPT", "", "", e.blk>>
  ELSE IF ~SameVec(e.dist, e.serial) THEN <<"REJECT", "Functional", "nsi_betweenness(parallelize=True)", e.blk>>
  ELSE <<"ACCEPT", "", "", e.blk>>
Verdicts == TLCEval([k \in 1..Len(Trace) |-> Verdict(Trace[k])])
Init == i = 1
Next == /\ i <= Len(Trace)
        /\ LET v == Verdicts[i] IN PrintT(<<"V", Trace[i].case, v[1], v[2], v[3], v[4]>>)
        /\ i' = i + 1
=============================================================================
