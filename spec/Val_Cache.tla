------------------------------ MODULE Val_Cache ------------------------------
(* Trace validation of the memoisation MECHANISM against CacheProtocol.            *)
(* A record is the sequence of cache lookups the guarded hook in core/cache.py      *)
(* reported while a history was replayed: per lookup the decorated function f,      *)
(* the key k (dictionary code of <<object id, __cache_state__(), attrs values,      *)
(* arguments, argument types>> taken BEFORE the lookup and compared with Python's   *)
(* own ==/hash) and whether the real cache hit.  The spec replays the lookups       *)
(* through CacheProtocol's Lookup action (LRU per function, rec.maxsize slots) and  *)
(* checks                                                                            *)
(*   HitOnlyOnStoredKey : a real hit happens only on a key the model holds, i.e.     *)
(*                        the real key is exactly the documented key material        *)
(*                        (a hit on an unseen key means part of the state is not in  *)
(*                        the key: the value returned was computed for other inputs) *)
(* A real miss on a key the model holds is allowed (cache_clear calls are not        *)
(* logged; a spurious miss costs time, not correctness) and only counted.            *)
EXTENDS Integers, Sequences, FiniteSets, TLC, Json, IOUtils

Trace == ndJsonDeserialize(IOEnv.TRACE_FILE)
VARIABLES i, l, cache, spur
Rec == Trace[i]
Tab(f) == IF f \in DOMAIN cache THEN cache[f] ELSE <<>>
Pos(s, k) == {j \in 1..Len(s) : s[j] = k}
Without(s, j) == [x \in 1..(Len(s) - 1) |-> IF x < j THEN s[x] ELSE s[x + 1]]
Touch(s, k, max) ==
  IF Pos(s, k) # {} THEN Append(Without(s, CHOOSE j \in Pos(s, k) : TRUE), k)
  ELSE LET t == Append(s, k) IN IF Len(t) > max THEN Tail(t) ELSE t
Upd(f, s) == [g \in DOMAIN cache \cup {f} |-> IF g = f THEN s ELSE cache[g]]

Init == i = 1 /\ l = 1 /\ cache = <<>> /\ spur = 0
NextCase == i' = i + 1 /\ l' = 1 /\ cache' = <<>> /\ spur' = 0
Next ==
  /\ i <= Len(Trace)
  /\ IF l > Len(Rec.events)
     THEN /\ PrintT(<<"V", Rec.case, "ACCEPT", "", "",
                      Rec.family \o (IF spur > 0 THEN ",spurious_miss" ELSE "")>>)
          /\ NextCase
     ELSE LET ev == Rec.events[l]  s == Tab(ev.f)  present == Pos(s, ev.k) # {} IN
          IF ev.hit = 1 /\ ~present
          THEN PrintT(<<"V", Rec.case, "REJECT", "HitOnlyOnStoredKey", ev.site, Rec.family>>) /\ NextCase
          ELSE /\ cache' = Upd(ev.f, Touch(s, ev.k, Rec.maxsize))
               /\ spur' = spur + (IF ev.hit = 0 /\ present THEN 1 ELSE 0)
               /\ l' = l + 1 /\ i' = i
=============================================================================
