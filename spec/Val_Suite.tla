------------------------------ MODULE Val_Suite ------------------------------
(* VAL for C01 (and C06): the lookup log of the repository's OWN test suite.       *)
(* Every test of the suite ran with the guarded lookup hook in shadow mode; each    *)
(* record is one test with the number of cache hits / misses it caused and the      *)
(* hits whose re-evaluation on the object's current state differed from what the     *)
(* cache returned.  NoStaleHit must hold in every test - the suite's own assertions   *)
(* are too weak to see a stale value of the right shape; the shadow evaluation is not. *)
EXTENDS Integers, Sequences, TLC, Json, IOUtils, Fx
Trace == ndJsonDeserialize(IOEnv.TRACE_FILE)
VARIABLE i
Verdict(e) == IF e.stale # <<>> THEN <<"REJECT", "NoStaleHit", JoinSet({e.stale[k] : k \in 1..Len(e.stale)}), "suite">>
              ELSE <<"ACCEPT", "", "", "suite">>
Init == i = 1
Next == /\ i <= Len(Trace)
        /\ LET v == Verdict(Trace[i]) IN PrintT(<<"V", Trace[i].case, v[1], v[2], v[3], v[4]>>)
        /\ i' = i + 1
=============================================================================
