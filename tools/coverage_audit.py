#!/venv/bin/python
"""Which functions of a property's anchored source files does its quick check never execute?
usage: tools/coverage_audit.py <ID> [<ID> ...]      (audit aid, not a check)"""
import ast
import glob
import json
import os
import shutil
import subprocess
import sys

import coverage

props = {json.loads(l)["id"]: json.loads(l) for l in open("/verif/properties.jsonl")}
for pid in sys.argv[1:]:
    d = "/var/tmp/verif_cov_%s" % pid
    shutil.rmtree(d, ignore_errors=True)
    os.makedirs(d)
    env = dict(os.environ, VERIF_COVERAGE=d, VERIF_EVIDENCE_DIR=d + "/evidence")
    r = subprocess.run(["/verif/check", pid, "--tier", "quick"], env=env, capture_output=True, text=True)
    print("==", pid, r.stdout.strip().splitlines()[-1][:120] if r.stdout.strip() else r.stderr[-300:])
    files = glob.glob(d + "/cov.*")
    if not files:
        print("   no coverage data")
        continue
    cov = coverage.Coverage(data_file=d + "/combined")
    cov.combine(files)
    data = cov.get_data()
    executed = {}
    for f in data.measured_files():
        key = f.split("/pyunicorn/", 1)[-1]
        executed.setdefault(key, set()).update(data.lines(f) or [])
    for anchor in props[pid]["anchors"]["files"]:
        if not anchor.endswith(".py"):
            continue
        key = anchor.split("/pyunicorn/", 1)[-1]
        src = open("/repo/" + anchor).read()
        tree = ast.parse(src)
        lines = executed.get(key, set())
        missing = []
        for node in ast.walk(tree):
            if isinstance(node, (ast.FunctionDef, ast.AsyncFunctionDef)):
                body = [n.lineno for n in ast.walk(node) if hasattr(n, "lineno") and n is not node
                        and not isinstance(n, (ast.Expr,)) ]
                body = [l for l in body if l > node.body[0].lineno - 1]
                if body and not (set(body) & lines):
                    missing.append(node.name)
        print("   %-55s never executed: %s" % (key, ", ".join(sorted(set(missing))) or "-"))
    shutil.rmtree(d, ignore_errors=True)
