#!/venv/bin/python
"""Debug helper: run GEN->RUN->VAL for a property on a few cases and time each VAL.
usage: tools/dbg.py <prop> <gen ndjson> <case ids or slice a:b> """
import json, sys, time, os
sys.path.insert(0, os.path.dirname(os.path.dirname(os.path.abspath(__file__))))
from vlib import core, tlc
import importlib

pid, genfile, sel = sys.argv[1], sys.argv[2], sys.argv[3]
cases = [json.loads(l) for l in open(genfile)]
if ":" in sel:
    a, b = sel.split(":")
    cases = cases[int(a):int(b)]
else:
    ids = set(sel.split(","))
    cases = [c for c in cases if c["case"] in ids]
ctx = core.Ctx(pid.upper(), "quick", 0)
mod = importlib.import_module("props." + pid.lower())
recs = ctx.run_cases("props.%s.run_case" % pid.lower(), cases, jobs=4)
for r in recs:
    f = os.path.join(ctx.work, "one.ndjson")
    tlc.write_ndjson(f, [r])
    t = time.time()
    res = tlc.run("Val_" + pid.upper(), "Val_" + pid.upper(), env={"TRACE_FILE": f}, timeout=300)
    print(r["case"], r.get("n"), r.get("blk"), "%.1fs" % (time.time() - t), res.verdicts("V") or res.out[-1500:])
ctx.cleanup()
