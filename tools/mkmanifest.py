#!/venv/bin/python
"""Regenerates /verif/MANIFEST.json from the table below (single source of truth)."""
import json
import os

ROOT = os.path.dirname(os.path.dirname(os.path.abspath(__file__)))

CHECKS = {
    "C14": dict(
        technique="TLA+ definition (Defs_Visibility) + TLC-enumerated inputs replayed on the code + TLC trace validation (Val_C14)",
        text="TLC enumerates the complete small scope of series/timings/missing masks/graph types (Gen_C14), each case is "
             "replayed on VisibilityGraph (input, time reversal, dyadic affine image) and TLC decides every recorded "
             "execution against the integer cross-multiplied visibility criterion and the metamorphic clauses "
             "(AffineInv, TimeReversal, Exchange of retarded/advanced measures, DegSplit, ClustDef).",
        note="Exact on integer/dyadic data only (float32 kernels are exact there); trusted: TLC, the JSON encoding of "
             "results (vlib/enc.py), the adapter props/c14.py.  Bounded scope: lengths and alphabets in Gen_C14_*.cfg.",
        ref="6/C14"),
}

CHECKS["C08"] = dict(
    technique="TLA+ run-length definitions (Defs_Lines, design-checked in MC_Lines) + TLC-enumerated matrices realised via CraftSeries + TLC trace validation (Val_C08)",
    text="TLC model-checks that the scan formulation equals the declarative maximal-run definition (MC_Lines), enumerates every "
         "symmetric unit-diagonal 0/1 matrix up to the cfg size with missing masks (Gen_C08); each is realised through the public "
         "RecurrencePlot constructor in matrix and sequential mode and TLC decides the recorded histograms, conservation laws, "
         "sequential=matrix, and DET/L/ENTR/LAM/TT/MRT/max lengths for l_min 1..3 against the definitions; seeded dyadic random "
         "series (three metrics, local rate => non-symmetric) are validated the same way.",
    note="Entropies through a generated integer ln table (spec/Tables.tla, trusted); tolerance 2e-5 (3e-3 above 6x6). "
         "Sequential mode checked on dyadic data only (float32 threshold is exact there).",
    ref="6/C08")

CHECKS["C16"] = dict(
    technique="TLA+ counting definitions (Defs_Events) + TLC-enumerated event pairs/configurations replayed on the code + TLC trace validation (Val_C16)",
    text="TLC enumerates all ordered pairs of 0/1 sequences of the cfg lengths under every (timestamps, taumax, lag) configuration, "
         "3-column event matrices and thresholding inputs (Gen_C16); the static ES/ECA methods, event_series_analysis with all "
         "symmetrisations/window types and make_event_matrix are replayed (also exchanged, shifted, rescaled) and TLC decides ESDef, "
         "ECADef, Range01, Exchange, ShiftInv, ScaleInv, MatrixDef, Symmetrisation, ThresholdDef on the records.",
    note="ES normalisation through a generated 1/sqrt table (trusted); dyadic timestamps only; an undefined rate (no admissible "
         "event) is not compared; with an event-free series nan or the formula value are both accepted.",
    ref="6/C16")

CHECKS["C07"] = dict(
    technique="TLA+ definitions (Defs_Recurrence, Defs_Lines) + TLC-enumerated series/modes replayed on all six recurrence classes + TLC trace validation (Val_C07)",
    text="TLC enumerates all scalar series over {0,1,2} up to the cfg length with embeddings, the three metrics, every construction mode "
         "(fixed threshold incl. d=eps ties, global rate, local rate, adaptive size), missing masks, 2-D series, unequal-length pairs and "
         "lagged equal-length pairs (Gen_C07); each is replayed on RecurrencePlot/RecurrenceNetwork, CrossRecurrencePlot/InterSystem"
         "RecurrenceNetwork, JointRecurrencePlot/JointRecurrenceNetwork and TLC decides MatrixDef (order-statistic thresholds), Sizes, "
         "Composition, NetDef, RateDef and applicability of every RQA method (run-length counts of the reported matrix).",
    note="Integer-valued data (exact in float32); euclidean distances compared through squares; adaptive variant only by its stated "
         "guarantee (symmetric, >= m neighbours); normalize is not driven.",
    ref="6/C07")

CHECKS["C13"] = dict(
    technique="TLA+ state machine (DataSM) + TLC-enumerated window histories replayed on ClimateData + TLC trace validation through the DataSM actions (Val_C13)",
    text="DataSM specifies Data/ClimateData as a state machine whose only mutable abstract state is the current selection; Gen_C13 "
         "enumerates its behaviours (Construct, then <=3 SetWindow/SetGlobalWindow steps over an alphabet with bounds on, between and "
         "outside samples and the equal-bounds conventions; cycles 1..4, both anomalies flags); each behaviour is replayed on the real "
         "object, all observations are recorded after every step, and TLC replays the trace through the DataSM actions deciding "
         "WindowDef, Shapes, PhaseDef, AnomalyDef (zero phase sums, anomaly + phase mean = observable) at every step.",
    note="Integer observables/coordinates (exact in float32 grids); windows selecting no sample or node are outside the scope; "
         "Data.Load / NetCDF input is not driven.",
    ref="6/C13")

CHECKS["C09"] = dict(
    technique="TLA+ state machine (ClimateSM) + TLC-generated setter histories replayed on ClimateNetwork with a fresh twin + TLC trace validation (Val_C09)",
    text="ClimateSM specifies a similarity network as a state machine (threshold, pending density request, non_local flag, set of past "
         "observations); Gen_C09 generates constructor + setter histories over all symmetric 3-node similarity matrices with entries k/4 "
         "(signs, ties, three diagonals) and 4-node (also directed) ones; every step is replayed on ClimateNetwork, the object and a fresh "
         "twin are observed, and TLC replays the trace deciding LinkDef (strict >, |S|), NonLocalSubset, DensityBound (never above the "
         "request, miss <= ties), Monotone over the whole history, Consistent (threshold/density/n_links/adjacency) and Functional "
         "(object = twin, incl. memoised degree and three more measures) at every step.",
    note="tanh distance weighting is only constrained relationally (non-local links are a subset of local links at equal threshold); "
         "data-driven subclasses (Tsonis, Hilbert) are decided up to a margin around the threshold (Val_C09d).",
    ref="6/C09")

CHECKS["C03"] = dict(
    technique="TLA+ definitions (Defs_Network) + TLC-enumerated graphs replayed on Network + TLC evaluation of every definition on the recorded adjacency (Val_C03)",
    text="Gen_C03 enumerates every labelled undirected graph up to NU nodes, every directed graph up to ND nodes and structured families "
         "(paths, cycles, stars, cliques, complete bipartite, disjoint unions, isolated nodes), each with unit and non-unit integer node "
         "weights; ~55 measures per graph are recorded from Network and TLC evaluates their definitions (min-plus closure distances, "
         "layered path counts, pairwise betweenness sums, subset-defined cores and cliques, n.s.i. sums) on the recorded adjacency, "
         "rejecting the first measure that differs or raises where it is defined; seeded random graphs of 6..10 nodes are validated the "
         "same way.",
    note="Defined() withdraws the clause where the library only forwards an igraph convention (closeness/average path length on "
         "disconnected or directed graphs); Newman's random-walk betweenness is defined electrically (spanning-tree determinants, Defs_RandomWalk) on connected undirected graphs of up to 6 nodes and by closed laws on trees / complete graphs beyond; Arenas' variant is defined by expected arrivals (adjugates of the integer absorbing matrices) up to 5 nodes; the n.s.i. random-walk measures have no definition (C01/C02/C04/C06 only); eigenvector "
         "centrality and PageRank are decided as residual conditions.  Fixed point 10^-6, tolerance 4e-5.",
    ref="6/C03")

CHECKS["C02"] = dict(
    technique="TLA+ Split action (NetworkSM) + design-level TLC check that the n.s.i. definitions are Split-invariant (MC_Nsi) + TLC-enumerated split behaviours replayed on Network + TLC trace validation (Val_C02)",
    text="NetworkSM specifies the node-splitting construction as an action Split(v,p) on the abstract network; MC_Nsi lets TLC check that "
         "the n.s.i. definitions of Defs_Network are invariant under Split on every small weighted graph (design level).  Gen_C02 "
         "enumerates graphs (all undirected <= NU, directed <= ND, families) x nodes x p in {1/4,1/2,3/4} followed by a second split; "
         "splitted_copy is replayed, its result must equal Split(abs) exactly, and TLC decides NsiAgree (global equal, per-node equal on "
         "old nodes and twin = v, pairwise equal on old pairs) for every nsi_* method discovered on the object incl. typical_weight, "
         "sources/targets, add_local_ends, exclude_neighbors and twinness argument patterns.",
    note="Measures undefined on the instance are withdrawn (nsi_eigenvector_centrality unless undirected+connected+>=3 nodes; "
         "shortest-path and random-walk betweenness on directed networks); four methods are excluded by name (see evidence). "
         "Two-group (InteractingNetworks) n.s.i. measures: undirected networks only.  Tolerance 6e-5.",
    ref="6/C02")

CHECKS["C04"] = dict(
    technique="TLA+ Permute action (NetworkSM) + TLC-enumerated graphs x all n! permutations replayed on permuted_copy + TLC trace validation (Val_C04)",
    text="NetworkSM specifies renumbering as an action Permute(pi); Gen_C04 enumerates every undirected graph up to NU nodes and directed "
         "graph up to ND nodes with all n! permutations (content-derived affine permutations beyond NP nodes); permuted_copy is replayed, "
         "must equal Permute(abs, pi), and TLC decides PermAgree for every argument-free public method discovered on the object "
         "(scalars equal, vectors/matrices renumbered, distributions equal) plus group-taking measures whose node lists are renumbered "
         "and presented in another order.",
    note="Eigenvector centralities are withdrawn on directed / disconnected graphs (no unique Perron vector), random-walk betweenness on "
         "directed graphs.  Spatial / interacting / resistive / recurrence-type networks are renumbered under the C11, C18 and C12 "
         "checks where their measures are driven; this check drives class Network.",
    ref="6/C04")

CHECKS["C11"] = dict(
    technique="TLA+ sub-block definitions (Defs_Interacting) + TLC-enumerated graphs x ordered pairs of disjoint node lists replayed on InteractingNetworks + TLC trace validation (Val_C11)",
    text="Gen_C11 enumerates every undirected graph up to NU nodes (directed up to ND) with every ordered pair of disjoint non-empty "
         "node sets (content-derived pairs beyond NB nodes), each list in an unsorted order, weights over {1,2,3}; all 45 cross_/internal_/"
         "nsi_cross_/nsi_internal_ methods are observed for (G1,G2), (G2,G1) and (all,all) and TLC decides Def (each measure equals its "
         "definition on the sub-blocks taken in list order), DenseEqSparse, SwapSym and WholeLimit, reporting every failing site.",
    note="Clustering-type cross measures are defined on undirected networks only; 0/0 cases are withdrawn; "
         "internal_global_clustering has no sub-block definition (library averages whole-network clustering) and is covered by "
         "WholeLimit only; the n.s.i. cross average path length is a recorded finding (normalised with group 1 twice, "
         "pinned by a repository test).",
    ref="6/C11")

CHECKS["C19"] = dict(
    technique="TLA+ protocol model (MpiCore/MpiProtocol) model-checked by TLC incl. liveness + TLC-enumerated behaviours replayed on the real utils/mpi.py under an in-process MPI stand-in + TLC trace validation of every master/worker event (Val_C19)",
    text="MpiProtocol specifies the master/worker job protocol (argmin placement, per-worker FIFO channels, in-order collection, rounds per "
         "component); TLC checks ResultsRight, NoException, QueueConsistent, CleanRound, Complete, deadlock freedom and termination over all "
         "interleavings, and MC_Chunks checks that the chunk arithmetic partitions [0,N) for N<=64 and workers 2..N+2.  Every complete "
         "behaviour with atomic worker steps is replayed on the real code (newman, n.s.i. newman, n.s.i. arenas betweenness; graphs with "
         "several components; silence 0..3), further worker counts 2..N+2 run under lazy/eager/reverse/random schedules; TLC replays all "
         "recorded events through the MpiCore next-state functions, requires a complete final state and the assembled vector equal to the "
         "serial run.  Chunk kernels are called on every contiguous partition of small node ranges; the multiprocessing pool variant of "
         "nsi_betweenness is compared once per run.",
    note="mpi4py is replaced by an in-process stand-in (vlib/mpistandin.py): real MPI transport, process failure and timing are out of "
         "scope; a worker's receive-compute-send is one scheduling step; tolerance 1e-4 absolute / 1e-5 relative.",
    ref="6/C19")

CHECKS["C01"] = dict(
    technique="TLA+ object state machine (ObjectSM) + TLC-enumerated mutator histories replayed on 13 class families with a fresh twin + TLC trace validation through ObjectSM (Val_C01: TwinBinding, Functional)",
    text="ObjectSM specifies a memoising analysis object as a state machine over primary-input tokens with hand-written mutator effect "
         "tables per class family (Network, directed Network, InteractingNetworks, GeoNetwork, ResNetwork, RecurrencePlot, RecurrenceNetwork, "
         "CrossRecurrencePlot, JointRecurrencePlot, JointRecurrenceNetwork, ClimateNetwork, ClimateData, VisibilityGraph); TLC enumerates "
         "every mutator history of the cfg depth, each is replayed on the real class and after every step ALL public argument-free methods "
         "discovered on the object, argument patterns (link-attribute keys, typical weights, node groups, l_min) and summary attributes are "
         "observed on the object and on a fresh twin built from the current abstract state; TLC replays the trace through ObjectSM and "
         "decides at every step that the twin was built from the spec's state and that every observation equals the twin's.",
    note="Oracle is a fresh twin, not a number.  Eigenvector centralities are not observed on directed / possibly disconnected networks "
         "(not unique); random methods and plotting/IO are on an explicit skip list (props/netcommon.py).  Two concrete values per "
         "component; histories of length 2 (quick) / 3 (thorough).",
    ref="6/C01")

CHECKS["C05"] = dict(
    technique="TLA+ constructor-path model (NetworkSM!Paths, summary definitions) + TLC-enumerated graphs realised through 16 constructor / file paths + TLC trace validation (Val_C05: ReprDef, Functional panel)",
    text="Gen_C05 enumerates every undirected graph up to NU nodes (incl. edgeless, single-link, N=1,2) and directed graph up to ND nodes "
         "with unit / non-unit node weights and with / without a link attribute; each abstract network is realised through every path of "
         "NetworkSM!Paths (dense list, ndarray, csr/csc/coo/lil/dok, edge list +/- n_nodes, igraph object, copy, undirected_copy, "
         "save->Load for graphml, graphmlz, pickle, gml) and TLC checks for every path N, n_links, link_density, adjacency (symmetric, "
         "empty diagonal), sp_A, embedded graph, node weights with total and mean, link attribute against the abstract network, and a "
         "panel of measures that consume the internal representation against the dense path.",
    note="ClimateNetwork save / Load is a recorded finding (Load raises for every saved network); gml loses the node weights "
         "(recorded finding); undirected_copy is not required to keep link attributes.",
    ref="6/C05")

CHECKS["C06"] = dict(
    technique="TLA+ object state machine (ObjectSM: a query is not a mutator) + every query of 15 classes replayed cold/warm before ALL other queries against a fresh twin, with content digests of caller-owned arrays + TLC validation (Val_C06: Pure, Repeatable, InputsUntouched)",
    text="For every class under test (Network, directed Network, the recurrence-plot family, VisibilityGraph, InterSystemRecurrenceNetwork, "
         "Surrogates, ClimateNetwork, ResNetwork, Tsonis/Spearman/MutualInfo climate networks on a shared ClimateData) and EVERY discovered "
         "query q: the object is built from caller-owned arrays, q runs on a cold object (or after all queries, warm), is repeated, then all "
         "queries run and are compared with all queries on a fresh twin that never ran q - so every ordered pair (q, b) is covered; digests "
         "of caller-owned arrays and shared data objects are taken before construction and after.  TLC decides Pure, Repeatable and "
         "InputsUntouched per case and names every interfering pair.",
    note="Random queries are observed through a deterministic functional of their result (sorted values; spectral amplitudes at non-zero, "
         "non-Nyquist frequencies).  Triples of queries are covered only through the warm mode (ALL, q, ALL).  Methods documented as "
         "in-place (normalize_*) are not called on caller arrays.",
    ref="6/C06")

CHECKS["C18"] = dict(
    technique="TLA+ circuit definitions (Defs_Resistive over LinAlg determinants) + TLC-enumerated connected resistor networks with update histories replayed on ResNetwork with a fresh twin + TLC trace validation (Val_C18)",
    text="Gen_C18 enumerates every connected graph up to NU nodes with link resistances from {1,2,4} (all assignments for small graphs) "
         "followed by two update_resistances steps (a second assignment and its uniform rescaling by 2); after every step all pairwise "
         "effective resistances, average/diameter/closeness, vertex and edge current-flow betweenness, admittive degree and clustering are "
         "observed (diameter BEFORE average after an update) on the object and on a fresh twin.  TLC decides ERDef (ratio of two "
         "determinants of the integer conductance Laplacian), Metric, PathBound, Foster, Scaling, the aggregates, the defining sums of "
         "current-flow betweenness and admittive measures, and Functional after every update.",
    note="Definitions (determinant ratios) for real resistances; complex impedances by linearity in a common complex factor, "
         "the aggregates and Functional; "
         "current-flow kernels are float32: tolerance 2.5e-3; series/parallel laws are instances of ERDef on paths and cycles.",
    ref="6/C18")

CHECKS["C17"] = dict(
    technique="TLA+ nondeterministic rewiring models (RewireCore, RewireSM, CrossSM: the random choice is an explicit action parameter) model-checked by TLC + every behaviour replayed on the real kernels with a scripted random source + TLC trace validation (Val_C17)",
    text="RewireSM / CrossSM specify the geographical rewiring models I-III and the cross-link rewiring as state machines whose random "
         "draws are action parameters; TLC explores every sequence of accepted and rejected draws on lattice set-ups and checks Simple, "
         "degree sequence, edge-list consistency, link-length classes within the tolerance, degree pairs (model III), cross degrees in "
         "every state.  Every behaviour ending in an accepted draw is replayed on randomly_rewire_geomodel_I/II/III and "
         "RandomlyRewireCrossLinks with numpy's random source scripted to exactly these draws; TLC replays the draws through RewireCore and "
         "requires the same final network, the invariants, untouched internal blocks and exactly the scripted draws consumed.  Generators "
         "backed by igraph's RNG (ErdosRenyi(n_links), BarabasiAlbert, Configuration, WattsStrogatz, randomly_rewire, RandomlySetCross"
         "Links(_sparse), set_random_links_by_distance) run over seeds and TLC checks the before/after relation.",
    note="igraph-internal randomness cannot be scripted: only the stated relation is checked there, per seed.  Integer lattice "
         "coordinates (exact float32 distances).",
    ref="6/C17")

CHECKS["C15"] = dict(
    technique="TLA+ definitions of the surrogate guarantees (Defs_Surrogates: multiset equality, fixed-point DFT power spectrum, twins, twin-walk transition relation) + TLC-generated data/patterns replayed on Surrogates + TLC trace validation (Val_C15)",
    text="Gen_C15 generates data sets of every length 3..12 (odd and even) with k in {1,2,3,5} repeated calls on one object and seeds, and "
         "every pattern over {0,1,2} of the cfg length (a distinct-valued series whose states recur exactly when the patterns agree) with "
         "embedding dimension 1..2 and min_dist 0..2.  TLC decides on the recorded surrogates: row-wise permutation-exactness (shuffle, "
         "AAFT, refined AAFT true amplitudes), amplitude spectrum at every non-zero non-Nyquist frequency via a fixed-point DFT with "
         "generated cos/sin tables (Fourier, refined AAFT true spectrum) also after repeated calls, the original data untouched, "
         "TwinsDef (exactly the pairs further apart than min_dist with identical recurrence rows and more than one neighbour) and "
         "TwinWalk (every step goes to the own successor or the successor of a twin, or restarts at the end).",
    note="Spectra compared to 2 % (fixed-point squares); the twin walk of Surrogates is replayed choice by choice "
         "(TwinWalkSM, scripted random source) on patterns of length 4 (quick) / 5 (thorough) with at most 3 free "
         "draws; RecurrencePlot.twin_surrogates is checked as a relation on seeded runs only.",
    ref="6/C15")

CHECKS["C12"] = dict(
    technique="TLA+ closed-form geometry on the exact sub-domain (Defs_Geometry: whole-degree great-circle angles, integer squared distances, tabulated cos-lat) + TLC-generated grids replayed on Grid/GeoGrid/GeoNetwork + TLC validation of recorded matrices incl. metric laws (Val_C12)",
    text="Gen_C12 generates grids of integer-degree points incl. both poles, -180/180 and 0/360 longitudes, coincident and antipodal points, "
         "integer lattices in 1-4 dimensions, rectangular grids and nearest-node queries with exact distances; TLC compares every pair whose "
         "great-circle angle is a whole number of degrees (common meridian circle, equator, pole, coincident, antipodal) with the closed form "
         "to 2^-10 rad, Euclidean distances with exact squared distances, and decides exact symmetry, range [0, pi], self-distance, the "
         "triangle inequality with 2^-10 slack (also on seeded general-position coordinates), Cartesian-product enumeration, nearest-node "
         "lookup within the arg-min set, cos-lat node weights, area-weighted connectivity and max link distance consistency.",
    note="Closed-form equality at generic pairs is decided for integer-degree coordinates only (haversine through generated sine "
         "tables at scale 10^-8, fixed-point error < 15 units); the relative bound is decided in the form 'error of the haversine <= "
         "10^-6' (about 2^-19 rad at a right angle), not as 2^-20; real-valued coordinates stay under the metric laws only; cos-lat "
         "through a generated sine table (1e-4).",
    ref="6/C12")

CHECKS["C10"] = dict(
    technique="TLA+ exact rational statistics on integer data (Defs_Coupling: sign and r^2 of Pearson / lagged cross-correlation, mid-rank Spearman, Gaussian MI via ln table) + TLC-enumerated data sets replayed on CouplingAnalysis and the climate similarity classes + TLC validation (Val_C10)",
    text="Gen_C10 enumerates integer data sets (every first series over {0,1,2} of the cfg lengths; delayed copy; anti-correlated / duplicated "
         "/ constant / derived third series; tau_max 0..2).  TLC decides on the recorded estimates: sign and r^2 of every lagged "
         "cross-correlation in both lag modes (lag inside the arg-max set, ties undecided), max = all at the reported lag, "
         "symmetrize_by_absmax, bounds, Gaussian mutual information -1/2 ln(1-r^2) through a generated ln table, Pearson (Tsonis) and "
         "Spearman (mid-ranks) climate similarities, agreement of compiled and pure-Python CouplingAnalysis at lag 0, invariance under "
         "positive affine maps and consistency under reordering of the series.",
    note="PARTIAL: kNN mutual information and non-Gaussian (kNN / binned) information transfer are not decided beyond the relations "
         "(digamma, random tie-breaking noise); the binned MI of CouplingAnalysis is decided against the value the library is "
         "pinned to (recorded finding: normalised by T instead of T - tau_max); accuracy decided to 1.5e-3 "
         "(float32 kernels), not single precision; the climate classes store absolute similarities, so their sign is not compared.",
    ref="6/C10")

NOT_APPLICABLE = {
    "C20": "memory safety of compiled kernels is a property of concrete addresses, not of abstract state a TLA+ "
           "specification maintains; nothing binds a PlusCal transcription of index arithmetic to the compiled code "
           "(DESIGN section 10)",
}

NOT_YET = []


EXT = {
    "C01": " Added in the second session: the guarded lookup hook in core/cache.py (shadow re-evaluation of every cache hit -> clause "
           "NoStaleHit; key-material log validated by Val_Cache against CacheProtocol.tla, itself model-checked with two negative "
           "controls); families Surrogates, Tsonis, Hilbert, InterSystemRecurrenceNetwork, CoupledClimateNetwork, "
           "EventSeriesClimateNetwork; same-array mutators; disconnected token-2 graphs."
           ' Third round: the mutator `node_weights~getset` (the caller edits the array the object hands out and assigns it back); randomly_rewire as a mutator; families Spearman, PartialCorrelation, MutualInfo and Havlin climate networks (set_winter_only / set_max_delay).',
    "C02": " Added: every third case on a warm object re-weighted in place; group-indexed n.s.i. cross / internal measures of "
           "InteractingNetworks under Split."
           " Third round: every fourth case uses non-dyadic weights (1.1/1.7/2.5) and proportions (3/10, 7/10); the twins' weights must add up to v's weight to double precision; link-weighted variants (n.s.i. strengths and weighted motif clusterings with a link attribute handed on by splitted_copy).",
    "C03": " Added: OrderIndependent (same queries in the opposite order on a fresh object); link-weighted variants (strengths, "
           "Fagiolo motif clustering with W^[1/3], weighted path lengths); degree assortativity; eigenvector centrality and "
           "PageRank as residual conditions."
           ' Third round: average path length, closeness and efficiency with link lengths (definitions + order independence); windmill graphs with hub degrees 132 and 256 whose closed-form local and global measures are proved against the definitions on the small instances (Val_C03w).',
    "C04": " Added: list-indexed cross / internal measures of InteractingNetworks under renumbering (balanced split from the spec)."
           " Third round: the same network as GeoNetwork (coordinates renumbered with it: every geographic query), as ResNetwork "
           "(resistances renumbered) and with a link attribute (link-weighted path family) before and after the permutation.",
    "C05": " Added: shuffled-edge igraph / edge-list paths, copies of non-matrix networks, signed attribute values, save-change-save "
           "histories, GeoNetwork / SpatialNetwork save-Load, total / mean weight consistency on every path."
           ' Third round: sparse input with explicitly stored zeros; a copy that is edited afterwards leaves the original unchanged; ClimateNetwork save / Load.',
    "C06": " Added: input digests taken before construction, dtype / order variants of every caller array, a second object from the "
           "same arrays, function targets, NoStaleHit by shadow re-evaluation, targets EventSeries, Havlin, Hilbert, partial "
           "correlation, CoupledClimateNetwork, EventSeriesClimateNetwork, disconnected and interacting networks, data flagged as "
           "anomalies."
           ' Third round: link lengths that coincide with the placeholder N.'
           ' Fourth round: every recurrence-type class under its documented constructor keywords (normalize, metric, embedding, '
           'missing values, sparse mode, every way of prescribing the recurrences), scalar and 2-D series, each from its own caller arrays.',
    "C07": " Added: threshold in units of the standard deviation (exact, ties open); every second case reaches its setting through "
           "the setter on an object constructed with another setting (all six classes)."
           ' Third round: adaptive neighbourhood through the setter with a reversed / rotated processing order.'
           ' Fourth round: inter-system networks with separate delays for the two series (cross plots with one delay), pairs up to length 4.',
    "C08": " Added: rqa_summary, recurrence_probability, partially missing state vectors.",
    "C09": " Added: asymmetric matrices with distinct entries (sharp density clause for directed networks); the same behaviours on "
           "CoupledClimateNetwork; NonLocalDef from the harness' coordinates; data-driven subclasses along ObjectSM histories "
           "(Val_C09d)."
           ' Third round: the caller overwrites its similarity matrix after construction; Spearman, PartialCorrelation, MutualInfo and Havlin networks along ObjectSM histories (Val_C09d).',
    "C10": " Added: partial correlation (cofactors of the covariance matrix), surrogate test matrices (mean product, binned MI), "
           "translation invariance under a 2^20 offset, all climate classes of a case share one ClimateData."
           ' Third round: Gaussian conditional information transfer (ITY / MIT, one or two conditioning series, both lag modes) against cofactor partial correlations (Val_C10it); relations of the climate mutual-information matrix (symmetry, reordering, equal series); aequi-quantile binned mutual information of CouplingAnalysis (definition and the normalisation the library is pinned to).',
    "C11": " Added: CoupledClimateNetwork wrappers under the same clauses; link-weighted path lengths, closeness, efficiency, strength."
           ' Third round: all 15 link-attribute signatures driven with link lengths (strengths, average cross closeness, global efficiency).',
    "C12": " Added: Stable (distances unchanged after network analysis), irrigation weights, total / mean weight consistency, "
           "Euclidean nearest-node lookup, antipodal queries."
           ' Third round: area-weighted connectivity under every node-weight type; Euclidean distances of the translated grid.'
           ' Fourth round: integer-degree points in GENERAL position (plus near-polar, nearly coincident and nearly antipodal pairs): '
           'every recorded angle (10^-8 rad) is taken through a fixed-point haversine and compared with sin^2(dlat/2) + cos cos '
           'sin^2(dlon/2) from half-degree sine tables - absolute error below 2^-10 rad everywhere (bracketing by monotonicity) and '
           'single-precision accuracy of the haversine; nearest-node lookups at query points in general position.',
    "C13": " Added: input representations (int64 / strided / float32), translated time axis, indices_selected_phases."
           ' Third round: the action set_window(window()) after degenerate views.',
    "C14": " Added: visibility / visibility_single accessors."
           ' Third round: every measure queried twice (reversed order on the mirrored object): Repeatable.',
    "C15": " Added: repeated twin_surrogates with another embedding dimension, two series per object, RecurrencePlot.twins / "
           "twin_surrogates (also after re-thresholding)."
           ' Third round: the same surrogates after normalize_original_data; ties at the recurrence threshold (Surrogates <=, RecurrencePlot <).',
    "C16": " Added: request order per case on one object, EventSeriesClimateNetwork, sparse length-10 triples."
           ' Third round: series without events in the analysis matrix, default threshold values / types, translation by 2^25.',
    "C17": " Added: non-ascending node lists in the cross-link replay, isolated highest node (NodeCount)."
           ' Third round: cross links prescribed by density, by the null model and as zero.',
    "C19": " Third round: argument variants of the distributed measures (add_local_ends, stopping_mode=twinness, exclude_neighbors=False), "
           "the pool path with sources != targets and nsi=False; a sys.exit() of the master program is recorded as the exception of the case.",
    "C18": " Added: update through the caller's own edited array, non-integral rescaling, int64 construction."
           ' Third round: complex impedances (linearity, average, closeness); current-flow betweenness under rescaling by 2^24.',
}


EXT4 = {'C03': " Fourth round: Newman's random-walk betweenness against its electrical definition in exact integer arithmetic (number of spanning trees and Kirchhoff determinants; no matrix inverse, no grounded node) on every connected undirected graph of up to 6 nodes; Arenas-type random-walk betweenness as expected arrivals summed over all targets and sources, (1 - P(i))^-1 P(i) = M(i)^-1 A(i) with the integer absorbing matrix M(i), up to 5 nodes.", 'C01': ' Fourth round: component-wise tokens for joint / inter-system settings; there-and-back histories (a, b, a) with an effective middle step in the quick tier; the mode kept_threshold (data recomputed while a density-derived threshold is kept: undetermined, nothing observed) instead of disabled transitions; queries with arguments discovered from parameter names; geographic argument patterns and grid reports; CoupledClimateNetwork with link-attribute mutators and wrapper queries; the public embedding setter of Surrogates as a mutator.', 'C02': ' Fourth round: the single-network n.s.i. measures observed on the InteractingNetworks object AFTER its group measures; every failing site is named (a listed finding no longer hides another).', 'C04': " Fourth round: geographic argument patterns and the grid's own reports (coordinates, Euclidean and angular distances) under renumbering; a second pass over the spatial / resistive views.", 'C05': ' Fourth round: a USED network (every link-weighted measure asked once), its copy and its file.', 'C08': ' Fourth round: the histograms are unchanged by resample_diagline_dist / resample_vertline_dist (which return the requested number of lines).', 'C09': ' Fourth round: there-and-back histories through the data-recomputing setters (mode kept_threshold); DensityMiss and QuantileDef (the selected threshold is a value of the current similarity matrix) for the data-driven networks.', 'C10': " Fourth round: objects with a history (a larger maximal lag asked before, the object's own arrays symmetrised, the question repeated: Repeatable).", 'C11': ' Fourth round: link lengths of the coupled network given in two steps (other lengths asked once first).', 'C13': ' Fourth round: decimal time axis (1950 + (t+1)/24, not representable in single precision); the exception of a window change is an observation.', 'C15': ' Fourth round: TwinWalkSM - the twin walk as a state machine whose draws are action parameters; every behaviour with at most three free draws is replayed on Surrogates.twin_surrogates with Python\'s random source scripted to these draws, and TLC requires the library\'s twins, exactly the scripted draws consumed and exactly the walk the draws determine (the LAST option is the own successor); the public embedding setter between two equal twin_surrogates calls; OriginalStates over the embedded states.', 'C16': ' Fourth round: significance levels (shuffle / analytic) asked before the analyses on half of the objects; column-major event matrices.', 'C17': ' Fourth round: chains of three degree-preserving randomisations (geographical models, global rewiring) on one spatial network.', 'C19': " Fourth round: the chunk-partition invariant for EVERY N and max_parts discharged by Apalache (Apa_Chunks, with a refuted negative control); hub-in-the-middle components of >= 21 nodes (sweep of hub positions); the docstring's spelling of the stopping mode as an argument variant."}


EXT5 = {'C02': ' Fifth round: networks of 1030 nodes (matrices beyond 2^20 entries): the path-based n.s.i. measures under one split (Val_C02big).', 'C04': ' Fifth round: ResNetwork with non-symmetric resistances under renumbering.', 'C11': ' Fifth round: cross clustering of large groups (cocktail-party family up to 300 nodes, closed forms proved on the small members; Val_C11big).', 'C01': " Fifth round: the repository's own test suite under the lookup hook in shadow mode (thorough tier: every cache hit of every test re-evaluated, Val_Suite); gigaohm tokens of the resistive family.", 'C03': ' Fifth round: Arenas-type random-walk betweenness by expected arrivals (Defs_RandomWalk).', 'C07': ' Fifth round: non-embedded cross plots on a common level of 2^27.', 'C09': ' Fifth round: column-major and read-only similarity matrices; Hilbert networks on data with a duplicated series (no link between the two in the directed network).', 'C10': ' Fifth round: common offset 2^27 (level / fluctuation 10^8); the climate similarity classes on data flagged as anomalies; long series (Val_C10long: compiled vs pure-Python cross-correlation beyond 1024 samples, closed forms ln 2 / 0 of the binned surrogate test at 10^5 samples).', 'C12': ' Fifth round: a coordinate in sixteenths next to an offset of 2^23; rectangular grids from axes of different types.', 'C14': ' Fifth round: extreme power-of-two units of values and times.', 'C15': ' Fifth round: twins of periodic series of up to 300 samples against a closed form proved on the small instances.', 'C16': ' Fifth round: a change of the time unit by 2^-40 / 2^30.', 'C17': ' Fifth round: distance matrices as float32 block / strided / column-major views; cross-link groups of four with the inner nodes out of order.', 'C18': ' Fifth round: gigaohm update history (every admittance below 10^-8 before and after).', 'C19': ' Fifth round: ChunkPartition - the chunks submitted per component partition its node range (bounds read from the job arguments); components beyond 100 nodes per worker.', 'C06': " Fifth round: significance-test helpers of Surrogates as first queries (recorded finding: they normalise the caller's data in place); distance_based_measures / hamming_distance_from; column-major / read-only inputs; a network without links as a class target."}

EXT6 = {
    "C03": " Sixth round: chains and stars of up to 300 nodes - betweenness, closeness and Newman's random-walk betweenness against closed forms proved on the members up to 6 nodes (Val_C03t).",
    "C07": " Sixth round: joint plots / networks with embedded series (dimensions 1 or 2 per series, pruned to the shorter), where the two metrics of a pair actually differ, and with thresholds in units of the standard deviation; line statistics of cross plots: refused or exact.",
    "C08": " Sixth round: lines beyond 127 / 255 points on recurrence and cross recurrence plots (Val_C08long).",
    "C09": " Sixth round: every data-driven history ends with the densities 0, 1/12 and 1.",
    "C17": " Sixth round: more than 1000 rewirings per geographical step.",
    "C10": " Sixth round: the lag functions of the pure-Python class against their own window convention (CCDef); a NaN / infinite estimate is a REJECT of the clause it enters (total verdicts).",
    "C16": " Sixth round: one EventSeriesClimateNetwork object built for coincidence rates asked for every window type and symmetrisation in turn.",
    "C18": " Sixth round: chains, rings, stars and complete graphs of up to 300 nodes against closed forms (proved on the members up to 6 nodes) of the current-flow betweenness and the effective resistance (Val_C18big) - this exposed and led to the repair of a genuine defect (pseudo-inverse kept the Laplacian's zero mode: betweenness 0 from 30 nodes on, fix 0c19189).",
}


def main():
    hooks_commits = []
    hf = os.path.join(ROOT, "hooks_commits.txt")
    if os.path.exists(hf):
        hooks_commits = [l.split()[0] for l in open(hf) if l.strip()]
    checks = []
    for pid in sorted(CHECKS):
        c = CHECKS[pid]
        checks.append({
            "property_id": pid,
            "quick_cmd": "./check %s --tier quick" % pid,
            "thorough_cmd": "./check %s --tier thorough" % pid,
            "evidence_file": "/verif/evidence/%s.json" % pid,
            "replay_cmd_template": "./check %s --replay {path}" % pid,
            "engine": "tlc-loop",
            "level_claimed": {"category": "model_checking", "text": c["text"] + EXT.get(pid, "") + EXT4.get(pid, "") + EXT5.get(pid, "") + EXT6.get(pid, ""),
                              "design_ref": "DESIGN.md section " + c["ref"]},
            "level_note": c["note"],
            "technique": c["technique"],
        })
    na = [{"property_id": k, "reason": v} for k, v in sorted(NOT_APPLICABLE.items())]
    for pid in NOT_YET:
        if pid not in CHECKS:
            na.append({"property_id": pid, "reason": "check not built yet in this snapshot of /verif (construction order: DESIGN section 11)"})
    man = {
        "version": 1,
        "setup_cmd": "./setup.sh",
        "hooks": {
            "guard": "PYUNICORN_VERIF",
            "enable": "checks copy /repo/src to a temporary overlay, rebuild the Cython extensions from the current "
                      "sources (cached by source hash) and run the harness with PYTHONPATH=<overlay>/src PYUNICORN_VERIF=1",
            "baseline_off_cmd": "cd /repo && env -u PYUNICORN_VERIF /venv/bin/python -m pytest -ra -q -p no:cacheprovider "
                                "--timeout=900 --continue-on-collection-errors",
            "source_commits": hooks_commits,
            "add_only": True,
        },
        "engines": [{
            "name": "tlc-loop", "path": "/verif/check",
            "serves_properties": sorted(CHECKS),
            "kind_free_text": "GEN (TLC enumerates spec cases/behaviours) -> RUN (replay on the real classes, overlay of "
                              "/repo's working tree) -> VAL (TLC validates every recorded execution against the TLA+ "
                              "specification in /verif/spec and prints a total verdict naming the failing clause)",
        }],
        "checks": checks,
        "not_applicable": sorted(na, key=lambda d: d["property_id"]),
        "notes": "See DESIGN.md.  known_findings.json lists recorded genuine defects and fixed: entries.",
    }
    with open(os.path.join(ROOT, "MANIFEST.json"), "w") as fh:
        json.dump(man, fh, indent=1)
        fh.write("\n")


if __name__ == "__main__":
    main()
