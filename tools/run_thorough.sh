#!/bin/sh
# runs the thorough tier of every check in turn and prints one summary line each
cd "$(dirname "$0")/.." || exit 2
for id in "$@"; do
  start=$(date +%s)
  ./check $id --tier thorough > /tmp/thorough_$id.log 2>&1
  rc=$?
  end=$(date +%s)
  echo "$id rc=$rc $((end-start))s $(tail -1 /tmp/thorough_$id.log)"
  grep -E "^(REJECTED|MACHINERY|KNOWN)" /tmp/thorough_$id.log | cut -c1-240 | head -8
done
