#!/bin/sh
# usage: tools/seed_detect.sh <seedname> <ID> [<ID> ...]   -> seeded/<seedname>/detection.txt
cd "$(dirname "$0")/.." || exit 2
name=$1; shift
tools/try_mutant.py --patch seeded/$name/patch.diff "$@" 2>&1 | grep -v "WARNING conda" > seeded/$name/detection.txt
head -12 seeded/$name/detection.txt
