#!/bin/sh
# usage: tools/seed_go.sh <dir with patch.diff demo.py meta.json> <PROP> <seedname> <check IDs...>
cd "$(dirname "$0")/.." || exit 2
src=$1; prop=$2; name=$3; shift 3
tools/seed_intake.py $prop $src --name $name 2>&1 | grep -v "WARNING conda"
tools/seed_detect.sh $name "$@" | grep -E "^==|REJECTED" | cut -c1-230 | head -8
