#!/venv/bin/python
"""Confirms one sub-agent seeded change in a fresh scratch worktree and stores it under /verif/seeded/<name>/.

  tools/seed_intake.py <PROP> <dir with patch.diff demo.py meta.json> [--name NAME] [--no-suite]

Steps (all in /var/tmp/seedverify_<name>, removed afterwards):
  1. worktree of /repo HEAD, compiled extensions copied from /repo, rebuilt if the patch touches .pyx/.c
  2. demo.py on the unchanged worktree must exit 0
  3. patch applies; demo.py must exit non-zero
  4. the repository test suite passes with the patch (unless --no-suite)
The outcome is written to /verif/seeded/<name>/meta.json (field "confirmed")."""
import argparse
import glob
import json
import os
import shutil
import subprocess
import sys

PY = "/venv/bin/python"


def sh(cmd, cwd=None, env=None, timeout=3600):
    p = subprocess.run(cmd, shell=True, cwd=cwd, env=env, capture_output=True, text=True, timeout=timeout)
    return p.returncode, (p.stdout + p.stderr)


def main():
    ap = argparse.ArgumentParser()
    ap.add_argument("prop")
    ap.add_argument("src")
    ap.add_argument("--name")
    ap.add_argument("--no-suite", action="store_true")
    a = ap.parse_args()
    name = a.name or a.prop
    wt = "/var/tmp/seedverify_%s" % name
    sh("git -C /repo worktree remove --force %s" % wt)
    shutil.rmtree(wt, ignore_errors=True)
    rc, out = sh("git -C /repo worktree add --detach %s HEAD" % wt)
    if rc:
        sys.exit("worktree: " + out)
    res = {"confirmed": False}
    try:
        for so in glob.glob("/repo/src/pyunicorn/**/*.so", recursive=True):
            shutil.copy(so, so.replace("/repo/", wt + "/"))
        env = dict(os.environ, PYTHONPATH=wt + "/src", PYTHONHASHSEED="0")
        env.pop("PYUNICORN_VERIF", None)
        demo = os.path.join(a.src, "demo.py")
        text = open(demo).read()
        rc0, out0 = sh("%s %s" % (PY, demo), cwd=wt, env=env)
        res["demo_unchanged_rc"] = rc0
        patch = os.path.abspath(os.path.join(a.src, "patch.diff"))
        rc, out = sh("git apply %s" % patch, cwd=wt)
        if rc:
            res["error"] = "patch does not apply: " + out[-500:]
            return res
        ptxt = open(patch).read()
        if ".pyx" in ptxt or ".c\n" in ptxt or ".pxd" in ptxt:
            rc, out = sh("%s setup.py -q build_ext --inplace" % PY, cwd=wt, env=env)
            res["rebuild_rc"] = rc
            if rc:
                res["error"] = "build failed: " + out[-800:]
                return res
        rc1, out1 = sh("%s %s" % (PY, demo), cwd=wt, env=env)
        res["demo_patched_rc"] = rc1
        res["demo_patched_tail"] = out1[-1500:]
        if not a.no_suite:
            rc, out = sh("%s -m pytest -q -p no:cacheprovider -n 8 --timeout=900 tests "
                         "--ignore=tests/test_climate/test_map_plot.py 2>&1 | tail -3" % PY, cwd=wt, env=env)
            res["suite_tail"] = out.strip().splitlines()[-1] if out.strip() else ""
            res["suite_ok"] = " passed" in res["suite_tail"] and "failed" not in res["suite_tail"] \
                and "error" not in res["suite_tail"]
        res["confirmed"] = (rc0 == 0 and rc1 != 0 and (a.no_suite or res.get("suite_ok", False)))
        return res
    finally:
        sh("git -C /repo worktree remove --force %s" % wt)
        shutil.rmtree(wt, ignore_errors=True)
        dst = "/verif/seeded/%s" % name
        os.makedirs(dst, exist_ok=True)
        for f in ("patch.diff", "demo.py"):
            shutil.copy(os.path.join(a.src, f), os.path.join(dst, f))
        meta = {}
        try:
            meta = json.load(open(os.path.join(a.src, "meta.json")))
        except Exception as ex:
            meta = {"meta_error": str(ex)}
        meta["property"] = a.prop
        meta["origin"] = "fresh sub-agent given only the property text and a scratch worktree"
        meta["confirmation"] = res
        json.dump(meta, open(os.path.join(dst, "meta.json"), "w"), indent=1)
        print(name, json.dumps({k: v for k, v in res.items() if k != "demo_patched_tail"}))


if __name__ == "__main__":
    main()
