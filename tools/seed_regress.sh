#!/bin/sh
# re-runs kept seeded changes against the check of their own property; summary -> seeded/REGRESSION.txt
# usage: tools/seed_regress.sh [pattern (default C)] [parallel lanes (default 3)]
cd "$(dirname "$0")/.." || exit 2
pat=${1:-C}; lanes=${2:-3}
out=seeded/REGRESSION.txt
ls -d seeded/${pat}*/ | xargs -n1 basename | xargs -P $lanes -I{} sh -c 'p=$(echo {} | cut -c1-3); tools/seed_detect.sh {} $p > /dev/null 2>&1'
: > $out.tmp
for d in seeded/C*/; do
  name=$(basename $d)
  prop=$(echo $name | cut -c1-3)
  line=$(grep "^== $prop" seeded/$name/detection.txt | head -1 | cut -c1-120)
  first=$(grep REJECTED seeded/$name/detection.txt | head -1 | sed 's/^ *//' | cut -c1-160)
  echo "$name | $line | $first" >> $out.tmp
done
mv $out.tmp $out
