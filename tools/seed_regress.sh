#!/bin/sh
# re-runs every kept seeded change against the check of its own property; summary -> seeded/REGRESSION.txt
cd "$(dirname "$0")/.." || exit 2
out=seeded/REGRESSION.txt
: > $out.tmp
for d in seeded/C*/; do
  name=$(basename $d)
  prop=$(echo $name | cut -c1-3)
  tools/seed_detect.sh $name $prop > /dev/null 2>&1
  line=$(grep "^== $prop" seeded/$name/detection.txt | head -1 | cut -c1-120)
  first=$(grep REJECTED seeded/$name/detection.txt | head -1 | sed 's/^ *//' | cut -c1-160)
  echo "$name | $line | $first" >> $out.tmp
done
mv $out.tmp $out
