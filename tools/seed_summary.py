#!/venv/bin/python
"""usage: tools/seed_summary.py <glob prefix, e.g. _m>  -> one line per kept seed: confirmed?, own-check verdict, first rejection"""
import glob, json, os, re, sys
root = os.path.join(os.path.dirname(os.path.abspath(__file__)), "..", "seeded")
pat = sys.argv[1] if len(sys.argv) > 1 else ""
for d in sorted(glob.glob(os.path.join(root, "*"))):
    name = os.path.basename(d)
    if pat not in name or not os.path.isdir(d):
        continue
    meta = {}
    try:
        meta = json.load(open(os.path.join(d, "meta.json")))
    except Exception:
        pass
    det = ""
    try:
        det = open(os.path.join(d, "detection.txt")).read()
    except Exception:
        pass
    m = re.search(r"== (C\d\d) exit (\d+)", det)
    rej = re.search(r"REJECTED stage=(\S+) clause=(\S+) site=(\S{0,90})", det)
    print("%-9s confirmed=%s check=%s %s" % (name, meta.get("confirmed", meta.get("verified", "?")),
          ("exit%s" % m.group(2)) if m else "?", ("%s/%s @ %s" % rej.groups()) if rej else ""))
