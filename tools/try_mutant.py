#!/venv/bin/python
"""Apply a change to /repo's working tree, run checks, undo the change.
usage: tools/try_mutant.py (--revert <commit> | --patch <file>) <ID> [<ID> ...]   [--tier quick]
The change is never committed; /repo is restored with `git checkout -- .` afterwards."""
import subprocess
import sys

args = sys.argv[1:]
kind, what = args[0], args[1]
ids = [a for a in args[2:] if not a.startswith("--")]
try:
    if kind == "--revert":
        subprocess.check_call(["git", "-C", "/repo", "revert", "--no-commit", what])
        subprocess.check_call(["git", "-C", "/repo", "reset", "-q"])       # keep the change unstaged
    else:
        subprocess.check_call(["git", "-C", "/repo", "apply", what])
    for pid in ids:
        r = subprocess.run(["/verif/check", pid, "--tier", "quick"], stdout=subprocess.PIPE, stderr=subprocess.STDOUT,
                           text=True)
        lines = r.stdout.strip().splitlines()
        viol = [l for l in lines if l.startswith("REJECTED")]
        print("==", pid, "exit", r.returncode, "|", lines[-1] if lines else "")
        for l in viol[:6]:
            print("   ", l[:260])
finally:
    subprocess.call(["git", "-C", "/repo", "checkout", "--", "."])
    subprocess.call(["git", "-C", "/repo", "status", "--short"])
