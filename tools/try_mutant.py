#!/venv/bin/python
"""Run checks against a changed copy of the repository.
usage: tools/try_mutant.py (--revert <commit> | --patch <file>) <ID> [<ID> ...]  [--tier quick] [--inplace]

Default: the change is applied in a scratch worktree of /repo HEAD (/var/tmp/mutant_wt_<pid>) and the
checks run with VERIF_REPO pointing at it and evidence redirected to a scratch directory, so /repo and
/verif/evidence are untouched; the worktree is removed afterwards.
--inplace: apply to /repo's working tree (git apply), run, undo with `git checkout -- .` (never committed)."""
import os
import shutil
import subprocess
import sys

args = sys.argv[1:]
kind, what = args[0], os.path.abspath(args[1]) if args[0] == "--patch" else args[1]
ids = [a for a in args[2:] if not a.startswith("--")]
tier = "thorough" if "--thorough" in args else "quick"
inplace = "--inplace" in args
wt = "/repo" if inplace else "/var/tmp/mutant_wt_%d" % os.getpid()
env = dict(os.environ)
try:
    if not inplace:
        subprocess.check_call(["git", "-C", "/repo", "worktree", "add", "-q", "--detach", wt, "HEAD"])
        env["VERIF_REPO"] = wt
        env["VERIF_EVIDENCE_DIR"] = wt + "_evidence"
    if kind == "--revert":
        subprocess.check_call(["git", "-C", wt, "revert", "--no-commit", what])
        subprocess.check_call(["git", "-C", wt, "reset", "-q"])       # keep the change unstaged
    else:
        subprocess.check_call(["git", "-C", wt, "apply", what])
    for pid in ids:
        r = subprocess.run(["/verif/check", pid, "--tier", tier], stdout=subprocess.PIPE, stderr=subprocess.STDOUT,
                           text=True, env=env)
        lines = r.stdout.strip().splitlines()
        viol = [l for l in lines if l.startswith("REJECTED")]
        print("==", pid, "exit", r.returncode, "|", lines[-1][:200] if lines else "")
        for l in viol[:6]:
            print("   ", l[:260])
        sys.stdout.flush()
finally:
    if inplace:
        subprocess.call(["git", "-C", "/repo", "checkout", "--", "."])
        subprocess.call(["git", "-C", "/repo", "status", "--short"])
    else:
        subprocess.call(["git", "-C", "/repo", "worktree", "remove", "--force", wt])
        shutil.rmtree(wt, ignore_errors=True)
        shutil.rmtree(wt + "_evidence", ignore_errors=True)
