"""Sink for the guarded lookup hook in pyunicorn/core/cache.py (PYUNICORN_VERIF=1).

Every lookup of a ``@Cached.method`` is reported as (object, undecorated function, attrs,
args, kwargs, hit?, result).  In shadow mode each HIT is re-evaluated with the undecorated
function on the object's current state and compared with the value the cache returned: a
difference is a stale (or polluted) cache entry, whatever public call it was nested in.
Lookups nested inside a shadow re-evaluation are not shadowed again (no cascade)."""
import numpy as np

STATE = {"installed": False, "busy": False, "hits": 0, "misses": 0, "compared": 0,
         "uncompared": 0, "stale": [], "log": None}


def same(a, b, depth=0):
    """True / False / None (not comparable)."""
    if a is b:
        return True
    if hasattr(a, "toarray") and hasattr(b, "toarray"):
        a, b = a.toarray(), b.toarray()
    if isinstance(a, dict) and isinstance(b, dict):
        if set(a) != set(b):
            return False
        rs = [same(a[k], b[k], depth + 1) for k in a]
        return False if False in rs else (None if None in rs else True)
    if isinstance(a, (tuple, list)) and isinstance(b, (tuple, list)):
        if len(a) != len(b):
            return False
        rs = [same(x, y, depth + 1) for x, y in zip(a, b)]
        return False if False in rs else (None if None in rs else True)
    if isinstance(a, (str, bytes, bool, type(None))) or isinstance(b, (str, bytes, bool, type(None))):
        return a == b
    try:
        x, y = np.asarray(a), np.asarray(b)
    except Exception:
        return None
    if x.dtype == object or y.dtype == object:
        return None
    if x.shape != y.shape:
        return False
    if x.dtype.kind in "US" or y.dtype.kind in "US":
        return bool(np.array_equal(x, y))
    try:
        return bool(np.allclose(x, y, rtol=1e-7, atol=1e-9, equal_nan=True))
    except Exception:
        return None


def _argtag(args, kwargs):
    out = []
    for v in list(args) + ["%s=%r" % kv for kv in sorted(kwargs.items())]:
        if isinstance(v, (int, float, str, bool, type(None))):
            out.append(str(v)[:20])
        else:
            out.append(type(v).__name__)
    return ",".join(out)


def _sink(phase, obj, f, attrs, args, kwargs, hit, result):
    st = STATE
    if st["busy"]:
        return
    if phase == "pre":
        if st["log"] is not None:
            # the key material the documented mechanism uses at lookup time, compared with Python's
            # own ==/hash (as functools.lru_cache does); typed=True makes argument types part of it
            st["keys"].append((id(obj), obj.__cache_state__(), tuple(getattr(obj, a) for a in (attrs or ())),
                               args, tuple(kwargs.items()), tuple(type(v) for v in args),
                               tuple(type(v) for v in kwargs.values())))
        return
    if phase == "exc":
        if st["log"] is not None and st["keys"]:
            st["keys"].pop()
        return
    site = "%s.%s" % (type(obj).__name__, f.__name__)
    if st["log"] is not None:
        key = st["keys"].pop()
        fid = st["fids"].setdefault(f, len(st["fids"]) + 1)
        kid = st["kids"].setdefault(key, len(st["kids"]) + 1)
        st["log"].append({"f": fid, "k": kid, "hit": 1 if hit else 0, "site": site})
    if not hit:
        st["misses"] += 1
        return
    st["hits"] += 1
    if not st.get("shadow", True):
        return
    st["busy"] = True
    try:
        try:
            fresh = f(obj, *args, **kwargs)
        except Exception as ex:       # the cached value exists, a fresh evaluation raises
            fresh = ("raises", type(ex).__name__)
    finally:
        st["busy"] = False
    eq = same(result, fresh)
    if eq is None:
        st["uncompared"] += 1
    else:
        st["compared"] += 1
        if not eq:
            tag = _argtag(args, kwargs)
            st["stale"].append(site + ("(" + tag + ")" if tag else ""))


def install(log=False, shadow=True):
    import pyunicorn.core.cache as cache
    if not getattr(cache, "_VERIF", False):
        raise RuntimeError("cache lookup hook inactive: PYUNICORN_VERIF=1 must be set before pyunicorn is "
                           "imported and core/cache.py must carry the guarded hook")
    cache._verif_sink = _sink
    STATE["installed"] = True
    STATE["shadow"] = shadow
    STATE["log"] = [] if log else None
    STATE["fids"], STATE["kids"], STATE["keys"] = {}, {}, []
    drain()


def note(ev):
    """Adds a harness event (e.g. a cache_clear call) to the lookup log."""
    if STATE.get("log") is not None:
        STATE["log"].append(ev)


def uninstall():
    import pyunicorn.core.cache as cache
    cache._verif_sink = None
    STATE["installed"] = False


def drain():
    st = STATE
    out = {"hits": st["hits"], "misses": st["misses"], "compared": st["compared"],
           "uncompared": st["uncompared"], "stale": sorted(set(st["stale"]))}
    if st["log"] is not None:
        out["log"] = st["log"]
        st["log"] = []
    st["hits"] = st["misses"] = st["compared"] = st["uncompared"] = 0
    st["stale"] = []
    return out
