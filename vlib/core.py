"""Check driver: GEN (TLC) -> RUN (real code on an overlay) -> VAL (TLC) -> verdicts.

TLC is what decides; this module only moves files around, classifies rejected
cases against known_findings.json and writes the evidence file."""
import importlib
import json
import os
import shutil
import subprocess
import sys
import tempfile
import time

from . import overlay, tlc

ROOT = os.path.dirname(os.path.dirname(os.path.abspath(__file__)))
PY = "/venv/bin/python"
GUARD = "PYUNICORN_VERIF"


class Machinery(Exception):
    """Something in the verification machinery itself failed (exit 2)."""


class Ctx:
    def __init__(self, pid, tier, seed, replay=None, overlay_dir=None):
        self.pid = pid
        self.tier = tier
        self.seed = seed
        self.replay = replay
        self.t0 = time.time()
        self.work = tempfile.mkdtemp(prefix="pyu_%s_" % pid, dir="/var/tmp")
        self._own_overlay = overlay_dir is None
        self.overlay = overlay_dir
        self.jobs = int(os.environ.get("VERIF_JOBS", "16"))
        self.states = 0
        self.transitions = 0
        self.traces = 0
        self.evaluations = 0
        self.nontrivial = set()
        self.samples = []
        self.clauses = {}
        self.stages = []
        self.rejects = []
        self.known = []
        self.violations = []
        self.extra = {}
        self.assumptions = []
        self.exhaustive = None
        ff = os.path.join(ROOT, "known_findings.json")
        self.findings = json.load(open(ff)).get("findings", []) if os.path.exists(ff) else []

    # ---------------------------------------------------------------- overlay
    def ensure_overlay(self):
        if self.overlay is None:
            self.overlay = overlay.build_overlay()
        return self.overlay

    def cleanup(self):
        shutil.rmtree(self.work, ignore_errors=True)
        if self._own_overlay and self.overlay:
            shutil.rmtree(self.overlay, ignore_errors=True)

    def pyenv(self, guard=True):
        e = dict(os.environ)
        e["PYTHONPATH"] = os.path.join(self.ensure_overlay(), "src") + os.pathsep + ROOT
        e["PYTHONHASHSEED"] = "0"
        e["OMP_NUM_THREADS"] = "1"
        e["OPENBLAS_NUM_THREADS"] = "1"
        e["MKL_NUM_THREADS"] = "1"
        e["MPLBACKEND"] = "Agg"
        if guard:
            e[GUARD] = "1"
        else:
            e.pop(GUARD, None)
        e["VERIF_SEED"] = str(self.seed)
        return e

    # ------------------------------------------------------------------- TLC
    def tlc(self, module, cfg=None, env=None, count=True, **kw):
        r = tlc.run(module, cfg, env=env, **kw)
        if count:
            self.states += r.distinct
            self.transitions += r.generated
        return r

    def gen(self, module, cfg=None, env=None, tag="CASE", **kw):
        """Design-level / generation run: returns printed tuples tagged `tag`.
        A GEN module may instead write an ndjson file named by env GEN_OUT."""
        out = os.path.join(self.work, "gen_%s_%d.ndjson" % (module, len(self.stages)))
        e = dict(env or {})
        e["GEN_OUT"] = out
        r = self.tlc(module, cfg, env=e, **kw)
        if r.error or r.violated:
            raise Machinery("GEN %s failed:\n%s" % (module, r.out[-3000:]))
        cases = []
        if os.path.exists(out):
            with open(out) as fh:
                cases = [json.loads(l) for l in fh if l.strip()]
        self.stages.append({"stage": "GEN " + module, "cfg": cfg or module,
                            "states": r.distinct, "generated": r.generated,
                            "cases": len(cases), "wall_s": round(r.wall, 2)})
        return cases, r

    def gen_cached(self, module, cfg=None, env=None, **kw):
        """GEN with its output cached by the hash of the spec directory."""
        from . import gencache
        cfg = cfg or module
        path, meta = gencache.get(module, cfg, env)
        if path is None:
            cases, r = self.gen(module, cfg, env=env, **kw)
            out = [s for s in self.stages if s["stage"] == "GEN " + module][-1]
            src = os.path.join(self.work, "gen_cache_tmp.ndjson")
            tlc.write_ndjson(src, cases)
            gencache.put(module, cfg, env, src, out)
            return cases
        with open(path) as fh:
            cases = [json.loads(l) for l in fh if l.strip()]
        meta = dict(meta)
        meta["cached"] = True
        self.states += meta.get("states", 0)
        self.transitions += meta.get("generated", 0)
        self.stages.append(meta)
        return cases

    # ------------------------------------------------------------------- RUN
    def run_cases(self, runner, cases, jobs=None, timeout=3600, guard=True):
        """Execute `props.<mod>.<func>(case)` for every case in worker processes
        that import pyunicorn from the overlay.  Returns the list of records."""
        jobs = jobs or self.jobs
        self.ensure_overlay()
        shards = tlc.shard(cases, jobs)
        procs = []
        stamp = "%d_%d" % (len(self.stages), time.time_ns() % 10**9)
        for k, sh in enumerate(shards):
            fin = os.path.join(self.work, "run_in_%s_%d.json" % (stamp, k))
            fout = os.path.join(self.work, "run_out_%s_%d.ndjson" % (stamp, k))
            with open(fin, "w") as fh:
                json.dump(sh, fh)
            p = subprocess.Popen([PY, "-m", "vlib.worker", runner, fin, fout],
                                 cwd=ROOT, env=self.pyenv(guard),
                                 stdout=subprocess.PIPE, stderr=subprocess.STDOUT, text=True)
            procs.append((p, fout, len(sh)))
        recs = []
        for p, fout, n in procs:
            try:
                out, _ = p.communicate(timeout=timeout)
            except subprocess.TimeoutExpired:
                p.kill()
                raise Machinery("RUN worker timed out (%s)" % runner)
            if p.returncode != 0:
                raise Machinery("RUN worker failed (%s):\n%s" % (runner, out[-4000:]))
            with open(fout) as fh:
                got = [json.loads(l) for l in fh if l.strip()]
            if len(got) != n:
                raise Machinery("RUN worker lost cases (%s)" % runner)
            recs += got
        bad = [r for r in recs if r.get("harness_error")]
        if bad:
            raise Machinery("harness error in %s case %s:\n%s" % (
                runner, bad[0].get("case"), bad[0]["harness_error"]))
        return recs

    # ------------------------------------------------------------------- VAL
    def validate(self, module, cfg, records, stage=None, jobs=None, env=None,
                 nontrivial=None, timeout=3600, xmx="3g"):
        """TLC validates recorded executions.  Every record must have a unique
        'case'.  The spec prints  <<"V", case, verdict, clause, site, tags>>  for
        every case (total verdicts)."""
        stage = stage or module
        jobs = jobs or self.jobs
        ids = [r["case"] for r in records]
        if len(set(ids)) != len(ids):
            raise Machinery("duplicate case ids in " + stage)
        shards = tlc.shard(records, jobs)
        files = []
        for k, sh in enumerate(shards):
            f = os.path.join(self.work, "val_%s_%d_%d.ndjson" % (module, len(self.stages), k))
            tlc.write_ndjson(f, sh)
            files.append(f)
        results = tlc.run_sharded(module, cfg, files, env=env, jobs=jobs,
                                  timeout=timeout, xmx=xmx)
        verdicts = {}
        wall = 0.0
        for r in results:
            wall = max(wall, r.wall)
            if r.error or r.violated or r.rc != 0:
                with open("/var/tmp/verif_last_tlc.out", "w") as fh:
                    fh.write(r.out)
                k = r.out.find("Error:")
                raise Machinery("VAL %s failed (full output in /var/tmp/verif_last_tlc.out):\n%s" % (
                    module, r.out[max(0, k):k + 2500] if k >= 0 else r.out[-3000:]))
            self.states += r.distinct
            self.transitions += r.generated
            for v in r.verdicts("V"):
                if v[0] in verdicts:
                    raise Machinery("two verdicts for case %s" % v[0])
                verdicts[v[0]] = v
            for c in r.verdicts("CL"):
                self.clauses[c[0]] = self.clauses.get(c[0], 0) + int(c[1])
        if set(verdicts) != set(ids):
            missing = sorted(set(ids) - set(verdicts))[:5]
            raise Machinery("VAL %s gave no verdict for %d cases, e.g. %s\n%s" % (
                module, len(set(ids) - set(verdicts)), missing, results[0].out[-2000:]))
        byid = {r["case"]: r for r in records}
        nacc = 0
        for cid, v in verdicts.items():
            rec = byid[cid]
            self.evaluations += 1
            if v[1] == "ACCEPT":
                nacc += 1
                self.traces += 1
                if nontrivial is None or nontrivial(rec):
                    self.nontrivial.add(rec.get("key", cid))
            else:
                clause = v[2] if len(v) > 2 else ""
                site = v[3] if len(v) > 3 else ""
                tags = v[4] if len(v) > 4 else ""
                self.reject(stage, module, cfg, rec, clause, site, tags)
        for rec in records[:2]:
            if len(self.samples) < 6:
                self.samples.append({"stage": stage, "record": _trim(rec),
                                     "verdict": list(verdicts[rec["case"]])})
        self.stages.append({"stage": "VAL " + stage, "cfg": cfg, "cases": len(ids),
                            "accepted": nacc, "wall_s": round(wall, 2)})
        return verdicts

    def reject(self, stage, module, cfg, rec, clause, site, tags):
        """A reject may name several failing sites joined by ';'.  It is a known finding only
        if EVERY site is matched by a listed finding; otherwise the unmatched sites are
        reported as a violation."""
        tagset = set(t for t in str(tags).split(",") if t)
        sites = [x for x in str(site).split(";") if x] or [""]
        matched, unmatched = [], []
        for st in sites:
            hit = None
            cl = clause
            if "|" in st:               # item carries its own clause:  Clause|site
                cl, st = st.split("|", 1)
            for f in self.findings:
                if f["property"] != self.pid:
                    continue
                if f.get("clause") not in (None, cl):
                    continue
                fs = f.get("site")
                if fs is not None and fs != st and not (fs.endswith("*") and st.startswith(fs[:-1])):
                    continue
                if f.get("stage") not in (None, stage):
                    continue
                if not set(f.get("tags", [])) <= tagset:
                    continue
                hit = f
                break
            if hit is None:
                unmatched.append(st if cl == clause else cl + "|" + st)
            else:
                matched.append(hit)
        for f in matched:
            self.known.append((f, rec["case"]))
        if unmatched:
            self.rejects.append({"stage": stage, "module": module, "cfg": cfg, "record": rec,
                                 "clause": clause, "site": ";".join(unmatched),
                                 "tags": sorted(tagset)})

    # ---------------------------------------------------------------- finish
    def finish(self):
        seen = {}
        for f, cid in self.known:
            seen.setdefault(f["id"], [f, 0])[1] += 1
        for fid, (f, n) in sorted(seen.items()):
            print("KNOWN-FINDING: property=%s %s [%s; %d case(s) this run]" % (
                self.pid, f["what"], fid, n))
        groups = {}
        for r in self.rejects:
            groups.setdefault((r["stage"], r["clause"], r["site"], ",".join(r["tags"])), []).append(r)
        rdir = os.path.join(ROOT, "replays", self.pid)
        nviol = 0
        for (stage, clause, site, tags), rs in sorted(groups.items()):
            os.makedirs(rdir, exist_ok=True)
            name = "%s__%s__%s__%s.json" % (stage, clause, site, tags)
            name = "".join(c if c.isalnum() or c in "._-" else "_" for c in name)[:150]
            path = os.path.join(rdir, name)
            with open(path, "w") as fh:
                json.dump({"property": self.pid, "stage": stage, "module": rs[0]["module"],
                           "cfg": rs[0]["cfg"], "clause": clause, "site": site, "tags": tags,
                           "count": len(rs), "record": rs[0]["record"]}, fh, indent=1)
            print("REJECTED stage=%s clause=%s site=%s tags=%s cases=%d first=%s" % (
                stage, clause, site, tags, len(rs), rs[0]["record"].get("case")))
            print("VIOLATION property=%s replay=%s" % (self.pid, path))
            nviol += 1
        self.write_evidence(nviol)
        return 1 if nviol else 0

    def write_evidence(self, nviol):
        cov = {
            "states": self.states, "transitions": self.transitions,
            "traces_validated_against_impl": self.traces,
            "evaluations": self.evaluations,
            "distinct_nontrivial": len(self.nontrivial),
            "rule": self.extra.pop("rule", "see stages"),
            "samples": self.samples or [{"note": "no case executed"}],
            "clauses": self.clauses, "stages": self.stages,
            "known_findings_observed": sorted({f["id"] for f, _ in self.known}),
        }
        if self.exhaustive is not None:
            cov["exhaustive"] = self.exhaustive
        cov.update(self.extra)
        ev = {"property_id": self.pid, "tier": self.tier, "seed": self.seed,
              "level": "model_checking", "coverage": cov,
              "assumptions": self.assumptions,
              "wall_s": round(time.time() - self.t0, 2), "violations": nviol}
        edir = os.environ.get("VERIF_EVIDENCE_DIR", os.path.join(ROOT, "evidence"))
        os.makedirs(edir, exist_ok=True)
        with open(os.path.join(edir, self.pid + ".json"), "w") as fh:
            json.dump(ev, fh, indent=1, sort_keys=True)


def _trim(obj, depth=0):
    """Shorten big arrays in samples."""
    if isinstance(obj, dict):
        return {k: _trim(v, depth + 1) for k, v in list(obj.items())[:40]}
    if isinstance(obj, list):
        if len(obj) > 12:
            return [_trim(v, depth + 1) for v in obj[:12]] + ["…(%d)" % len(obj)]
        return [_trim(v, depth + 1) for v in obj]
    return obj


def main(argv=None):
    import argparse
    ap = argparse.ArgumentParser()
    ap.add_argument("pid")
    ap.add_argument("--tier", default=os.environ.get("VERIF_TIER", "quick"),
                    choices=["quick", "thorough"])
    ap.add_argument("--seed", type=int, default=int(os.environ.get("VERIF_SEED", "0")))
    ap.add_argument("--replay")
    ap.add_argument("--overlay", help="use an existing overlay (debugging)")
    a = ap.parse_args(argv)
    pid = a.pid.upper()
    ctx = Ctx(pid, a.tier, a.seed, a.replay, a.overlay)
    try:
        mod = importlib.import_module("props." + pid.lower())
        if a.replay:
            mod.replay(ctx, json.load(open(a.replay)))
        else:
            mod.main(ctx)
        rc = ctx.finish()
    except Machinery as ex:
        sys.stderr.write("MACHINERY FAILURE (%s): %s\n" % (pid, ex))
        rc = 2
    finally:
        ctx.cleanup()
    print("%s tier=%s seed=%d: %s  (%d cases, %d accepted traces, %d states, %.1fs)" % (
        pid, a.tier, a.seed, {0: "PASS", 1: "FAIL", 2: "ERROR"}[rc], ctx.evaluations,
        ctx.traces, ctx.states, time.time() - ctx.t0))
    return rc
