"""Encoding of recorded values for TLC (32-bit integers, no null, no floats)."""
import math

import numpy as np

NAN = 2000000001
INF = 2000000002
NINF = -2000000002
LIM = 1999999999


def num(v, scale=10**6):
    if v is None:
        return NAN
    if isinstance(v, (bool, np.bool_)):
        return int(v) * scale
    if isinstance(v, complex) or isinstance(v, np.complexfloating):
        v = v.real
    v = float(v)
    if math.isnan(v):
        return NAN
    if math.isinf(v):
        return INF if v > 0 else NINF
    r = int(round(v * scale))
    if r > LIM:
        return INF
    if r < -LIM:
        return NINF
    return r


def arr(a, scale=10**6):
    a = np.asarray(a)
    if a.ndim == 0:
        return num(a[()], scale)
    return [arr(x, scale) for x in a]


def ints(a):
    a = np.asarray(a)
    if a.ndim == 0:
        return int(a[()])
    return [ints(x) for x in a]


def call(fn, *args, **kw):
    """Returns (value, "") or (None, exception class name)."""
    try:
        return fn(*args, **kw), ""
    except Exception as ex:  # the exception *is* the observation
        return None, type(ex).__name__
