"""Encoding of recorded values for TLC (32-bit integers, no null, no floats)."""
import math

import numpy as np

NAN = 2000000001
INF = 2000000002
NINF = -2000000002
LIM = 1999999999


def num(v, scale=10**6):
    if v is None:
        return NAN
    if isinstance(v, (bool, np.bool_)):
        return int(v) * scale
    if isinstance(v, complex) or isinstance(v, np.complexfloating):
        v = v.real
    v = float(v)
    if math.isnan(v):
        return NAN
    if math.isinf(v):
        return INF if v > 0 else NINF
    r = int(round(v * scale))
    if r > LIM:
        return INF
    if r < -LIM:
        return NINF
    return r


def arr(a, scale=10**6):
    a = np.asarray(a)
    if a.ndim == 0:
        return num(a[()], scale)
    return [arr(x, scale) for x in a]


def ints(a):
    a = np.asarray(a)
    if a.ndim == 0:
        return int(a[()])
    return [ints(x) for x in a]


def call(fn, *args, **kw):
    """Returns (value, "") or (None, exception class name)."""
    try:
        return fn(*args, **kw), ""
    except Exception as ex:  # the exception *is* the observation
        return None, type(ex).__name__


def represent(a, key, kinds=("f64", "int", "strided", "f32", "f64", "fortran", "readonly")):
    """The same numbers in another in-memory representation, chosen by the case id: int64 (only if all
    values are integral), a non-contiguous view, float32 (only if every value is exactly representable).
    Returns (array, name).  The VALUES are unchanged, so every clause of the specification applies as is."""
    import zlib
    a = np.asarray(a, dtype=float)
    k = kinds[zlib.crc32(str(key).encode()) % len(kinds)]
    finite = np.all(np.isfinite(a))
    if k == "int" and finite and a.size and np.all(a == np.round(a)):
        return a.astype(np.int64), "int64"
    if k == "f32" and finite and a.size and np.all(a.astype(np.float32).astype(float) == a):
        return a.astype(np.float32), "float32"
    if k == "fortran" and a.ndim == 2:
        # column-major: the transposed view of a C-ordered copy of the transpose (np.ascontiguousarray(x) copies it)
        return np.ascontiguousarray(a.T).T, "fortran"
    if k == "readonly":
        b = a.copy()
        b.setflags(write=False)
        return b, "readonly"
    if k == "strided" and a.ndim >= 1 and a.shape[-1] > 0:
        buf = np.zeros(a.shape[:-1] + (2 * a.shape[-1],))
        buf[..., ::2] = a
        return buf[..., ::2], "strided"
    return a.copy(), "float64"
