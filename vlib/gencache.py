"""Cache of GEN outputs: a GEN run is a pure function of the spec files, the cfg and the
environment constants, so its ndjson output can be reused across runs."""
import glob
import hashlib
import json
import os
import shutil

from . import tlc

CACHE = os.environ.get("VERIF_GEN_CACHE", "/var/tmp/pyunicorn_verif_gen")


def key(module, cfg, env):
    h = hashlib.sha256()
    for f in sorted(glob.glob(os.path.join(tlc.SPEC_DIR, "*.tla"))):
        h.update(open(f, "rb").read())
    h.update(open(os.path.join(tlc.SPEC_DIR, cfg + ".cfg"), "rb").read())
    h.update(json.dumps([module, cfg, sorted((env or {}).items())]).encode())
    return h.hexdigest()[:24]


def get(module, cfg, env):
    p = os.path.join(CACHE, key(module, cfg, env))
    if os.path.exists(p + ".ndjson") and os.path.exists(p + ".meta"):
        return p + ".ndjson", json.load(open(p + ".meta"))
    return None, None


def put(module, cfg, env, path, meta):
    os.makedirs(CACHE, exist_ok=True)
    p = os.path.join(CACHE, key(module, cfg, env))
    shutil.copy(path, p + ".ndjson.tmp")
    os.rename(p + ".ndjson.tmp", p + ".ndjson")
    with open(p + ".meta", "w") as fh:
        json.dump(meta, fh)
