"""In-process stand-in for mpi4py: runs pyunicorn.utils.mpi as rank 0 (master) and as
ranks 1..W (workers) inside one Python process, under a scheduler the harness controls.

The real file utils/mpi.py is executed once per rank as a separate module object, each
seeing a fake ``mpi4py.MPI.COMM_WORLD`` whose send/recv go through harness-owned FIFO
queues.  A worker's ``serve()`` loop is stepped by giving its ``recv`` a one-message
budget and unwinding with a BaseException when the budget is used up; the module globals
keep the worker's state between steps.  The master module replaces the name ``mpi`` in
pyunicorn.core.network for the duration of a case, so the otherwise dead
``if mpi.available:`` branches and the real submit_call/get_result bookkeeping run
deterministically under every schedule."""
import collections
import os
import sys
import types


class _Yield(BaseException):
    """Unwinds a worker's serve() loop when its receive budget is exhausted."""


class _Comm:
    def __init__(self, world, rank):
        self.world = world
        self.rank = rank
        self.size = world.size

    def send(self, obj, dest):
        self.world._send(self.rank, dest, obj)

    def recv(self, source):
        return self.world._recv(self.rank, source)

    def Abort(self):
        raise RuntimeError("MPI abort")


def _chunk_bounds(name_to_call, args):
    """(start_i, end_i, N) of a submitted chunk job, read from the arguments by the parameter NAMES of the
    function that is called (-1 where the job has no such parameter)."""
    import inspect
    try:
        import pyunicorn
        import pyunicorn.core.network as nw
        obj = None
        for root in (nw, pyunicorn):
            try:
                obj = root
                for part in str(name_to_call).split("."):
                    obj = getattr(obj, part)
                break
            except AttributeError:
                obj = None
        try:
            names = list(inspect.signature(obj).parameters)
        except (TypeError, ValueError):
            # compiled kernels carry their signature in the first line of the docstring
            head = (obj.__doc__ or "").split(")")[0]
            names = [a.strip().split(" ")[-1] for a in head.split("(", 1)[1].split(",")]
        bound = dict(zip(names, args))
        return tuple(int(bound[k]) if k in bound else -1 for k in ("start_i", "end_i", "N"))
    except Exception:
        return (-1, -1, -1)


class World:
    def __init__(self, nworkers, schedule=()):
        import pyunicorn.utils.mpi as real
        self.size = nworkers + 1
        self.nworkers = nworkers
        self.inbox = {s: collections.deque() for s in range(1, self.size)}
        self.outbox = {s: collections.deque() for s in range(1, self.size)}
        self.pending = {s: collections.deque() for s in range(1, self.size)}   # ids at worker s
        self.budget = {s: 0 for s in range(1, self.size)}
        self.schedule = collections.deque(schedule)   # tokens: "M" | ("J", id)
        self.events = []
        self.forced = 0
        self.skipped = 0
        src_path = real.__file__
        with open(src_path) as fh:
            self.source = fh.read()
        self.src_path = src_path
        self.mods = {r: self._load(r) for r in range(self.size)}
        self.master = self.mods[0]
        self._wrap_master()

    # ---------------------------------------------------------------- modules
    def _load(self, rank):
        fake = types.ModuleType("mpi4py")
        fake_mpi = types.ModuleType("mpi4py.MPI")
        fake_mpi.COMM_WORLD = _Comm(self, rank)
        fake.MPI = fake_mpi
        saved = {k: sys.modules.get(k) for k in ("mpi4py", "mpi4py.MPI")}
        sys.modules["mpi4py"] = fake
        sys.modules["mpi4py.MPI"] = fake_mpi
        try:
            mod = types.ModuleType("pyunicorn.utils.mpi_rank%d" % rank)
            mod.__file__ = self.src_path
            exec(compile(self.source, self.src_path, "exec"), mod.__dict__)
        finally:
            for k, v in saved.items():
                if v is None:
                    sys.modules.pop(k, None)
                else:
                    sys.modules[k] = v
        return mod

    def _wrap_master(self):
        m = self.master
        real_submit, real_get = m.submit_call, m.get_result
        world = self

        def submit_call(name_to_call, args=(), kwargs={}, module="__main__", time_est=1,
                        id=None, slave=None):
            world._run_scheduled()
            rid = real_submit(name_to_call, args, kwargs, module, time_est, id, slave)
            s = int(m.assigned[rid])
            world.pending[s].append(rid)
            lo, hi, ntot = _chunk_bounds(name_to_call, args)
            world.events.append({"ev": "submit", "id": int(rid), "slave": s,
                                 "te": int(round(float(time_est))), "lo": lo, "hi": hi, "N": ntot})
            return rid

        def get_result(id):
            world._run_scheduled()
            src = int(m.assigned[id]) if id in m.assigned else 0
            try:
                res = real_get(id)
            except Exception as ex:
                world.events.append({"ev": "get_exc", "id": int(id), "source": src,
                                     "exc": type(ex).__name__})
                raise
            world.events.append({"ev": "get", "id": int(id), "source": src})
            return res

        m.submit_call = submit_call
        m.get_result = get_result

    # -------------------------------------------------------------- transport
    def _send(self, rank, dest, obj):
        if rank == 0:
            self.inbox[dest].append(obj)
        else:
            self.outbox[rank].append(obj)

    def _recv(self, rank, source):
        if rank == 0:
            # the master blocks until the worker has sent: advance that worker
            while not self.outbox[source]:
                if not self.inbox[source]:
                    raise RuntimeError("master waits for worker %d which has no job" % source)
                self.forced += 1
                self.step(source)
            return self.outbox[source].popleft()
        if self.budget[rank] <= 0 or not self.inbox[rank]:
            raise _Yield()
        self.budget[rank] -= 1
        return self.inbox[rank].popleft()

    # -------------------------------------------------------------- scheduler
    def step(self, s):
        """Worker s receives one job, computes it and sends the result."""
        if not self.inbox[s]:
            return False
        self.budget[s] = 1
        jid = self.pending[s].popleft()
        try:
            self.mods[s].serve()
        except _Yield:
            pass
        self.events.append({"ev": "step", "s": s, "id": int(jid)})
        return True

    def _run_scheduled(self):
        """Consume schedule tokens up to (and including) the next master token."""
        while self.schedule:
            tok = self.schedule.popleft()
            if tok == "M":
                return
            jid = tok[1]
            owner = [s for s in self.pending if self.pending[s] and self.pending[s][0] == jid]
            if owner:
                self.step(owner[0])
            else:
                self.skipped += 1      # the job is not at the head of a worker's inbox here

    def drain(self):
        for s in self.inbox:
            while self.inbox[s]:
                self.step(s)

    # ------------------------------------------------------------- activation
    def __enter__(self):
        import pyunicorn.core.network as net
        self._net = net
        self._saved = net.mpi
        net.mpi = self.master
        return self

    def __exit__(self, *exc):
        self._net.mpi = self._saved
        return False
