"""Materialise /repo's current working tree as an importable overlay.

The overlay is a copy of /repo/src in a fresh temporary directory with the four
Cython extensions rebuilt from the *current* sources.  Builds are cached by the
hash of every file that influences the binaries; the cache lives outside /repo
and /verif and is recreated on demand (nothing depends on it surviving).
"""
import glob
import hashlib
import os
import shutil
import subprocess
import sys
import tempfile

REPO = os.environ.get("VERIF_REPO", "/repo")
CACHE = os.environ.get("VERIF_BUILD_CACHE", "/var/tmp/pyunicorn_verif_cache")
PY = "/venv/bin/python"
PKGS = ["climate", "core", "funcnet", "timeseries"]


def _ext_sources(repo):
    files = [os.path.join(repo, "setup.py"), os.path.join(repo, "pyproject.toml")]
    for pkg in PKGS:
        d = os.path.join(repo, "src", "pyunicorn", pkg, "_ext")
        for pat in ("*.pyx", "*.pxd", "src_numerics.c", "*.py", "*.h"):
            files += sorted(glob.glob(os.path.join(d, pat)))
    return [f for f in files if os.path.isfile(f)]


def ext_hash(repo=REPO):
    h = hashlib.sha256()
    for f in _ext_sources(repo):
        h.update(os.path.relpath(f, repo).encode())
        with open(f, "rb") as fh:
            h.update(fh.read())
    return h.hexdigest()[:24]


def _build(repo, dest):
    scratch = tempfile.mkdtemp(prefix="pyu_build_", dir="/var/tmp")
    try:
        for name in ("setup.py", "pyproject.toml", "setup.cfg", "MANIFEST.in",
                     "README.rst", "LICENSE.txt"):
            p = os.path.join(repo, name)
            if os.path.exists(p):
                shutil.copy(p, scratch)
        subprocess.check_call(
            ["rsync", "-a", "--exclude", "*.so", "--exclude", "__pycache__",
             "--exclude", "numerics.c", os.path.join(repo, "src") + "/",
             os.path.join(scratch, "src") + "/"])
        env = dict(os.environ)
        env.pop("PYTHONPATH", None)
        r = subprocess.run([PY, "setup.py", "-q", "build_ext", "--inplace", "-j", "4"],
                           cwd=scratch, env=env, stdout=subprocess.PIPE,
                           stderr=subprocess.STDOUT, text=True)
        if r.returncode != 0:
            sys.stderr.write(r.stdout[-4000:])
            raise RuntimeError("extension build failed")
        os.makedirs(dest + ".tmp", exist_ok=True)
        for pkg in PKGS:
            so = glob.glob(os.path.join(scratch, "src", "pyunicorn", pkg, "_ext",
                                        "numerics*.so"))
            if len(so) != 1:
                raise RuntimeError("no built extension for " + pkg)
            shutil.copy(so[0], os.path.join(dest + ".tmp", pkg + "__" +
                                            os.path.basename(so[0])))
        if os.path.isdir(dest):
            shutil.rmtree(dest + ".tmp")
        else:
            os.rename(dest + ".tmp", dest)
    finally:
        shutil.rmtree(scratch, ignore_errors=True)


def _prune(keep):
    try:
        ents = [os.path.join(CACHE, d) for d in os.listdir(CACHE)]
    except FileNotFoundError:
        return
    ents = [e for e in ents if os.path.isdir(e) and not e.endswith(keep)]
    ents.sort(key=os.path.getmtime, reverse=True)
    for e in ents[2:]:
        shutil.rmtree(e, ignore_errors=True)


def build_overlay(repo=REPO):
    """Returns the path of a fresh overlay directory (caller removes it)."""
    h = ext_hash(repo)
    dest = os.path.join(CACHE, h)
    if not os.path.isdir(dest):
        os.makedirs(CACHE, exist_ok=True)
        _build(repo, dest)
    os.utime(dest)
    _prune(h)
    ov = tempfile.mkdtemp(prefix="pyu_ov_", dir="/var/tmp")
    subprocess.check_call(
        ["rsync", "-a", "--exclude", "*.so", "--exclude", "__pycache__",
         os.path.join(repo, "src") + "/", os.path.join(ov, "src") + "/"])
    for f in os.listdir(dest):
        pkg, name = f.split("__", 1)
        shutil.copy(os.path.join(dest, f),
                    os.path.join(ov, "src", "pyunicorn", pkg, "_ext", name))
    return ov


if __name__ == "__main__":
    import time
    t = time.time()
    o = build_overlay()
    print(o, round(time.time() - t, 1))
    if "--keep" not in sys.argv:
        shutil.rmtree(o)
