"""pytest plugin: the repository's OWN test suite is run with the guarded lookup hook of core/cache.py in shadow
mode - every cache hit that any test causes is re-evaluated with the undecorated method on the object's
current state.  Per test: number of hits, misses and the stale lookups.  The outcome of the tests themselves
is recorded but not judged (that is the baseline's job); what is validated is the lookup log.

    PYTHONPATH=<overlay>/src:/verif PYUNICORN_VERIF=1 VERIF_TAP_OUT=<prefix> \\
        python -m pytest -p vlib.pytest_tap ... /repo/tests
writes <prefix>.<pid>.json (one file per xdist worker)."""
import json
import os

_RECS = []


def pytest_configure(config):
    from vlib import cachetap
    if not cachetap.STATE["installed"]:
        cachetap.install()
    cachetap.drain()


def pytest_runtest_logreport(report):
    if report.when != "teardown":
        return
    from vlib import cachetap
    lk = cachetap.drain()
    _RECS.append({"test": report.nodeid, "hits": int(lk["hits"]), "misses": int(lk["misses"]),
                  "stale": list(lk["stale"])})


def pytest_sessionfinish(session, exitstatus):
    out = os.environ.get("VERIF_TAP_OUT")
    if out and _RECS:
        with open("%s.%d.json" % (out, os.getpid()), "w") as fh:
            json.dump(_RECS, fh)
