"""Thin driver around TLC: run a module, parse counters and PrintT tuples."""
import json
import os
import re
import subprocess
import time
from concurrent.futures import ThreadPoolExecutor

JAR = "/opt/veriftools/tla/tla2tools.jar:/opt/veriftools/tla/CommunityModules-deps.jar"
SPEC_DIR = os.path.join(os.path.dirname(os.path.dirname(os.path.abspath(__file__))), "spec")


class TlcError(Exception):
    pass


class TlcResult:
    def __init__(self, out, rc, wall):
        self.out = out
        self.rc = rc
        self.wall = wall
        self.generated = 0
        self.distinct = 0
        m = None
        for m in re.finditer(r"(\d+) states generated, (\d+) distinct states found", out):
            pass
        if m:
            self.generated = int(m.group(1))
            self.distinct = int(m.group(2))
        self.tuples = parse_tuples(out)
        self.violated = re.findall(r"Error: (Invariant|Action property|Temporal properties?) (\S+)? ?(?:is|were) violated", out)
        self.error = None
        if rc not in (0,) and not self.violated:
            self.error = out[-3000:]

    def verdicts(self, tag="V"):
        return [t[1:] for t in self.tuples if t and t[0] == tag]


def parse_tuples(out):
    """Extract every top-level TLA+ tuple <<...>> printed by PrintT.

    Elements may be strings, integers, booleans and nested tuples; parsing is by
    bracket matching so that wrapped lines and interleaved output do no harm."""
    res = []
    i, n = 0, len(out)
    while True:
        i = out.find("<<", i)
        if i < 0:
            break
        try:
            val, j = _parse_val(out, i)
        except (ValueError, IndexError):
            i += 2
            continue
        res.append(val)
        i = j
    return res


def _skip(s, i):
    while i < len(s) and s[i] in " \t\r\n":
        i += 1
    return i


def _parse_val(s, i):
    i = _skip(s, i)
    if s.startswith("<<", i):
        i += 2
        items = []
        i = _skip(s, i)
        if s.startswith(">>", i):
            return tuple(items), i + 2
        while True:
            v, i = _parse_val(s, i)
            items.append(v)
            i = _skip(s, i)
            if s.startswith(">>", i):
                return tuple(items), i + 2
            if s[i] != ",":
                raise ValueError("tuple")
            i += 1
    if s[i] == '"':
        j = i + 1
        buf = []
        while s[j] != '"':
            if s[j] == "\\":
                j += 1
            buf.append(s[j])
            j += 1
        return "".join(buf), j + 1
    m = re.compile(r"-?\d+").match(s, i)
    if m:
        return int(m.group(0)), m.end()
    for lit, v in (("TRUE", True), ("FALSE", False)):
        if s.startswith(lit, i):
            return v, i + len(lit)
    raise ValueError("value at %d" % i)


def run(module, cfg=None, env=None, workers=1, metadir=None, extra=(), timeout=3600,
        xmx="3g", simulate=None, depth=None, deadlock=False, cwd=None):
    """Run TLC on spec/<module>.tla with spec/<cfg>.cfg."""
    cwd = cwd or SPEC_DIR
    cfg = cfg or module
    e = dict(os.environ)
    e.pop("JAVA_TOOL_OPTIONS", None)
    if env:
        e.update({k: str(v) for k, v in env.items()})
    gc = "-XX:+UseSerialGC" if workers == 1 else "-XX:+UseParallelGC"
    cmd = ["java", gc, "-Xss256m", "-Xmx" + xmx, "-cp", JAR, "tlc2.TLC",
           "-workers", str(workers), "-noGenerateSpecTE",
           "-metadir", metadir or "/var/tmp/tlc_meta_%d_%d" % (os.getpid(), time.time_ns()),
           "-config", cfg + ".cfg"]
    if deadlock:
        cmd.append("-deadlock")
    if simulate:
        cmd += ["-simulate", simulate]
    if depth:
        cmd += ["-depth", str(depth)]
    cmd += list(extra) + [module + ".tla"]
    t = time.time()
    try:
        p = subprocess.run(cmd, cwd=cwd, env=e, stdout=subprocess.PIPE,
                           stderr=subprocess.STDOUT, text=True, timeout=timeout)
        out, rc = p.stdout, p.returncode
    except subprocess.TimeoutExpired as ex:
        out = (ex.stdout or b"").decode() if isinstance(ex.stdout, bytes) else (ex.stdout or "")
        out += "\nTLC TIMEOUT\n"
        rc = 124
    finally:
        md = cmd[cmd.index("-metadir") + 1]
        subprocess.call(["rm", "-rf", md])
    return TlcResult(out, rc, time.time() - t)


def run_sharded(module, cfg, trace_files, env_key="TRACE_FILE", env=None, jobs=16, **kw):
    """One TLC process per trace shard, in parallel."""
    def one(tf):
        e = dict(env or {})
        e[env_key] = tf
        return run(module, cfg, env=e, workers=1, **kw)
    with ThreadPoolExecutor(max_workers=jobs) as ex:
        return list(ex.map(one, trace_files))


def write_ndjson(path, records):
    with open(path, "w") as fh:
        for r in records:
            fh.write(json.dumps(r, separators=(",", ":")) + "\n")


def shard(records, k):
    k = max(1, min(k, len(records)))
    out = [[] for _ in range(k)]
    for i, r in enumerate(records):
        out[i % k].append(r)
    return out
