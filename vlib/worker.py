"""RUN-stage worker: executes adapter functions on the real code (overlay on sys.path)."""
import importlib
import json
import os
import signal
import sys
import traceback
import warnings


class CaseTimeout(BaseException):
    pass


def _alarm(signum, frame):
    raise CaseTimeout()


def _np(o):
    import numpy
    if isinstance(o, numpy.integer):
        return int(o)
    if isinstance(o, numpy.floating):
        return float(o)
    if isinstance(o, numpy.ndarray):
        return o.tolist()
    raise TypeError(type(o).__name__)


def main():
    runner, fin, fout = sys.argv[1:4]
    cov = None
    if os.environ.get("VERIF_COVERAGE"):          # audit mode only (tools/coverage_audit.py)
        import coverage
        cov = coverage.Coverage(data_file=os.path.join(os.environ["VERIF_COVERAGE"], "cov.%d" % os.getpid()),
                                include=["*/pyunicorn/*"])
        cov.start()
    try:
        _main(runner, fin, fout)
    finally:
        if cov is not None:
            cov.stop()
            cov.save()


def _main(runner, fin, fout):
    modname, func = runner.rsplit(".", 1)
    warnings.simplefilter("ignore")
    import numpy
    numpy.seterr(all="ignore")
    mod = importlib.import_module(modname)
    fn = getattr(mod, func)
    cases = json.load(open(fin))
    signal.signal(signal.SIGALRM, _alarm)
    limit = int(os.environ.get("VERIF_CASE_TIMEOUT", "120"))
    devnull = open(os.devnull, "w")
    with open(fout, "w") as out:
        for c in cases:
            real_stdout = sys.stdout
            sys.stdout = devnull
            try:
                signal.alarm(limit)
                rec = fn(c)
                signal.alarm(0)
            except CaseTimeout:
                rec = {"case": c.get("case"), "harness_error": "case timeout"}
            except (Exception, SystemExit):
                signal.alarm(0)
                rec = {"case": c.get("case"), "harness_error": traceback.format_exc()}
            finally:
                sys.stdout = real_stdout
            out.write(json.dumps(rec, separators=(",", ":"), default=_np) + "\n")


if __name__ == "__main__":
    main()
